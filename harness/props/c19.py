"""C19 Computed grid geometry satisfies the divergence theorem.

Cases are grids: constructor kinds (Cartesian, tensor, structured triangle / tetrahedron, Delaunay
triangle / tetrahedron, generic polygon / prism grids built from explicit lists) plus modifications
(interior node perturbation, in-dimension affine map, rigid embedding in 3-D, face re-orientation).
impl = `compute_geometry` of the real grid; model = the rational Lean model of the same computation
(2-D grids in the xy-plane, 1-D grids, 3-D grids with planar faces); oracle = the property itself.
"""
import math
import warnings
from fractions import Fraction

import numpy as np
import scipy.sparse as sps

from harness.common import frac, err_kind, deep_compare

PID = "C19"
THEOREMS = [
    "PorepyVerif.C19.normal_length_is_area_sq",
    "PorepyVerif.C19.closed_cell",
    "PorepyVerif.C19.area_identity",
    "PorepyVerif.C19.centroid_identity",
    "PorepyVerif.C19.centroid_identity_div",
    "PorepyVerif.C19.outward_iff_subvolume_pos",
    "PorepyVerif.C19.polygon_closed",
    "PorepyVerif.C19.polygon_identities",
    "PorepyVerif.C19.oriented_check_closed",
    "PorepyVerif.C19.oriented_grid_cells_closed",
    "PorepyVerif.C19.oriented_grid_divergence",
    "PorepyVerif.C19.convex_ccw_area_pos",
    "PorepyVerif.C19.volumes_nonneg",
    "PorepyVerif.C19.cart_cell_area",
    "PorepyVerif.C19.cart_volumes_sum",
    "PorepyVerif.C19.line_cell_identities",
    "PorepyVerif.C19.line_volumes_sum",
    "PorepyVerif.C19.face_normal_shoelace",
    "PorepyVerif.C19.closed_cell_3d",
    "PorepyVerif.C19.paired_of_perm",
    "PorepyVerif.C19.volume_identity_3d",
    "PorepyVerif.C19.tet_closed_cell_3d",
    "PorepyVerif.C19.tet_volume_identity_3d",
    "PorepyVerif.C19.cart3_cell_volume",
    "PorepyVerif.C19.cart_volumes_sum_3d",
    "PorepyVerif.C19.centroid_identity_3d",
    "PorepyVerif.C19.centroid_identity_3d_div",
    "PorepyVerif.C19.tet_centroid_identity_3d",
    "PorepyVerif.C19.legacy_cell_identities",
    "PorepyVerif.C19.legacy_outward",
    "PorepyVerif.C19.legacy_volume_pos",
    "PorepyVerif.C19.legacy_polygon_closed",
    "PorepyVerif.C19.legacy_grid_normal",
    "PorepyVerif.C19.embedded_cell_identities",
    "PorepyVerif.C19.embedded_centroid_div",
    "PorepyVerif.C19.line_cell_identities_embedded",
    "PorepyVerif.C19.star_cell_volume_pos",
    "PorepyVerif.C19.convex_cell_star",
    "PorepyVerif.C19.convex_cell_volume_pos",
    "PorepyVerif.C19.tet_cell_positive",
    "PorepyVerif.C19.para_cell_positive",
    "PorepyVerif.C19.edgePairedB_sound",
    "PorepyVerif.C19.planarStarB_sound",
    "PorepyVerif.C19.nodesPlanarB_sound",
    "PorepyVerif.C19.starAboutB_sound",
    "PorepyVerif.C19.checked_cell_3d",
    "PorepyVerif.C19.convex_ccw_outward_centroid",
    "PorepyVerif.C19.line_volume_pos",
    "PorepyVerif.C19.volumes_sum_boundary",
]
LEAN_MODULES = ["PorepyVerif.C19.Props"]
AUDIT = "PorepyVerif/C19/Audit.lean"
DRIVER = "PorepyVerif/C19/Driver.lean"
N = {"quick": 80, "thorough": 2000}
RULE = ("grids of dimension 1-3 from CartGrid / TensorGrid / StructuredTriangleGrid / StructuredTetrahedralGrid / TriangleGrid "
        "(given or Delaunay triangulation, counter-clockwise, clockwise or mixed cell orientation) / TetrahedralGrid (Delaunay) / "
        "generic pp.Grid (star-shaped and convex polygons with random face directions, merged Cartesian cells giving L-shapes and "
        "cells with hanging nodes, prisms over polygons), with random interior node perturbations that keep cells valid, "
        "in-dimension affine maps (incl. 2-D reflections), consistent re-orientation of random faces, sign-only flips (legacy path), "
        "geometric scale 2^-20..2^20 applied to all coordinates of about half the cases, graded tensor grids whose cell sizes span up to 2^15, "
        "and rigid rational embeddings of 1-D / 2-D grids in 3-D; coordinates are rationals with small denominators (binary64 values "
        "are sent exactly); non-trivial = not an unmodified unit Cartesian grid; distinct = distinct case descriptions")
TRUSTED = [
    "modelled, not verified: numpy/scipy glue of compute_geometry (sparse products, bincount, cross), np.mean(face_areas) in orientation "
    "check (2/3) is supplied to the model from the harness (it is a square root)",
    "the legacy (non-oriented) 2-D path: identities proved per cell under the code's own assumption (cell star-shaped about the temporary "
    "centre, the two sides of every face agree on the flip: legacy_cell_identities, legacy_grid_normal); the model uses plane normal +z there "
    "(the result does not depend on it unless the two sides of a face disagree)",
    "3-D: face centre and face area use |sub_normal| = |sub_normal . N| / |N| (exact for planar faces); non-planar faces: only normals and "
    "volumes are compared; the general 3-D theorems assume 'directed edges pair up' (closed surface, EdgePaired), planar star-shaped "
    "non-degenerate faces (PlanarStar) and, for the centroid identity, nodes in the face plane (NodesPlanar); these hypotheses are proved for "
    "tetrahedra and parallelepipeds and are otherwise DECIDABLE input conditions (cellHypB, checked_cell_3d) which the Lean driver evaluates on "
    "every 3-D cell; the harness requires them to hold wherever planarity survives binary64 rounding of the nodes (simplices, unmapped cells)",
    "1-D: the unit tangent is carried as direction + squared length; the flip test is modelled for collinear nodes",
    "embedded 2-D grids: the model is the planar model followed by the rational rigid motion of the case (embedded_cell_identities proves the "
    "identities for every orthogonal R); that the code's plane normal is +-R e_z (its normalisation is a square root) is tied by the comparison only; "
    "embedded 1-D grids go through the 1-D model directly (direction + squared length)",
    "constructors: TensorGrid._create_2d_grid / _create_3d_grid are modelled cell by cell (tensorCells, tensorCells3: node order and signs of "
    "every face of every cell) and compared exactly; the other constructors enter through the topology of the real grid object that is "
    "handed to the model, plus the expectation that grids whose construction implies consistent loops take the oriented 2-D path",
]
EXPLANATION = ("FULL in 1-D/2-D: the model is _compute_geometry_2d/_1d as coded over the rationals; closed_cell / area_identity / centroid_identity "
               "are proved for every cell whose faces pass the code's own orientation check (node incidence zero), hence for every polygon of any "
               "length. CORE in 3-D: sub-tetrahedra formulas as coded; closed_cell_3d / volume_identity_3d proved for every closed surface of planar "
               "star-shaped faces and instantiated for the tetrahedron. Correspondence compares all geometry fields; the oracle checks the property "
               "on the real grids in all dimensions including embedded ones.")
ASSUMPTIONS = ["grids are valid: cells are non-degenerate and, for the legacy 2-D path and for 3-D, star-shaped about their temporary centre",
               "planar faces for the centroid / volume identities in 3-D"]

TOL_MODEL = 1e-12   # relative; multiplied by the conditioning factor R = 1 + (largest coordinate) / (smallest face size)
TOL_ORACLE = 1e-10  # relative to the local cell quantities (no absolute floor), times the same kind of factor per cell


# ----------------------------------------------------------------------------- helpers
def F(s):
    return Fraction(s)


def fr(rng, lo, hi, dens=(1, 2, 4, 8)):
    d = rng.choice(dens)
    return Fraction(rng.randint(int(lo * d), int(hi * d)), d)


def _cayley(rng):
    a, b, c = (fr(rng, -1, 1, (1, 2, 3)) for _ in range(3))
    n = 1 + a * a + b * b + c * c
    return [[(1 + a * a - b * b - c * c) / n, 2 * (a * b - c) / n, 2 * (a * c + b) / n],
            [2 * (a * b + c) / n, (1 - a * a + b * b - c * c) / n, 2 * (b * c - a) / n],
            [2 * (a * c - b) / n, 2 * (b * c + a) / n, (1 - a * a - b * b + c * c) / n]]


def _det3(m):
    return (m[0][0] * (m[1][1] * m[2][2] - m[1][2] * m[2][1]) - m[0][1] * (m[1][0] * m[2][2] - m[1][2] * m[2][0])
            + m[0][2] * (m[1][0] * m[2][1] - m[1][1] * m[2][0]))


def _inplane_map(rng, dim, allow_reflection):
    """rational affine map acting inside the first `dim` coordinates; moderate conditioning"""
    while True:
        m = [[Fraction(int(i == k)) for k in range(3)] for i in range(3)]
        for i in range(dim):
            for k in range(dim):
                m[i][k] = fr(rng, -1, 1, (1, 2, 4)) + (1 if i == k else 0) * rng.choice([1, 1, 2])
        d = _det3(m)
        if abs(d) < Fraction(1, 2):
            continue
        if d < 0 and not allow_reflection:
            continue
        return m


def _topology(g):
    fn, fp = g.face_nodes.indices, g.face_nodes.indptr
    faces = [[int(x) for x in fn[fp[i]:fp[i + 1]]] for i in range(g.num_faces)]
    cf = g.cell_faces
    cells = [[[int(cf.indices[k]), int(cf.data[k])] for k in range(cf.indptr[c], cf.indptr[c + 1])] for c in range(g.num_cells)]
    return faces, cells


def _from_lists(dim, nodes, faces, cells):
    import porepy as pp
    nn = nodes.shape[1]
    ind = np.array([n for f in faces for n in f], dtype=int)
    ptr = np.cumsum([0] + [len(f) for f in faces])
    fnm = sps.csc_matrix((np.ones(ind.size, dtype=bool), ind, ptr), shape=(nn, len(faces)))
    cind = np.array([e[0] for c in cells for e in c], dtype=int)
    cdat = np.array([e[1] for c in cells for e in c], dtype=int)
    cptr = np.cumsum([0] + [len(c) for c in cells])
    cfm = sps.csc_matrix((cdat, cind, cptr), shape=(len(faces), len(cells)))
    return pp.Grid(dim, nodes, fnm, cfm, "generic")


def _build(case):
    """the real grid of the case, nodes final, geometry not yet computed"""
    import porepy as pp
    k = case["kind"]
    fl = lambda xs: np.array([float(F(x)) for x in xs])
    if k == "cart":
        nx = np.array(case["nx"])
        if case.get("scalar_nx"):
            nx = int(case["nx"][0])  # entry point CartGrid(n, ...)
        if case.get("origin"):
            # entry point: physdims as a dictionary xmin/xmax/...
            o, ph = fl(case["origin"]), fl(case["phys"])
            phys = {}
            for d, ax in enumerate("xyz"[:len(case["nx"])]):
                phys[ax + "min"], phys[ax + "max"] = float(o[d]), float(o[d] + ph[d])
            g = pp.CartGrid(nx, phys)
        elif case.get("scalar_nx"):
            g = pp.CartGrid(nx, float(fl(case["phys"])[0]))
        else:
            g = pp.CartGrid(nx, fl(case["phys"]))
    elif k == "point":
        g = pp.PointGrid(fl(case["p"]))
    elif k == "tensor":
        g = pp.TensorGrid(*[fl(c) for c in case["coords"]])
    elif k == "stri":
        g = pp.StructuredTriangleGrid(np.array(case["nx"]), fl(case["phys"]))
    elif k == "stet":
        g = pp.StructuredTetrahedralGrid(np.array(case["nx"]), fl(case["phys"]))
    elif k == "tri":
        p = np.array([[float(F(x)) for x in pt] for pt in case["p"]]).T
        tri = None if case["tri"] is None else np.array(case["tri"], dtype=int).T
        g = pp.TriangleGrid(p, tri)
    elif k == "tet":
        p = np.array([[float(F(x)) for x in pt] for pt in case["p"]]).T
        g = pp.TetrahedralGrid(p)
    elif k == "generic":
        nodes = np.array([[float(F(x)) for x in pt] for pt in case["nodes"]]).T
        g = _from_lists(case["dim"], nodes, case["faces"], case["cells"])
    else:
        raise ValueError(k)
    nodes = np.array(g.nodes, dtype=float, copy=True)
    if nodes.shape[0] == 2:
        nodes = np.vstack((nodes, np.zeros(nodes.shape[1])))
    for i, dx, dy, dz in case.get("perturb", []):
        nodes[:, i] += np.array([float(F(dx)), float(F(dy)), float(F(dz))])
    if case.get("affine"):
        a = np.array([[float(F(x)) for x in row] for row in case["affine"]["m"]])
        b = np.array([float(F(x)) for x in case["affine"]["b"]])
        nodes = a @ nodes + b.reshape((3, 1))
    if case.get("scale"):
        nodes = nodes * 2.0 ** int(case["scale"])  # exact in binary64
    flips, sflips = case.get("flip_faces", []), case.get("flip_signs", [])
    if flips or sflips:
        faces, cells = _topology(g)
        for f in flips:  # consistent re-orientation: reverse the node order and negate the cell_faces row
            faces[f] = faces[f][::-1] if g.dim > 1 else faces[f]
        neg = set(flips) ^ set(sflips)
        cells = [[[f, -s if f in neg else s] for f, s in c] for c in cells]
        g = _from_lists(g.dim, nodes, faces, cells)
    else:
        g.nodes = nodes
    if case.get("perm_cells"):
        # same grid with the cells stored in another order and the faces of every cell listed in another order
        faces, cells = _topology(g)
        order = case["perm_cells"]
        cells = [cells[i][r % len(cells[i]):] + cells[i][:r % len(cells[i])] for i, r in order]
        g = _from_lists(g.dim, g.nodes, faces, cells)
    return g


def _compute(g):
    with warnings.catch_warnings(record=True) as w:
        warnings.simplefilter("always")
        with np.errstate(all="ignore"):
            g.compute_geometry()
    return any("Orientations are inconsistent" in str(x.message) for x in w)


def _tensor_tie(case):
    """TensorGrid constructor modelled cell by cell (2-D and 3-D)"""
    return case["kind"] == "tensor" and case["dim"] in (2, 3) and not case.get("flip_faces") and not case.get("flip_signs")


def _geometry(case):
    """real grid of the case with geometry computed through the entry point the case names:
    plain, 'copy' (Grid.copy() of the constructed grid, then compute_geometry) or 'twice' (compute_geometry repeated)"""
    g = _build(case)
    rep = case.get("repeat")
    if rep == "copy":
        g = g.copy()
    legacy = _compute(g)
    if rep == "twice":
        legacy = _compute(g)
    return g, legacy


def _model_dim(case):
    """which model op covers the case: 1, 2, 3, or "2e" = planar 2-D model followed by the rigid motion of the case
    (embedded 1-D grids go to the 1-D model directly: it works on 3-D nodes); embedded cases always have a rational
    orthogonal matrix in case["affine"]"""
    if case["kind"] == "point":
        return None
    if case.get("embedded"):
        return 1 if case["dim"] == 1 else "2e"
    return case["dim"]


# ----------------------------------------------------------------------------- impl / model
def impl_run(case):
    try:
        g, legacy = _geometry(case)
    except Exception as e:
        return err_kind(e)
    md = _model_dim(case)
    out = {}
    if _tensor_tie(case):
        # cell-by-cell content of the constructor (before perturbation / maps): per cell the faces in cell_faces order with their
        # nodes in face_nodes order (coordinates) and sign
        g0 = _build({"kind": "tensor", "dim": case["dim"], "coords": case["coords"]})
        faces, cells = _topology(g0)
        x = g0.nodes
        if case["dim"] == 2:
            out["tensor_cells"] = [[[frac(x[0, faces[f][0]]), frac(x[1, faces[f][0]]), frac(x[0, faces[f][1]]), frac(x[1, faces[f][1]]), frac(s)]
                                    for f, s in c] for c in cells]
        else:
            out["tensor_cells"] = [[{"nodes": [[frac(x[0, n]), frac(x[1, n]), frac(x[2, n])] for n in faces[f]], "sign": frac(s)}
                                    for f, s in c] for c in cells]
    if md is None:
        return out
    fin = all(np.all(np.isfinite(a)) for a in (g.cell_volumes, g.cell_centers, g.face_normals, g.face_areas, g.face_centers))
    if not fin:
        return {"err": "NonFinite"}
    if md == 2:
        out.update({
            "oriented": not legacy,
            "face_len2": [float(a) ** 2 for a in g.face_areas],
            "face_centers": [[float(v) for v in g.face_centers[:2, i]] for i in range(g.num_faces)],
            "face_normals": [[float(v) for v in g.face_normals[:2, i]] for i in range(g.num_faces)],
            "cell_volumes": [float(v) for v in g.cell_volumes],
            "cell_centers": [[float(v) for v in g.cell_centers[:2, i]] for i in range(g.num_cells)],
            "z_zero": bool(np.all(g.face_normals[2] == 0) and np.all(g.face_centers[2] == g.nodes[2, 0]) and np.all(g.cell_centers[2] == g.nodes[2, 0])),
        })
    elif md == "2e":
        out.update({
            "oriented": not legacy,
            "face_len2": [float(a) ** 2 for a in g.face_areas],
            "face_centers": [[float(v) for v in g.face_centers[:, i]] for i in range(g.num_faces)],
            "face_normals": [[float(v) for v in g.face_normals[:, i]] for i in range(g.num_faces)],
            "cell_volumes": [float(v) for v in g.cell_volumes],
            "cell_centers": [[float(v) for v in g.cell_centers[:, i]] for i in range(g.num_cells)],
        })
    elif md == 1:
        out.update({
            "face_centers": [[float(v) for v in g.face_centers[:, i]] for i in range(g.num_faces)],
            "face_normals": [[float(v) for v in g.face_normals[:, i]] for i in range(g.num_faces)],
            "face_areas": [float(a) for a in g.face_areas],
            "cell_len2": [float(v) ** 2 for v in g.cell_volumes],
            "cell_centers": [[float(v) for v in g.cell_centers[:, i]] for i in range(g.num_cells)],
        })
    else:
        out.update({
            "face_normals": [[float(v) for v in g.face_normals[:, i]] for i in range(g.num_faces)],
            "cell_volumes": [float(v) for v in g.cell_volumes],
        })
        if case.get("planar", True):
            out.update({
                "face_area2": [float(a) ** 2 for a in g.face_areas],
                "face_centers": [[float(v) for v in g.face_centers[:, i]] for i in range(g.num_faces)],
                "cell_centers": [[float(v) for v in g.cell_centers[:, i]] for i in range(g.num_cells)],
            })
    return out


def model_ops(case):
    ops = []
    if _tensor_tie(case):
        if case["dim"] == 2:
            ops.append({"op": "tensor2", "xs": case["coords"][0], "ys": case["coords"][1]})
        else:
            ops.append({"op": "tensor3", "xs": case["coords"][0], "ys": case["coords"][1], "zs": case["coords"][2]})
    md = _model_dim(case)
    if md is None:
        return ops
    try:
        if md == "2e":
            # the planar pre-image: same case without the rigid motion and the scale (both are applied by the model)
            g = _build({k: v for k, v in case.items() if k not in ("affine", "embedded", "scale")})
        else:
            g = _build(case)
    except Exception:
        return ops
    faces, cells = _topology(g)
    X = g.nodes
    if md == "2e":
        lens = [math.sqrt(float(X[0, e] - X[0, s]) ** 2 + float(X[1, e] - X[1, s]) ** 2) for s, e in faces]
        ops.append({"op": "geom2e", "nodes": [[frac(X[0, i]), frac(X[1, i])] for i in range(X.shape[1])], "faces": faces, "cells": cells,
                    "mean_len": frac(sum(lens) / max(1, len(lens))), "m": case["affine"]["m"], "b": case["affine"]["b"],
                    "sc": frac(Fraction(2) ** int(case.get("scale", 0)))})
    elif md == 2:
        lens = [math.sqrt(float(X[0, e] - X[0, s]) ** 2 + float(X[1, e] - X[1, s]) ** 2) for s, e in faces]
        ops.append({"op": "geom2", "nodes": [[frac(X[0, i]), frac(X[1, i])] for i in range(X.shape[1])], "faces": faces, "cells": cells,
                    "mean_len": frac(sum(lens) / max(1, len(lens)))})
    elif md == 1:
        ops.append({"op": "geom1", "nodes": [[frac(X[0, i]), frac(X[1, i]), frac(X[2, i])] for i in range(X.shape[1])],
                    "faces": [f[0] for f in faces], "cells": [[c[0][0], c[0][1], c[1][0], c[1][1]] for c in cells]})
    else:
        ops.append({"op": "geom3", "nodes": [[frac(X[0, i]), frac(X[1, i]), frac(X[2, i])] for i in range(X.shape[1])], "faces": faces,
                    "cells": [sorted(c) for c in cells]})
    return ops


def model_decode(outs, case):
    res = {}
    k = 0
    if outs and isinstance(outs[0], dict) and "volume_sum" in outs[0]:
        res["tensor_cells"] = outs[0]["cells"]
        res["_tensor_volume_sum"] = outs[0]["volume_sum"]
        k = 1
    md = _model_dim(case)
    if md is None or len(outs) <= k:
        return res
    o = outs[k]
    if "err" in o:
        return o
    if md == "2e":
        if any(c is None for c in o["cell_centers"]):
            return {"err": "NonFinite"}
        res.update(o)
    elif md == 2:
        if any(c is None for c in o["cell_centers"]):
            return {"err": "NonFinite"}
        res.update(o)
        res["z_zero"] = True
    elif md == 1:
        d = [float(F(x)) for x in o["dir"]]
        nrm = math.sqrt(sum(x * x for x in d))
        res.update({"face_centers": o["face_centers"], "cell_len2": o["cell_len2"], "cell_centers": o["cell_centers"],
                    "face_areas": [1.0] * len(o["face_flip"]),
                    "face_normals": [[float(F(s)) * x / nrm for x in d] for s in o["face_flip"]]})
    else:
        if F(o["min_tet"]) < Fraction(-1, 10 ** 12):
            return {"err": "ValueError"}
        res.update({"face_normals": o["face_normals"], "cell_volumes": o["cell_volumes"]})
        res["_hyp_ok"] = o.get("hyp_ok", [])
        if case.get("planar", True):
            res.update({"face_area2": o["face_area2"], "face_centers": o["face_centers"], "cell_centers": o["cell_centers"]})
    return res


def compare(impl, model, case):
    if isinstance(impl, dict) and "harness_exc" in impl:
        return "harness exception in impl_run: " + impl["harness_exc"]
    m = {k: v for k, v in model.items() if not k.startswith("_")}
    if "tensor_cells" in impl or "tensor_cells" in m:
        d = deep_compare(impl.get("tensor_cells"), m.get("tensor_cells"), ".tensor_cells")  # exact
        if d:
            return d
        # the model's volume sum of the tensor constructor equals the product of the extents
        ext = Fraction(1)
        for c in case["coords"]:
            ext *= F(c[-1]) - F(c[0])
        if F(model["_tensor_volume_sum"]) != ext:
            return "model tensor volume sum differs from product of extents"
    if "expect_oriented" in case and isinstance(impl, dict) and "oriented" in impl and impl["oriented"] != case["expect_oriented"]:
        return (f"grid built by {case['kind']} takes the {'oriented' if impl['oriented'] else 'legacy'} path of _compute_geometry_2d, "
                f"the construction implies {'oriented' if case['expect_oriented'] else 'legacy'}")
    a = {k: v for k, v in impl.items() if k != "tensor_cells"}
    b = {k: v for k, v in m.items() if k != "tensor_cells"}
    if "_hyp_ok" in model:
        # the decidable hypotheses of the 3-D theorems (cellHypB), evaluated by the Lean driver on the exact node coordinates;
        # required wherever planarity survives binary64 rounding of the nodes: simplices always, other cells without maps
        exact = case["kind"] in ("tet", "stet") or (case.get("planar", True) and not case.get("affine") and not case.get("perturb"))
        HYP["cells"] += len(model["_hyp_ok"])
        HYP["cells_hyp_true"] += sum(1 for x in model["_hyp_ok"] if x)
        if exact:
            HYP["cells_required"] += len(model["_hyp_ok"])
            if not all(model["_hyp_ok"]):
                return f"3-D cell {model['_hyp_ok'].index(False)} does not satisfy the decidable hypotheses (closed surface, planar star-shaped faces, star-shaped about the centre)"
    if "cell_volumes" in b and "err" not in b and case["dim"] >= 2:
        # model side of 'volumes sum to the domain measure' (exact rationals on the binary64 nodes)
        tot = sum(F(x) if isinstance(x, str) else Fraction(x) for x in b["cell_volumes"])
        meas = F(case["measure"])
        if abs(float(tot - meas)) > 1e-9 * float(meas):
            return f"model volumes sum to {float(tot)!r}, domain measure is {float(meas)!r}"
    return _rel_compare(a, b, case)


HYP = {"cells": 0, "cells_hyp_true": 0, "cells_required": 0}


_POS = ("face_centers", "cell_centers")
_VEC = ("face_normals",)


def _num(x):
    return float(F(x)) if isinstance(x, str) else float(x)


def _rel_compare(a, b, case):
    """scale-free comparison: every field relative to its own magnitude (positions: to the largest coordinate),
    times R = 1 + largest coordinate / smallest face size (conditioning of the floating point evaluation)"""
    if set(a) != set(b):
        return f"keys {sorted(a)} vs {sorted(b)}"
    if "err" in a or "err" in b:
        return None if a == b else f"{a} vs {b}"
    if not any(k in b for k in _POS + _VEC):
        return deep_compare(a, b, "")
    dim = case["dim"]
    pos = np.array([[_num(x) for x in p] for p in b["face_centers"]]) if "face_centers" in b else np.zeros((1, 3))
    Lg = float(np.max(np.abs(pos))) if pos.size else 0.0
    if dim == 1:
        hmin = math.sqrt(min(_num(x) for x in b["cell_len2"]))
    elif dim == 2:
        hmin = math.sqrt(min(_num(x) for x in b["face_len2"]))
    else:
        hmin = min(math.sqrt(sum(_num(x) ** 2 for x in n)) for n in b["face_normals"]) ** 0.5
    R = 1.0 + (Lg / hmin if hmin > 0 else 0.0)
    tol = (TOL_MODEL if dim < 3 else 1e-11) * R
    for k in a:
        x, y = a[k], b[k]
        if isinstance(x, bool) or isinstance(y, bool):
            if x != y:
                return f".{k}: {x} vs {y}"
            continue
        if len(x) != len(y):
            return f".{k}: length {len(x)} vs {len(y)}"
        for i, (u, v) in enumerate(zip(x, y)):
            if k in _POS or k in _VEC:
                uu, vv = np.array([_num(t) for t in u]), np.array([_num(t) for t in v])
                ref = max(Lg, float(np.max(np.abs(vv)))) if k in _POS else max(float(np.max(np.abs(uu))), float(np.max(np.abs(vv))))
                if uu.shape != vv.shape or float(np.max(np.abs(uu - vv))) > tol * ref:
                    return f".{k}[{i}]: {uu.tolist()} vs {vv.tolist()} (rel tol {tol:.2e}, ref {ref!r})"
            else:
                uu, vv = _num(u), _num(v)
                if abs(uu - vv) > tol * max(abs(uu), abs(vv)):
                    return f".{k}[{i}]: {uu!r} vs {vv!r} (rel tol {tol:.2e})"
    return None


# ----------------------------------------------------------------------------- oracle
def _inside(poly_edges, pt):
    """even-odd rule on a list of segments ((x0,y0),(x1,y1))"""
    x, y = pt
    c = False
    for (x0, y0), (x1, y1) in poly_edges:
        if (y0 > y) != (y1 > y):
            xi = x0 + (y - y0) * (x1 - x0) / (y1 - y0)
            if xi > x:
                c = not c
    return c


def oracle(case):
    tag = (f"{case['kind']}-dim{case['dim']}" + ("-embedded" if case.get("embedded") else "") + ("-dict" if case.get("origin") else "")
           + ("-scalar" if case.get("scalar_nx") else ""))
    if case["kind"] == "point":
        return _oracle_point(case)
    try:
        g, _ = _geometry(case)
    except Exception as e:
        return {"what": f"compute_geometry of a valid grid raised {type(e).__name__}: {e}", "key": f"raises-{type(e).__name__}:{tag}"}
    dim = g.dim
    V, C, Nf, A, Xf = g.cell_volumes, g.cell_centers, g.face_normals, g.face_areas, g.face_centers
    for name, arr in (("cell_volumes", V), ("cell_centers", C), ("face_normals", Nf), ("face_areas", A), ("face_centers", Xf)):
        if not np.all(np.isfinite(arr)):
            return {"what": f"{name} not finite", "key": f"nonfinite-{name}:{tag}"}
    if V.shape != (g.num_cells,) or C.shape != (3, g.num_cells) or Nf.shape != (3, g.num_faces) or A.shape != (g.num_faces,) or Xf.shape != (3, g.num_faces):
        return {"what": "geometry arrays have wrong shapes", "key": f"shape:{tag}"}
    Lg = float(np.max(np.abs(g.nodes)))  # rounding of positions is relative to the largest coordinate
    # (a) positive volumes summing to the domain measure
    if not np.all(V > 0):
        return {"what": f"non-positive cell volume {float(V.min())!r} in cell {int(V.argmin())}", "key": f"volume-positive:{tag}"}
    meas = float(F(case["measure"]))
    hmin = float(np.min(A)) ** (1.0 / (dim - 1)) if dim > 1 else float(np.min(V))
    Rg = 1.0 + Lg / hmin
    if abs(float(V.sum()) - meas) > TOL_ORACLE * Rg * meas:
        return {"what": f"cell volumes sum to {float(V.sum())!r}, domain measure is {meas!r}", "key": f"volume-sum:{tag}"}
    # (b) |normal| = area
    if case.get("planar", True):
        nn = np.sqrt(np.sum(Nf * Nf, axis=0))
        bad = np.where(np.abs(nn - A) > TOL_ORACLE * A)[0]
        if bad.size:
            f = int(bad[0])
            return {"what": f"|normal|={float(nn[f])!r} but area={float(A[f])!r} at face {f}", "key": f"normal-length:{tag}"}
    o = g.nodes[:, 0].reshape((3, 1))  # a point of the grid's line / plane
    cf = g.cell_faces
    faces, _ = _topology(g)
    for c in range(g.num_cells):
        fi = cf.indices[cf.indptr[c]:cf.indptr[c + 1]]
        sg = cf.data[cf.indptr[c]:cf.indptr[c + 1]].astype(float)
        n, xf = Nf[:, fi] * sg, Xf[:, fi] - o
        scale = float(np.sum(np.sqrt(np.sum(n * n, axis=0))))  # sum of the face areas of the cell
        hc = float(np.max(np.sqrt(np.sum((Xf[:, fi] - C[:, c].reshape((3, 1))) ** 2, axis=0))))  # cell radius
        L = float(np.max(np.sqrt(np.sum(xf * xf, axis=0))))  # distance of the cell from the reference point
        Rc = 1.0 + Lg / hc  # conditioning: positions carry rounding errors relative to Lg, the cell has size hc
        # (c) outward with positive sign
        if case.get("convex", True):
            d = np.sum(n * (Xf[:, fi] - C[:, c].reshape((3, 1))), axis=0)
            if not np.all(d > 0):
                j = int(np.argmin(d))
                return {"what": f"normal of face {int(fi[j])} times sign does not point out of cell {c} (n.(x_f-x_c)*sign={float(d[j])!r})", "key": f"outward:{tag}"}
        elif dim == 2 and not case.get("embedded"):
            edges = [((g.nodes[0, faces[f][0]], g.nodes[1, faces[f][0]]), (g.nodes[0, faces[f][1]], g.nodes[1, faces[f][1]])) for f in fi]
            for j, f in enumerate(fi):
                eps = 1e-6 * A[f]
                u = n[:2, j] / A[f]
                pin = (Xf[0, f] - eps * u[0], Xf[1, f] - eps * u[1])
                pout = (Xf[0, f] + eps * u[0], Xf[1, f] + eps * u[1])
                if not _inside(edges, pin) or _inside(edges, pout):
                    return {"what": f"normal of face {int(f)} times sign does not point out of the (non-convex) cell {c}", "key": f"outward:{tag}"}
        # (d) closed cell
        s0 = np.sum(n, axis=1)
        if np.max(np.abs(s0)) > TOL_ORACLE * Rc * scale:
            return {"what": f"signed sum of face normals of cell {c} is {s0.tolist()}", "key": f"closed-cell:{tag}"}
        if case.get("planar", True):
            # (e) sum sign (x_f . n) = dim V
            xn = np.sum(xf * n, axis=0)
            if abs(float(np.sum(xn)) - dim * V[c]) > TOL_ORACLE * Rc * scale * max(L, hc):
                return {"what": f"cell {c}: sum sign x_f.n = {float(np.sum(xn))!r} but dim*V = {float(dim * V[c])!r}", "key": f"volume-identity:{tag}"}
            # (f) sum sign (x_f . n) x_f = (dim+1) V c
            lhs = np.sum(xn * xf, axis=1)
            rhs = (dim + 1) * V[c] * (C[:, c] - o[:, 0])
            if np.max(np.abs(lhs - rhs)) > TOL_ORACLE * Rc * scale * max(L, hc) ** 2:
                return {"what": f"cell {c}: sum sign (x_f.n) x_f = {lhs.tolist()} but (dim+1) V c = {rhs.tolist()}", "key": f"centroid-identity:{tag}"}
    return None


def _oracle_point(case):
    """0-d grids: unit cell volume, no faces (nothing else for the property to say)"""
    try:
        g, _ = _geometry(case)
    except Exception as e:
        return {"what": f"compute_geometry of a point grid raised {type(e).__name__}: {e}", "key": f"raises-{type(e).__name__}:point"}
    ok = (g.cell_volumes.shape == (1,) and g.cell_volumes[0] == 1.0 and g.face_areas.size == 0 and g.face_normals.shape == (3, 0)
          and np.array_equal(g.cell_centers.ravel(), np.array([float(F(x)) for x in case["p"]])))
    return None if ok else {"what": "point grid geometry is not (volume 1, no faces, centre = the point)", "key": "point-grid"}


# ----------------------------------------------------------------------------- generators
def _grid_nodes(nx, hs):
    """node coordinates (x fastest) of a structured grid with nx cells and spacings hs per direction"""
    dim = len(nx)
    rng_ = [range(n + 1) for n in nx] + [range(1)] * (3 - dim)
    pts = []
    for k in rng_[2]:
        for j in rng_[1]:
            for i in rng_[0]:
                idx = (i, j, k)
                pts.append([hs[d] * idx[d] if d < dim else Fraction(0) for d in range(3)])
    return pts


def _interior_perturb(rng, pts, lo, hi, hmin, dim, amp=Fraction(3, 20), prob=0.7, axes=None):
    out = []
    for i, p in enumerate(pts):
        if all(lo[d] < p[d] < hi[d] for d in range(dim)) and rng.random() < prob:
            d = [Fraction(0)] * 3
            for ax in (range(dim) if axes is None else axes):
                d[ax] = Fraction(rng.randint(-12, 12), 12) * amp * hmin
            if any(d):
                out.append([i, frac(d[0]), frac(d[1]), frac(d[2])])
    return out


def _affine_embed(rng):
    q = _cayley(rng)
    b = [fr(rng, -2, 2) for _ in range(3)]
    return {"m": [[frac(x) for x in row] for row in q], "b": [frac(x) for x in b]}


def _gen_struct(rng, tier, dim):
    big = tier == "thorough"
    kind = rng.choice({1: ["cart", "tensor"], 2: ["cart", "tensor", "stri", "stri"], 3: ["cart", "tensor", "stet"]}[dim])
    mx = {1: 7, 2: 4 if not big else 6, 3: 2 if not big else 3}[dim]
    nx = [rng.randint(1, mx) for _ in range(dim)]
    if dim == 3:
        while True:
            nx = [rng.choice([1, 2, 2, 3]) for _ in range(3)]
            if nx[0] * nx[1] * nx[2] <= (12 if not big else 27):
                break
    if kind == "stet":
        nx = [rng.randint(1, 2) for _ in range(3)]
    case = {"kind": kind, "dim": dim, "planar": True}
    if kind == "tensor":
        coords = []
        graded = rng.random() < 0.4
        for d in range(dim):
            x = fr(rng, -2, 2)
            c = [x]
            if graded:
                # cell sizes spread over orders of magnitude: at least one of order 1 and one tiny (dyadic, exact in binary64)
                nx[d] = max(nx[d], 2)
                es = [rng.randint(0, 12) for _ in range(nx[d])]
                es[rng.randrange(nx[d])] = 0
                j = rng.randrange(nx[d])
                if es[j] == 0 and es.count(0) == 1:
                    j = (j + 1) % nx[d]
                es[j] = rng.randint(8, 12)
                incs = [Fraction(rng.randint(1, 8), 2 ** e) for e in es]
            else:
                incs = [Fraction(rng.randint(2, 12), 8) for _ in range(nx[d])]
            for h in incs:
                x += h
                c.append(x)
            coords.append(c)
        if graded:
            case["graded"] = True
        case["coords"] = [[frac(x) for x in c] for c in coords]
        meas = Fraction(1)
        for c in coords:
            meas *= c[-1] - c[0]
        hmin = min(b - a for c in coords for a, b in zip(c, c[1:]))
        pts = []
        cc = coords + [[Fraction(0)]] * (3 - dim)
        for z in cc[2]:
            for y in cc[1]:
                for x in cc[0]:
                    pts.append([x, y, z])
        lo = [c[0] for c in coords]
        hi = [c[-1] for c in coords]
    else:
        phys = [Fraction(rng.randint(2, 24), rng.choice([2, 3, 4, 8])) for _ in range(dim)]
        if rng.random() < 0.2:
            phys = [Fraction(n) for n in nx]
        case["nx"] = nx
        case["phys"] = [frac(p) for p in phys]
        meas = Fraction(1)
        for p in phys:
            meas *= p
        hs = [p / n for p, n in zip(phys, nx)]
        hmin = min(hs)
        pts = _grid_nodes(nx, hs)
        lo = [Fraction(0)] * dim
        hi = phys
    # modifications
    if dim >= 2 and rng.random() < 0.6:
        if dim == 3 and kind != "stet":
            if rng.random() < 0.6:
                case["perturb"] = _interior_perturb(rng, pts, lo, hi, hmin, dim, amp=Fraction(1, 10))
                case["planar"] = not case["perturb"]
        else:
            case["perturb"] = _interior_perturb(rng, pts, lo, hi, hmin, dim)
    if rng.random() < 0.4:
        m = _inplane_map(rng, dim, allow_reflection=(dim <= 2))
        b = [fr(rng, -2, 2) if d < dim else Fraction(0) for d in range(3)]
        case["affine"] = {"m": [[frac(x) for x in row] for row in m], "b": [frac(x) for x in b]}
        meas *= abs(_det3(m))
    elif dim < 3 and rng.random() < 0.35:
        case["affine"] = _affine_embed(rng)
        case["embedded"] = True
    elif dim == 1 and rng.random() < 0.5:
        # axis-aligned line along y or z (exact model), possibly reversed
        ax = rng.choice([1, 2])
        sgn = rng.choice([1, -1])
        m = [[Fraction(0)] * 3 for _ in range(3)]
        m[ax][0] = Fraction(sgn)
        m[0][ax] = Fraction(1)
        m[3 - ax][3 - ax] = Fraction(1)
        case["affine"] = {"m": [[frac(x) for x in row] for row in m], "b": [frac(fr(rng, -2, 2)) for _ in range(3)]}
    case["measure"] = frac(meas)
    return case, pts


def _num_faces_struct(case):
    k, dim = case["kind"], case["dim"]
    n = case["nx"] if "nx" in case else [len(c) - 1 for c in case["coords"]]
    if k in ("cart", "tensor"):
        if dim == 1:
            return n[0] + 1
        if dim == 2:
            return (n[0] + 1) * n[1] + n[0] * (n[1] + 1)
        return (n[0] + 1) * n[1] * n[2] + n[0] * (n[1] + 1) * n[2] + n[0] * n[1] * (n[2] + 1)
    return None


def _gen_tri(rng, tier):
    """TriangleGrid from explicit points: structured pattern with chosen cell orientation, or Delaunay"""
    import scipy.spatial
    if rng.random() < 0.5:
        nx, ny = rng.randint(1, 3), rng.randint(1, 3)
        hx, hy = Fraction(rng.randint(2, 8), 4), Fraction(rng.randint(2, 8), 4)
        pts = _grid_nodes([nx, ny], [hx, hy])
        pert = {i: (Fraction(rng.randint(-12, 12), 80) * min(hx, hy), Fraction(rng.randint(-12, 12), 80) * min(hx, hy))
                for i, p in enumerate(pts) if 0 < p[0] < nx * hx and 0 < p[1] < ny * hy and rng.random() < 0.7}
        p = [[pt[0] + pert.get(i, (0, 0))[0], pt[1] + pert.get(i, (0, 0))[1]] for i, pt in enumerate(pts)]
        tri = []
        mode = rng.choice(["ccw", "cw", "mixed", "half"])
        for j in range(ny):
            for i in range(nx):
                a = i + (nx + 1) * j
                b, c, d = a + 1, a + nx + 2, a + nx + 1
                for t, second in (([a, b, c], False), ([a, c, d], True)):
                    r = rng.randrange(3)
                    t = t[r:] + t[:r]
                    if mode == "cw" or (mode == "mixed" and rng.random() < 0.4) or (mode == "half" and second):
                        t = [t[0], t[2], t[1]]
                    tri.append(t)
        meas = nx * hx * ny * hy
        convex = True
        expect = True if mode in ("ccw", "cw") else None
    else:
        expect = None
        n = rng.randint(4, 9 if tier == "quick" else 14)
        while True:
            p = [[Fraction(rng.randint(-40, 40), 16) + Fraction(rng.randint(-9, 9), 1000), Fraction(rng.randint(-40, 40), 16) + Fraction(rng.randint(-9, 9), 1000)] for _ in range(n)]
            arr = np.array([[float(x) for x in q] for q in p])
            try:
                dl = scipy.spatial.Delaunay(arr)
            except Exception:
                continue
            s = dl.simplices
            ar = [abs((arr[t[1], 0] - arr[t[0], 0]) * (arr[t[2], 1] - arr[t[0], 1]) - (arr[t[1], 1] - arr[t[0], 1]) * (arr[t[2], 0] - arr[t[0], 0])) / 2 for t in s]
            if len(ar) and min(ar) > 2e-2 and len(set(int(i) for t in s for i in t)) == n:
                break
        tri = None
        meas = _hull_area(p)
        convex = True
    case = {"kind": "tri", "dim": 2, "p": [[frac(x) for x in q] for q in p], "tri": tri, "measure": frac(meas), "planar": True, "convex": convex}
    r = rng.random()
    if r < 0.3:
        m = _inplane_map(rng, 2, True)
        case["affine"] = {"m": [[frac(x) for x in row] for row in m], "b": [frac(fr(rng, -2, 2)), frac(fr(rng, -2, 2)), "0"]}
        case["measure"] = frac(meas * abs(_det3(m)))
    elif r < 0.5:
        case["affine"] = _affine_embed(rng)
        case["embedded"] = True
    if expect is not None:
        case["expect_oriented"] = expect
    return case


def _hull_area(p):
    pts = sorted(set((q[0], q[1]) for q in p))
    cr = lambda o, a, b: (a[0] - o[0]) * (b[1] - o[1]) - (a[1] - o[1]) * (b[0] - o[0])
    lo, up = [], []
    for q in pts:
        while len(lo) >= 2 and cr(lo[-2], lo[-1], q) <= 0:
            lo.pop()
        lo.append(q)
    for q in reversed(pts):
        while len(up) >= 2 and cr(up[-2], up[-1], q) <= 0:
            up.pop()
        up.append(q)
    h = lo[:-1] + up[:-1]
    return abs(sum(h[i][0] * h[(i + 1) % len(h)][1] - h[(i + 1) % len(h)][0] * h[i][1] for i in range(len(h)))) / 2


def _gen_tet(rng, tier):
    import scipy.spatial
    n = rng.randint(5, 8 if tier == "quick" else 11)
    while True:
        p = [[Fraction(rng.randint(-24, 24), 8) + Fraction(rng.randint(-9, 9), 500) for _ in range(3)] for _ in range(n)]
        arr = np.array([[float(x) for x in q] for q in p])
        try:
            dl = scipy.spatial.Delaunay(arr)
            hull = scipy.spatial.ConvexHull(arr)
        except Exception:
            continue
        vols = [abs(np.linalg.det(arr[t[1:]] - arr[t[0]])) / 6 for t in dl.simplices]
        if min(vols) > 5e-2 and len(set(int(i) for t in dl.simplices for i in t)) == n:
            break
    # exact hull volume from the hull facets (fan about the first point, orientation from the float equations)
    pf = [[Fraction(x) for x in q] for q in p]
    cen = [sum(q[d] for q in pf) / n for d in range(3)]
    vol = Fraction(0)
    for s in hull.simplices:
        a, b, c = (pf[i] for i in s)
        u = [a[d] - cen[d] for d in range(3)]
        v = [b[d] - cen[d] for d in range(3)]
        w = [c[d] - cen[d] for d in range(3)]
        vol += abs(_det3([u, v, w])) / 6
    return {"kind": "tet", "dim": 3, "p": [[frac(x) for x in q] for q in p], "measure": frac(vol), "planar": True}


def _gen_polygon(rng, tier):
    """single-cell polygon grids (generic pp.Grid)"""
    convex = rng.random() < 0.5
    k = rng.randint(3, 9)
    if convex:
        # points on the unit circle by the rational parametrisation, mapped by an affine map (ellipse => convex)
        ts = sorted(set(Fraction(rng.randint(-30, 30), 10) for _ in range(k + 2)))
        pts = [((1 - t * t) / (1 + t * t), 2 * t / (1 + t * t)) for t in ts]  # increasing angle in (-pi, pi)
        if len(pts) < 3:
            pts = [(Fraction(1), Fraction(0)), (Fraction(0), Fraction(1)), (Fraction(-1), Fraction(0))]
    else:
        # star-shaped about the origin: directions of strictly increasing angle, random radii
        dirs = [(4, 0), (4, 1), (4, 3), (3, 4), (1, 4), (0, 4), (-1, 4), (-3, 4), (-4, 3), (-4, 1), (-4, 0), (-4, -1), (-4, -3), (-3, -4), (-1, -4),
                (0, -4), (1, -4), (3, -4), (4, -3), (4, -1)]
        while True:
            sel = sorted(rng.sample(range(len(dirs)), min(len(dirs), k + 2)))
            gaps = [(sel[(i + 1) % len(sel)] - sel[i]) % len(dirs) for i in range(len(sel))]
            if max(gaps) < len(dirs) // 2 - 1:
                break
        pts = []
        for i in sel:
            r = Fraction(rng.randint(3, 12), 16)
            pts.append((dirs[i][0] * r, dirs[i][1] * r))
    area2 = sum(pts[i][0] * pts[(i + 1) % len(pts)][1] - pts[(i + 1) % len(pts)][0] * pts[i][1] for i in range(len(pts)))
    assert area2 > 0
    n = len(pts)
    order = list(range(n))
    if rng.random() < 0.4:  # clockwise loop
        order = order[::-1]
    faces, cell = [], []
    legacy = convex and rng.random() < 0.35  # signs unrelated to the face direction: legacy path
    s0 = []
    for i in range(n):
        a, b = order[i], order[(i + 1) % n]
        s = 1
        if rng.random() < 0.5:
            a, b, s = b, a, -1
        s0.append(s)
        if legacy:
            s = rng.choice([1, -1])
        faces.append([a, b])
        cell.append([i, s])
    if legacy and (all(c[1] == t for c, t in zip(cell, s0)) or all(c[1] == -t for c, t in zip(cell, s0))):
        legacy = False  # the random signs happen to form consistent loops
    perm = list(range(n))
    rng.shuffle(perm)  # storage order of the faces
    faces2 = [faces[i] for i in perm]
    cell2 = [[perm.index(f), s] for f, s in cell]
    rng.shuffle(cell2)
    case = {"kind": "generic", "dim": 2, "nodes": [[frac(x), frac(y), "0"] for x, y in pts], "faces": faces2, "cells": [cell2],
            "measure": frac(area2 / 2), "planar": True, "convex": convex}
    r = rng.random()
    if r < 0.35:
        m = _inplane_map(rng, 2, True)
        case["affine"] = {"m": [[frac(x) for x in row] for row in m], "b": [frac(fr(rng, -2, 2)), frac(fr(rng, -2, 2)), "0"]}
        case["measure"] = frac(area2 / 2 * abs(_det3(m)))
    elif r < 0.5:
        case["affine"] = _affine_embed(rng)
        case["embedded"] = True
    case["expect_oriented"] = not legacy
    return case


def _gen_merged(rng, tier):
    """Cartesian topology with random groups of cells merged into one polygonal cell (L-shapes, hanging nodes, holes)"""
    nx, ny = rng.randint(2, 4), rng.randint(2, 4)
    hx, hy = Fraction(rng.randint(2, 8), 4), Fraction(rng.randint(2, 8), 4)
    pts = _grid_nodes([nx, ny], [hx, hy])
    node = lambda i, j: i + (nx + 1) * j
    faces, cells = [], []
    fx = {}
    for j in range(ny):
        for i in range(nx + 1):
            fx[(i, j)] = len(faces)
            faces.append([node(i, j), node(i, j + 1)])
    fy = {}
    for j in range(ny + 1):
        for i in range(nx):
            fy[(i, j)] = len(faces)
            faces.append([node(i + 1, j), node(i, j)])
    for j in range(ny):
        for i in range(nx):
            cells.append([[fx[(i, j)], -1], [fx[(i + 1, j)], 1], [fy[(i, j)], -1], [fy[(i, j + 1)], 1]])
    # union-find merge
    par = list(range(nx * ny))

    def find(a):
        while par[a] != a:
            par[a] = par[par[a]]
            a = par[a]
        return a
    for _ in range(rng.randint(1, nx * ny // 2 + 1)):
        i, j = rng.randrange(nx), rng.randrange(ny)
        if rng.random() < 0.5 and i + 1 < nx:
            a, b = i + nx * j, i + 1 + nx * j
        elif j + 1 < ny:
            a, b = i + nx * j, i + nx * (j + 1)
        else:
            continue
        par[find(a)] = find(b)
    groups = {}
    for c in range(nx * ny):
        groups.setdefault(find(c), []).append(c)
    newcells = []
    for grp in groups.values():
        cnt = {}
        for c in grp:
            for f, s in cells[c]:
                cnt.setdefault(f, []).append(s)
        newcells.append([[f, ss[0]] for f, ss in cnt.items() if len(ss) == 1])
    used = sorted(set(f for c in newcells for f, _ in c))
    ren = {f: k for k, f in enumerate(used)}
    faces2 = [faces[f] for f in used]
    cells2 = [[[ren[f], s] for f, s in c] for c in newcells]
    for c in cells2:
        rng.shuffle(c)
    case = {"kind": "generic", "dim": 2, "nodes": [[frac(p[0]), frac(p[1]), "0"] for p in pts], "faces": faces2, "cells": cells2,
            "measure": frac(nx * hx * ny * hy), "planar": True, "convex": False, "expect_oriented": True}
    if rng.random() < 0.6:
        case["perturb"] = _interior_perturb(rng, pts, [0, 0], [nx * hx, ny * hy], min(hx, hy), 2, amp=Fraction(1, 10))
    nf = len(faces2)
    if rng.random() < 0.5:
        case["flip_faces"] = sorted(rng.sample(range(nf), rng.randint(1, max(1, nf // 3))))
    r = rng.random()
    if r < 0.3:
        m = _inplane_map(rng, 2, True)
        case["affine"] = {"m": [[frac(x) for x in row] for row in m], "b": [frac(fr(rng, -2, 2)), frac(fr(rng, -2, 2)), "0"]}
        case["measure"] = frac(F(case["measure"]) * abs(_det3(m)))
    return case


def _gen_prism(rng, tier):
    """stack of prisms over a convex polygon (generic 3-D pp.Grid with polygonal faces)"""
    k = rng.randint(3, 7)
    ts = sorted(set(Fraction(rng.randint(-30, 30), 10) for _ in range(k + 2)))
    while len(ts) < 3:
        ts = sorted(set(Fraction(rng.randint(-30, 30), 10) for _ in range(k + 2)))
    base = [((1 - t * t) / (1 + t * t), 2 * t / (1 + t * t)) for t in ts]
    n = len(base)
    area = sum(base[i][0] * base[(i + 1) % n][1] - base[(i + 1) % n][0] * base[i][1] for i in range(n)) / 2
    layers = rng.randint(1, 3)
    zs = [Fraction(0)]
    for _ in range(layers):
        zs.append(zs[-1] + Fraction(rng.randint(2, 8), 4))
    nodes = [[x, y, z] for z in zs for x, y in base]
    faces, cells = [], []
    hor = []
    for l in range(layers + 1):
        hor.append(len(faces))
        faces.append([l * n + i for i in range(n)])  # counter-clockwise seen from above: normal +z
    for l in range(layers):
        c = [[hor[l], -1], [hor[l + 1], 1]]
        for i in range(n):
            a, b = l * n + i, l * n + (i + 1) % n
            c.append([len(faces), 1])
            faces.append([a, b, b + n, a + n])  # outward normal
        cells.append(c)
    case = {"kind": "generic", "dim": 3, "nodes": [[frac(x) for x in p] for p in nodes], "faces": faces, "cells": cells,
            "measure": frac(area * (zs[-1] - zs[0])), "planar": True}
    if rng.random() < 0.5:
        case["flip_faces"] = sorted(rng.sample(range(len(faces)), rng.randint(1, max(1, len(faces) // 3))))
    if rng.random() < 0.5:
        m = _inplane_map(rng, 3, False)
        case["affine"] = {"m": [[frac(x) for x in row] for row in m], "b": [frac(fr(rng, -2, 2)) for _ in range(3)]}
        case["measure"] = frac(F(case["measure"]) * abs(_det3(m)))
    return case


def _gen_islands(rng, tier):
    """disjoint convex polygons with independent loop orientation (orientation checks 2/3 and 3/3);
    sometimes the second one is the mirror image of the first, so that the plane normal sums to zero"""
    mirror = rng.random() < 0.4
    k = 2 if mirror else rng.choice([2, 2, 3])
    nodes, faces, cells = [], [], []
    area = Fraction(0)
    first = None
    for i in range(k):
        if i == 1 and mirror:
            pts = [(-x, y) for x, y in first]
        elif i == 0 and mirror:
            # dyadic convex polygon: binary64 arithmetic is exact, the plane normal cancels to exactly zero
            ring = [(8, 0), (7, 4), (4, 7), (0, 8), (-4, 7), (-7, 4), (-8, 0), (-7, -4), (-4, -7), (0, -8), (4, -7), (7, -4)]
            sel = sorted(rng.sample(range(len(ring)), rng.randint(3, 7)))
            while max((sel[(j + 1) % len(sel)] - sel[j]) % len(ring) for j in range(len(sel))) >= len(ring) // 2:
                sel = sorted(rng.sample(range(len(ring)), rng.randint(3, 7)))
            r = Fraction(rng.choice([1, 2, 3]), 16)
            pts = [(ring[j][0] * r, ring[j][1] * r) for j in sel]
            if rng.random() < 0.5:
                pts = pts[::-1]
        else:
            ts = sorted(set(Fraction(rng.randint(-30, 30), 10) for _ in range(rng.randint(3, 6))))
            while len(ts) < 3:
                ts = sorted(set(Fraction(rng.randint(-30, 30), 10) for _ in range(5)))
            r = Fraction(rng.randint(4, 8), 8)
            pts = [(r * (1 - t * t) / (1 + t * t), r * 2 * t / (1 + t * t)) for t in ts]
            if rng.random() < 0.5:
                pts = pts[::-1]
        if first is None:
            first = pts
        n = len(pts)
        area += abs(sum(pts[j][0] * pts[(j + 1) % n][1] - pts[(j + 1) % n][0] * pts[j][1] for j in range(n))) / 2
        base = len(nodes)
        nodes += [[frac(x + 3 * i), frac(y), "0"] for x, y in pts]
        cell = []
        for j in range(n):
            a, b, sg = base + j, base + (j + 1) % n, 1
            if rng.random() < 0.5:
                a, b, sg = b, a, -1
            cell.append([len(faces), sg])
            faces.append([a, b])
        cells.append(cell)
    case = {"kind": "generic", "dim": 2, "nodes": nodes, "faces": faces, "cells": cells, "measure": frac(area), "planar": True, "convex": True,
            "islands": True}
    if mirror:
        case["expect_oriented"] = False
    if rng.random() < 0.3 and not mirror:
        case["affine"] = _affine_embed(rng)
        case["embedded"] = True
    return case


def gen_case(rng, tier):
    if rng.random() < 0.04:  # 0-d stratum: PointGrid (_compute_geometry_0d)
        return {"kind": "point", "dim": 0, "p": [frac(fr(rng, -2, 2)) for _ in range(3)], "measure": "1", "planar": True}
    case = _gen_case(rng, tier)
    # entry-point strata
    if case["kind"] == "cart":
        if rng.random() < 0.3:
            case["origin"] = [frac(fr(rng, -2, 2)) for _ in case["nx"]]  # physdims given as a dictionary
        if case["dim"] == 1 and rng.random() < 0.3:
            case["scalar_nx"] = True  # CartGrid(n, ...)
        if case["dim"] == 1 and case.get("origin"):
            # this entry point is a known finding: keep the case free of other modifications
            case = {k: case[k] for k in ("kind", "dim", "nx", "phys", "origin", "planar", "scalar_nx") if k in case}
            case["measure"] = case["phys"][0]
            return case
    if rng.random() < 0.15:
        case["repeat"] = rng.choice(["twice", "copy"])
    if rng.random() < 0.15 and not (case["kind"] == "cart" and case["dim"] == 1 and case.get("origin")):
        try:
            nc = _build(case).num_cells
            order = list(range(nc))
            rng.shuffle(order)
            case["perm_cells"] = [[i, rng.randrange(4)] for i in order]
        except Exception:
            pass
    if rng.random() < 0.55:
        # geometric scale: all coordinates times a power of two (exact), measure scales with 2^(k dim)
        k = rng.choice([-20, -20, -16, -12, -10, -7, -3, 3, 7, 10, 14, 20]) if rng.random() < 0.8 else rng.randint(-20, 20)
        if k:
            case["scale"] = k
            case["measure"] = frac(F(case["measure"]) * Fraction(2) ** (k * case["dim"]))
    return case


def _gen_case(rng, tier):
    r = rng.random()
    if r < 0.12:
        case, _ = _gen_struct(rng, tier, 1)
        nf = _num_faces_struct(case)
        if rng.random() < 0.5:
            case["flip_faces"] = sorted(rng.sample(range(nf), rng.randint(1, nf)))
    elif r < 0.40:
        case, _ = _gen_struct(rng, tier, 2)
        nf = _num_faces_struct(case)
        if nf is not None:
            q = rng.random()
            if q < 0.3:
                case["flip_faces"] = sorted(rng.sample(range(nf), rng.randint(1, max(1, nf // 3))))
            elif q < 0.55:  # sign-only flips of boundary-or-interior rows: loops break, legacy path, cells stay convex
                case["flip_signs"] = sorted(rng.sample(range(nf), rng.randint(1, max(1, nf // 4))))
        case["expect_oriented"] = not case.get("flip_signs")
    elif r < 0.52:
        case = _gen_tri(rng, tier)
    elif r < 0.60:
        case = _gen_polygon(rng, tier)
    elif r < 0.64:
        case = _gen_islands(rng, tier)
    elif r < 0.72:
        case = _gen_merged(rng, tier)
    elif r < 0.88:
        case, _ = _gen_struct(rng, tier, 3)
        nf = _num_faces_struct(case)
        if nf is not None and rng.random() < 0.3:
            case["flip_faces"] = sorted(rng.sample(range(nf), rng.randint(1, max(1, nf // 4))))
    elif r < 0.94:
        case = _gen_tet(rng, tier)
    else:
        case = _gen_prism(rng, tier)
    return case


def nontrivial(case):
    if case["kind"] == "point":
        return False
    if case["kind"] == "cart" and not any(case.get(k) for k in ("perturb", "affine", "flip_faces", "flip_signs")):
        return case["phys"] != [str(n) for n in case["nx"]]
    return True


def shrink_candidates(case):
    for k in ("repeat", "perm_cells", "scalar_nx"):
        if case.get(k):
            c = dict(case)
            del c[k]
            yield c
    if case.get("scale"):
        c = dict(case)
        c["measure"] = frac(F(case["measure"]) / Fraction(2) ** (case["scale"] * case["dim"]))
        del c["scale"]
        yield c
    for k in ("perturb", "flip_faces", "flip_signs"):
        v = case.get(k)
        if v:
            for i in range(len(v)):
                yield dict(case, **{k: v[:i] + v[i + 1:]})
    if case.get("affine") and not case.get("embedded"):
        c = dict(case)
        m = [[F(x) for x in row] for row in case["affine"]["m"]]
        c["measure"] = frac(F(case["measure"]) / abs(_det3(m)))
        del c["affine"]
        yield c
    if case.get("embedded"):
        c = dict(case)
        del c["affine"]
        del c["embedded"]
        yield c
    if "nx" in case and not case.get("perturb") and not case.get("flip_faces") and not case.get("flip_signs"):
        for d in range(len(case["nx"])):
            if case["nx"][d] > 1:
                nx = list(case["nx"])
                nx[d] -= 1
                yield dict(case, nx=nx)


def stats(cases, impl_outs):
    kinds, dims = {}, {}
    for c in cases:
        kinds[c["kind"]] = kinds.get(c["kind"], 0) + 1
        dims[str(c["dim"])] = dims.get(str(c["dim"]), 0) + 1
    return {"kinds": kinds, "dims": dims,
            "perturbed": sum(1 for c in cases if c.get("perturb")), "affine": sum(1 for c in cases if c.get("affine") and not c.get("embedded")),
            "embedded_via_rigid_motion": sum(1 for c in cases if c.get("embedded")), "reoriented_faces": sum(1 for c in cases if c.get("flip_faces")),
            "sign_only_flips": sum(1 for c in cases if c.get("flip_signs")), "nonplanar_3d": sum(1 for c in cases if not c.get("planar", True)),
            "nonconvex_cells": sum(1 for c in cases if not c.get("convex", True)), "islands": sum(1 for c in cases if c.get("islands")),
            "scaled": {str(k): sum(1 for c in cases if c.get("scale", 0) == k) for k in sorted(set(c.get("scale", 0) for c in cases))},
            "graded_tensor": sum(1 for c in cases if c.get("graded")),
            "entry_dict_physdims": sum(1 for c in cases if c.get("origin")), "entry_scalar_nx": sum(1 for c in cases if c.get("scalar_nx")),
            "entry_copy_then_compute": sum(1 for c in cases if c.get("repeat") == "copy"),
            "compute_geometry_twice": sum(1 for c in cases if c.get("repeat") == "twice"),
            "permuted_cell_and_face_order": sum(1 for c in cases if c.get("perm_cells")), "point_grids_0d": sum(1 for c in cases if c["kind"] == "point"),
            "single_cell_grids": sum(1 for o in impl_outs if isinstance(o, dict) and len(o.get("cell_volumes", o.get("cell_len2", []))) == 1),
            "cells_3d_decidable_hypotheses": dict(HYP),
            "legacy_path_2d": sum(1 for o in impl_outs if isinstance(o, dict) and o.get("oriented") is False),
            "oriented_path_2d": sum(1 for o in impl_outs if isinstance(o, dict) and o.get("oriented") is True),
            "impl_errors": sum(1 for o in impl_outs if isinstance(o, dict) and "err" in o)}


