"""C29 split_intersecting_segments_2d yields a non-crossing covering subdivision (edges, parents, tags)."""
from fractions import Fraction

import numpy as np

from harness.common import frac, err_kind

PID = "C29"
THEOREMS = [
    "PorepyVerif.C29.split_cover",
    "PorepyVerif.C29.split_inside_parent_with_tags",
    "PorepyVerif.C29.split_nodup",
    "PorepyVerif.C29.split_noncrossing",
    "PorepyVerif.C29.split_tag_info",
    "PorepyVerif.C29.split_parent_is_first",
    "PorepyVerif.C29.split_tag_info_complete",
    "PorepyVerif.C29.split_union_eq",
    "PorepyVerif.C29.split_no_intersection",
    "PorepyVerif.C29.inter_sound",
    "PorepyVerif.C29.inter_complete",
    "PorepyVerif.C29.prefilter_sound",
    "PorepyVerif.C29.prefilter_pairs_complete",
    "PorepyVerif.C29.side_prefilter_sound",
]
LEAN_MODULES = ["PorepyVerif.C29.Props"]
AUDIT = "PorepyVerif/C29/Audit.lean"
DRIVER = "PorepyVerif/C29/Driver.lean"
N = {"quick": 300, "thorough": 4000}
TOL = 1e-8
RULE = ("sets of 1-8 segments (thorough: up to 12) with integer end points in a box |x| <= B, B in {2,3,4,6,10} (small boxes make "
        "coincidences frequent; collinear extensions reach |x| <= 14, isolated segments sit at |x| about 30-100), given as a point table (points may be shared by index or repeated under different indices) plus "
        "edges with 0, 1 or 2 tag rows; built on purpose: proper crossings with fractional intersection points, several lines through "
        "one fractional point, T-junctions, shared end points, collinear overlaps / containment / touching / chains of collinear pieces, "
        "exact and reversed duplicates with different tags, parallel non-collinear pairs, isolated far-away segments, axis-aligned segments; "
        "strata (reported in stats): mix 40%, network 25%, grid 10% (axis-aligned lattice, zero-width boxes, many segments through one lattice point), one-line 10% (all segments on one line), fan 10% (3-6 segments with a common end point under different point indices), tiny 5% (1-2 segments, unused points). networks: a polyline, star or closed polygon of 3-5 legs given with SHARED low point indices (optionally after unused leading points), one or two legs properly crossed by 3-8 short segments (some chained through shared indices), the other legs untouched, plus extra segments between existing low-index points; parent order shuffled or base first. "
        "no zero-length segments. non-trivial = at least one pair of input segments has a common point; distinct = distinct (points, edges)")
TRUSTED = [
    "modelled, not verified: binary64 rounding in segments_2d and the tolerance-based point merging of uniquify_point_set (the model "
    "deduplicates exact rational points; for the generated integer inputs distinct candidate points differ by > 4e-7 >> tol = 1e-8, "
    "so the two agree; output points are matched to the model's rationals within 1e-9)",
    "the sweep in _identify_overlapping_rectangles is modelled by its specification boxPairs (all pairs i<j with overlapping closed boxes), compared exactly with the real sweep on every case; the sweep algorithm itself (sorting, active list) is not verified. not modelled: the tol-widening of zero-width boxes and the normalised cross-product side prefilter (np.sqrt, nan handling); "
    "theorems prefilter_sound / side_prefilter_sound show that the exact versions of both tests only discard pairs without a common point, "
    "the oracle checks the sweep against brute force and the final result against the property, so a prefilter that drops a true intersection is detected",
    "numpy glue: np.unique(axis=1, return_index, return_inverse) returns first occurrences; np.argsort on distinct squared distances",
]
EXPLANATION = ("CORE: the model is the algorithm without the two prefilters over exact rationals: split points of a segment = its end points and "
               "the exact intersection points / overlap end points with every segment, deduplicated, sorted by squared distance from the start, "
               "consecutive pairs = pieces; pieces of all parents in order, deduplicated as unordered pairs keeping the first parent and its tags. "
               "Theorems (all inputs with non-degenerate segments): cover, inside-parent-with-tags, no duplicates, and the FULL non-crossing statement "
               "(non-parallel, parallel and collinear/overlapping parents). Correspondence compares the set of (edge, parent, tags) and the ordered "
               "tag_info list; the oracle checks the property on the real function with exact rationals recovered from the float output.")
ASSUMPTIONS = ["edges are read geometrically (unordered pairs of point coordinates); the numbering of output points is outside the property: when two segments only share their start point under two different point indices and nothing else intersects, the side prefilter skips the pair and the early-return branch returns the coincident points unmerged (edges still meet only at that common end point)",
               "every input segment has positive length (zero-length segments make segments_2d raise or pass through, depending on the prefilter)",
               "integer coordinates, |x| <= 14 for every segment that meets another one, tol = 1e-8: distinct candidate points differ by > 4e-7 and every non-zero determinant by >= 1, orders of magnitude above the tolerances"]


# ----------------------------------------------------------------------------- generator
def _gcd(a, b):
    while b:
        a, b = b, a % b
    return abs(a)


def _rand_pt(rng, B):
    return (rng.randint(-B, B), rng.randint(-B, B))


def _rand_seg(rng, B):
    while True:
        a, b = _rand_pt(rng, B), _rand_pt(rng, B)
        if a != b:
            return (a, b)


def _lattice_points(a, b):
    dx, dy = b[0] - a[0], b[1] - a[1]
    g = _gcd(dx, dy)
    return [(a[0] + k * dx // g, a[1] + k * dy // g) for k in range(g + 1)]


def _inside(p, B):
    return abs(p[0]) <= B and abs(p[1]) <= B


def _proper_cross(a, b, c, d):
    o1, o2 = _sgn(_cross(a, b, c)), _sgn(_cross(a, b, d))
    o3, o4 = _sgn(_cross(c, d, a)), _sgn(_cross(c, d, b))
    return o1 * o2 < 0 and o3 * o4 < 0


def _gen_network(rng, tier):
    """Polyline / star / closed polygon given with SHARED low point indices, one or two of its legs crossed by
    3-8 short segments (many new intersection points on one parent), the other legs mostly untouched."""
    B = 10
    shape = rng.choice(["polyline", "polyline", "star", "polygon"])
    k = rng.randint(3, 5)
    while True:
        base = [_rand_pt(rng, B) for _ in range(k + (1 if shape == "star" else 0))]
        if len(set(base)) == len(base):
            break
    pts = [list(_rand_pt(rng, B)) for _ in range(rng.choice([0, 0, 0, 1, 2]))]  # unused leading points shift the indices
    off = len(pts)
    pts += [list(q) for q in base]
    if shape == "polyline":
        legs = [(i, i + 1) for i in range(k - 1)]
    elif shape == "polygon":
        legs = [(i, (i + 1) % k) for i in range(k)]
    else:
        legs = [(0, i) for i in range(1, k + 1)]
    legs = [(a, b) if rng.random() < 0.7 else (b, a) for a, b in legs]
    edges = [[off + a, off + b] for a, b in legs]
    ncrossed = rng.choice([1, 1, 1, 2])
    for li in rng.sample(range(len(legs)), min(ncrossed, len(legs))):
        a, b = base[legs[li][0]], base[legs[li][1]]
        m = rng.randint(3, 8 if tier == "quick" else 10)
        lo = (min(a[0], b[0]) - 2, min(a[1], b[1]) - 2)
        hi = (max(a[0], b[0]) + 2, max(a[1], b[1]) + 2)
        got, guard = 0, 0
        while got < m and guard < 300:
            guard += 1
            c = (rng.randint(lo[0], hi[0]), rng.randint(lo[1], hi[1]))
            if rng.random() < 0.6:  # short crosser
                d = (c[0] + rng.randint(-3, 3), c[1] + rng.randint(-3, 3))
            else:
                d = (rng.randint(lo[0], hi[0]), rng.randint(lo[1], hi[1]))
            if c != d and _proper_cross(a, b, c, d):
                if rng.random() < 0.15 and len(pts) > off + len(base):  # chain: start at an earlier crosser's end point (shared index)
                    j = rng.randrange(off + len(base), len(pts))
                    c2 = tuple(pts[j])
                    if c2 != d and _proper_cross(a, b, c2, d):
                        pts.append(list(d))
                        edges.append([j, len(pts) - 1])
                        got += 1
                        continue
                pts.append(list(c))
                pts.append(list(d))
                edges.append([len(pts) - 2, len(pts) - 1] if rng.random() < 0.5 else [len(pts) - 1, len(pts) - 2])
                got += 1
    for _ in range(rng.choice([0, 0, 1, 2])):  # extra untouched or touching segments between existing low-index points / new points
        if rng.random() < 0.5 and len(base) >= 3:
            i, j = rng.sample(range(len(base)), 2)
            if [off + i, off + j] not in edges and [off + j, off + i] not in edges:
                edges.append([off + i, off + j])
        else:
            a, b = _rand_seg(rng, B)
            pts += [list(a), list(b)]
            edges.append([len(pts) - 2, len(pts) - 1])
    nb = len(legs)
    if rng.random() < 0.5:  # parent order: keep the base first, or shuffle everything
        rng.shuffle(edges)
    else:
        tail = edges[nb:]
        rng.shuffle(tail)
        edges = edges[:nb] + tail
    ntags = rng.choice([0, 1, 1, 1, 2])
    edges = [e + [rng.choice([i + 10, rng.randint(0, 3)]) for _ in range(ntags)] for i, e in enumerate(edges)]
    return {"pts": pts, "edges": edges, "ntags": ntags, "float_input": rng.random() < 0.5}


def _table(rng, segs, share=None, ntags=None, stratum="mix"):
    """Point table + edges for a list of coordinate segments (indices shared with probability `share`)."""
    pts, edges = [], []
    share = rng.random() if share is None else share
    ntags = rng.choice([0, 1, 1, 1, 1, 2]) if ntags is None else ntags
    for i, (a, b) in enumerate(segs):
        idx = []
        for q in (a, b):
            if list(q) in pts and rng.random() < share:
                idx.append(pts.index(list(q)))
            else:
                pts.append(list(q))
                idx.append(len(pts) - 1)
        edges.append(idx + [rng.choice([i + 10, rng.randint(0, 3)]) for _ in range(ntags)])
    return {"pts": pts, "edges": edges, "ntags": ntags, "float_input": rng.random() < 0.5, "stratum": stratum}


def _gen_grid(rng, tier):
    """Axis-aligned lattice: + crossings and T-junctions at integer points, overlapping collinear runs,
    several segments through one lattice point (boxes of zero width/height everywhere)."""
    W = rng.randint(2, 5)
    n = rng.randint(3, 8 if tier == "quick" else 12)
    segs = []
    while len(segs) < n:
        if rng.random() < 0.5:
            y, x0, x1 = rng.randint(0, W), rng.randint(0, W), rng.randint(0, W)
            if x0 != x1:
                segs.append(((x0, y), (x1, y)))
        else:
            x, y0, y1 = rng.randint(0, W), rng.randint(0, W), rng.randint(0, W)
            if y0 != y1:
                segs.append(((x, y0), (x, y1)))
    if rng.random() < 0.3:
        segs.append(((0, 0), (W, W)))  # one diagonal through the lattice points
    return _table(rng, segs, stratum="grid")


def _gen_one_line(rng, tier):
    """All segments on a single line: chains, overlaps, containment, duplicates, gaps."""
    while True:
        u = (rng.randint(-3, 3), rng.randint(-3, 3))
        if u != (0, 0) and _gcd(u[0], u[1]) == 1:
            break
    o = (rng.randint(-2, 2), rng.randint(-2, 2))
    n = rng.randint(2, 7)
    segs = []
    while len(segs) < n:
        k1, k2 = rng.randint(-3, 3), rng.randint(-3, 3)
        if k1 != k2:
            segs.append(((o[0] + k1 * u[0], o[1] + k1 * u[1]), (o[0] + k2 * u[0], o[1] + k2 * u[1])))
    return _table(rng, segs, stratum="one-line")


def _gen_fan(rng, tier):
    """3-6 segments with one common end point given under DIFFERENT point indices (coincident points), the common point
    being start or end at random; sometimes a segment crossing the fan (side-prefilter special paths)."""
    B = 6
    c = _rand_pt(rng, B)
    segs = []
    while len(segs) < rng.randint(3, 6):
        q = _rand_pt(rng, B)
        if q != c:
            segs.append((c, q) if rng.random() < 0.6 else (q, c))
    if rng.random() < 0.4:
        segs.append(_rand_seg(rng, B))
    rng.shuffle(segs)
    return _table(rng, segs, share=rng.choice([0.0, 0.0, 0.5]), stratum="fan")


def _gen_tiny(rng, tier):
    """Size 1 / 2: a single segment, or two segments (disjoint, crossing or equal), optional unused points."""
    B = 3
    segs = [_rand_seg(rng, B)]
    if rng.random() < 0.6:
        segs.append(rng.choice([_rand_seg(rng, B), segs[0], (segs[0][1], segs[0][0])]))
    c = _table(rng, segs, stratum="tiny")
    for _ in range(rng.choice([0, 1, 3])):
        c["pts"].append(list(_rand_pt(rng, B)))
    return c


def gen_case(rng, tier):
    r = rng.random()
    if r < 0.25:
        return dict(_gen_network(rng, tier), stratum="network")
    if r < 0.35:
        return _gen_grid(rng, tier)
    if r < 0.45:
        return _gen_one_line(rng, tier)
    if r < 0.55:
        return _gen_fan(rng, tier)
    if r < 0.60:
        return _gen_tiny(rng, tier)
    B = rng.choice([2, 3, 4, 6, 10])
    nmax = 8 if tier == "quick" else 12
    n = rng.choice([1, 2, 2, 3, 3, 4, 4, 5, 6, 7, nmax])
    segs = []
    guard = 0
    while len(segs) < n and guard < 200:
        guard += 1
        kind = rng.random()
        if not segs or kind < 0.30:
            segs.append(_rand_seg(rng, B))
        elif kind < 0.45:  # T-junction / shared end point: start at a lattice point of an existing segment
            a, b = rng.choice(segs)
            p = rng.choice(_lattice_points(a, b))
            q = _rand_pt(rng, B)
            if q != p:
                segs.append((p, q) if rng.random() < 0.5 else (q, p))
        elif kind < 0.70:  # collinear with an existing segment: overlap, containment, touching, disjoint
            a, b = rng.choice(segs)
            dx, dy = b[0] - a[0], b[1] - a[1]
            g = _gcd(dx, dy)
            ux, uy = dx // g, dy // g
            k1, k2 = rng.randint(-g - 1, 2 * g + 1), rng.randint(-g - 1, 2 * g + 1)
            p, q = (a[0] + k1 * ux, a[1] + k1 * uy), (a[0] + k2 * ux, a[1] + k2 * uy)
            if p != q and _inside(p, B + 4) and _inside(q, B + 4):
                segs.append((p, q))
        elif kind < 0.78:  # duplicate (possibly reversed)
            a, b = rng.choice(segs)
            segs.append((a, b) if rng.random() < 0.5 else (b, a))
        elif kind < 0.86:  # parallel, not collinear
            a, b = rng.choice(segs)
            s = rng.choice([(0, 1), (1, 0), (1, 1), (0, -1), (-1, 0)])
            segs.append(((a[0] + s[0], a[1] + s[1]), (b[0] + s[0], b[1] + s[1])))
        elif kind < 0.90:  # several segments through one (usually fractional) point: point reflections about C = c/2
            c = (rng.randint(-B, B), rng.randint(-B, B))
            for _ in range(rng.randint(2, 3)):
                p = _rand_pt(rng, B)
                q = (c[0] - p[0], c[1] - p[1])
                if p != q and _inside(q, 10) and len(segs) < n:
                    segs.append((p, q))
        elif kind < 0.95:  # crossing through the midpoint region of an existing segment
            a, b = rng.choice(segs)
            dx, dy = b[0] - a[0], b[1] - a[1]
            k = rng.choice([1, 1, 2])
            p = (a[0] + rng.randint(0, 1) * dx - k * dy + rng.randint(-1, 1), a[1] + rng.randint(0, 1) * dy + k * dx)
            q = (a[0] + rng.randint(0, 1) * dx + k * dy, a[1] + rng.randint(0, 1) * dy - k * dx + rng.randint(-1, 1))
            if p != q and _inside(p, 10) and _inside(q, 10):
                segs.append((p, q))
        else:  # isolated, far away
            o = rng.choice([-1, 1]) * (30 + 5 * len(segs))
            a, b = _rand_seg(rng, 2)
            segs.append(((a[0] + o, a[1] + o), (b[0] + o, b[1] + o)))
    rng.shuffle(segs)
    # point table: share indices for equal coordinates with probability, else repeat the point
    pts, edges = [], []
    share = rng.random()
    ntags = rng.choice([0, 1, 1, 1, 1, 2])
    for i, (a, b) in enumerate(segs):
        idx = []
        for p in (a, b):
            if list(p) in pts and rng.random() < share:
                idx.append(pts.index(list(p)))
            else:
                pts.append(list(p))
                idx.append(len(pts) - 1)
        tags = [rng.choice([i + 10, rng.randint(0, 3)]) for _ in range(ntags)]
        edges.append(idx + tags)
    if rng.random() < 0.2:  # an unused point
        pts.append(list(_rand_pt(rng, B)))
    return {"pts": pts, "edges": edges, "ntags": ntags, "float_input": rng.random() < 0.5, "stratum": "mix"}


# ----------------------------------------------------------------------------- real code
def _call(case, argsort=True):
    import porepy as pp

    dt = float if case.get("float_input") else int
    p = np.array(case["pts"], dtype=dt).T.reshape((2, -1))
    e = np.array(case["edges"], dtype=int).T.reshape((2 + case["ntags"], -1))
    p0, e0 = p.copy(), e.copy()
    res = pp.intersections.split_intersecting_segments_2d(p, e, tol=TOL, return_argsort=argsort)
    return res, (p0, e0, p, e)


def _canon(case, res):
    """Geometric canonical form of the returned tuple (float coordinates as exact 'n/d' strings)."""
    ntags = case["ntags"]
    new_pt, new_e, (tags, a2u), argsort = res
    new_pt = np.asarray(new_pt, dtype=float)
    m = new_e.shape[1]
    P = lambda i: [frac(new_pt[0, i]), frac(new_pt[1, i])]
    out = [{"p": P(new_e[0, k]), "q": P(new_e[1, k]), "parent": int(argsort[k]), "tags": [int(t) for t in new_e[2:, k]]} for k in range(m)]
    tags = np.asarray(tags).reshape((ntags, -1)) if ntags else np.zeros((0, len(a2u)), dtype=int)
    pre = [{"p": P(new_e[0, u]), "q": P(new_e[1, u]), "tags": [int(t) for t in tags[:, j]]} for j, u in enumerate(np.asarray(a2u).ravel())]
    return {"edges": out, "pre": pre}


def impl_run(case):
    try:
        res, _ = _call(case)
    except Exception as e:  # noqa: BLE001
        return err_kind(e)
    out = _canon(case, res)
    out["pairs"] = _impl_pairs(case)
    return out


def _impl_pairs(case):
    """Output of the bounding-box sweep on the boxes of the input segments (sorted pairs i < j)."""
    import porepy as pp

    p = np.array(case["pts"], dtype=float).T.reshape((2, -1))
    e = np.array(case["edges"], dtype=int).T.reshape((2 + case["ntags"], -1))
    try:
        x0, x1, y0, y1 = pp.intersections._axis_aligned_bounding_box_2d(p, e)
        pairs = pp.intersections._identify_overlapping_rectangles(x0, x1, y0, y1)
    except Exception as ex:  # noqa: BLE001
        return err_kind(ex)
    return sorted([int(a), int(b)] for a, b in pairs.T) if pairs.size else []


# ----------------------------------------------------------------------------- model side
def model_ops(case):
    segs = []
    for ed in case["edges"]:
        a, b = case["pts"][ed[0]], case["pts"][ed[1]]
        segs.append({"a": [frac(a[0]), frac(a[1])], "b": [frac(b[0]), frac(b[1])], "tags": [int(t) for t in ed[2:]]})
    return [{"op": "split", "segs": segs}]


def model_decode(outs, case):
    return outs[0]


def _F(pt):
    return (Fraction(pt[0]), Fraction(pt[1]))


def compare(impl, model, case):
    if not isinstance(impl, dict) or not isinstance(model, dict):
        return f"impl {impl!r} vs model {model!r}"
    if "err" in impl or "err" in model or "harness_exc" in impl:
        return None if impl == model else f"impl {str(impl)[:300]} vs model {str(model)[:300]}"
    if impl.get("pairs") != sorted(model.get("pairs", [])):
        return f"bounding-box candidate pairs differ: sweep {str(impl.get('pairs'))[:200]} vs model {str(sorted(model.get('pairs', [])))[:200]}"
    if model.get("nointersect"):  # theorem split_no_intersection: the code must return the input edges unchanged, in order
        want = [(_F(case["pts"][ed[0]]), _F(case["pts"][ed[1]]), k, tuple(ed[2:])) for k, ed in enumerate(case["edges"])]
        got = [(_F(e["p"]), _F(e["q"]), e["parent"], tuple(e["tags"])) for e in impl["edges"]]
        if want != got:
            return f"no two input segments intersect, but the returned edges are not the input edges in order: {str(got)[:300]}"
    mpts = set()
    for e in model["edges"] + model["pre"]:
        mpts.add(_F(e["p"]))
        mpts.add(_F(e["q"]))
    mlist = sorted(mpts)

    def snap(pt):  # match an implementation point (float) to the model's rational within 1e-9
        x, y = _F(pt)
        hits = [m for m in mlist if abs(m[0] - x) <= Fraction(1, 10**9) and abs(m[1] - y) <= Fraction(1, 10**9)]
        return hits[0] if len(hits) == 1 else None

    def key_edge(e, snapper):
        p, q = snapper(e["p"]), snapper(e["q"])
        if p is None or q is None:
            return None
        return tuple(sorted([p, q]))

    ie, me = [], []
    for e in impl["edges"]:
        k = key_edge(e, snap)
        if k is None:
            return f"implementation point {e['p']} / {e['q']} matches no model point within 1e-9"
        ie.append((k, e["parent"], tuple(e["tags"])))
    for e in model["edges"]:
        me.append((key_edge(e, _F), e["parent"], tuple(e["tags"])))
    if sorted(ie) != sorted(me):
        d1 = sorted(set(ie) - set(me))[:2]
        d2 = sorted(set(me) - set(ie))[:2]
        return f"edge sets differ: {len(ie)} impl / {len(me)} model edges; only impl: {d1}; only model: {d2}"
    ip, mp = [], []
    for e in impl["pre"]:
        k = key_edge(e, snap)
        if k is None:
            return "tag_info edge matches no model point"
        ip.append((k, tuple(e["tags"])))
    for e in model["pre"]:
        mp.append((key_edge(e, _F), tuple(e["tags"])))
    if len(impl["pre"]) == len(case["edges"]) and len(model["pre"]) != len(case["edges"]):
        return f"tag_info: impl has the trivial mapping ({len(ip)} entries), model has {len(mp)}"
    if ip != mp:
        j = next((i for i, (x, y) in enumerate(zip(ip, mp)) if x != y), min(len(ip), len(mp)))
        return f"tag_info lists differ at position {j}: impl {ip[j:j+1]} model {mp[j:j+1]} (lengths {len(ip)}/{len(mp)})"
    return None


# ----------------------------------------------------------------------------- oracle (exact rationals, independent of the model)
def _cross(o, a, b):
    return (a[0] - o[0]) * (b[1] - o[1]) - (a[1] - o[1]) * (b[0] - o[0])


def _on_seg(a, b, q):
    if _cross(a, b, q) != 0:
        return False
    return min(a[0], b[0]) <= q[0] <= max(a[0], b[0]) and min(a[1], b[1]) <= q[1] <= max(a[1], b[1])


def _sgn(x):
    return (x > 0) - (x < 0)


def _bad_meeting(u, v, w, z):
    """None if the closed segments uv and wz meet at most in common end points, else a description."""
    o1, o2, o3, o4 = _sgn(_cross(u, v, w)), _sgn(_cross(u, v, z)), _sgn(_cross(w, z, u)), _sgn(_cross(w, z, v))
    if o1 * o2 < 0 and o3 * o4 < 0:
        return "cross in their interiors"
    for p, (a, b) in ((w, (u, v)), (z, (u, v)), (u, (w, z)), (v, (w, z))):
        if _on_seg(a, b, p) and p != a and p != b:
            return f"end point ({p[0]},{p[1]}) of one lies in the interior of the other"
    return None


def _param(a, b, q):
    d = (b[0] - a[0], b[1] - a[1])
    return ((q[0] - a[0]) * d[0] + (q[1] - a[1]) * d[1]) / Fraction(d[0] * d[0] + d[1] * d[1])


def _snap_pt(x, y):
    fx, fy = Fraction(float(x)).limit_denominator(2000), Fraction(float(y)).limit_denominator(2000)
    if abs(fx - Fraction(float(x))) > Fraction(1, 10**9) or abs(fy - Fraction(float(y))) > Fraction(1, 10**9):
        return None
    return (fx, fy)


def _s(p):
    return f"({p[0]},{p[1]})"


def oracle(case):
    import porepy as pp

    ntags = case["ntags"]
    try:
        res, (p0, e0, p1, e1) = _call(case)
        res3, _ = _call(case, argsort=False)
    except Exception as e:  # noqa: BLE001
        return {"what": f"split_intersecting_segments_2d raised {type(e).__name__}: {e} on non-degenerate integer segments", "key": f"raises-{type(e).__name__}"}
    if not (np.array_equal(p0, p1) and np.array_equal(e0, e1)):
        return {"what": "the input arrays were modified in place", "key": "input-mutated"}
    new_pt, new_e, (tags, a2u), argsort = res
    if not (len(res3) == 3 and np.array_equal(res3[0], new_pt) and np.array_equal(res3[1], new_e)
            and np.array_equal(res3[2][0], tags) and np.array_equal(res3[2][1], a2u)):
        return {"what": "return_argsort=False returns something different from the first three outputs with return_argsort=True", "key": "argsort-flag-changes-result"}
    new_pt = np.asarray(new_pt, dtype=float)
    m = new_e.shape[1]
    if new_e.shape[0] != 2 + ntags or len(argsort) != m:
        return {"what": f"output shapes: edges {new_e.shape}, argsort {len(argsort)}", "key": "shape"}
    if m and (new_e[:2].min() < 0 or new_e[:2].max() >= new_pt.shape[1]):
        return {"what": "edge refers to a point index out of range", "key": "point-index-range"}
    pts = []
    for i in range(new_pt.shape[1]):
        s = _snap_pt(new_pt[0, i], new_pt[1, i])
        pts.append(s)
    segs = [((Fraction(case["pts"][ed[0]][0]), Fraction(case["pts"][ed[0]][1])), (Fraction(case["pts"][ed[1]][0]), Fraction(case["pts"][ed[1]][1])), tuple(ed[2:])) for ed in case["edges"]]
    n = len(segs)
    edges = []
    for k in range(m):
        u, v = pts[new_e[0, k]], pts[new_e[1, k]]
        if u is None or v is None:
            return {"what": f"output point of edge {k} is not within 1e-9 of a rational with denominator <= 2000", "key": "point-not-rational"}
        edges.append((u, v))
    # (d) no duplicates, no degenerate edges
    seen = {}
    for k, (u, v) in enumerate(edges):
        if u == v:
            return {"what": f"output edge {k} has zero length at {_s(u)}", "key": "zero-length-edge"}
        kk = tuple(sorted([u, v]))
        if kk in seen:
            return {"what": f"output edges {seen[kk]} and {k} are the same segment {_s(u)}-{_s(v)}", "key": "duplicate-edge"}
        seen[kk] = k
    # (c) inside the mapped parent, with its tags
    for k, (u, v) in enumerate(edges):
        par = int(argsort[k])
        if not 0 <= par < n:
            return {"what": f"edge {k} mapped to parent {par} out of range", "key": "parent-range"}
        a, b, tg = segs[par]
        if not (_on_seg(a, b, u) and _on_seg(a, b, v)):
            return {"what": f"edge {k} {_s(u)}-{_s(v)} does not lie inside its parent {par} {_s(a)}-{_s(b)}", "key": "edge-outside-parent"}
        if tuple(int(t) for t in new_e[2:, k]) != tg:
            return {"what": f"edge {k} carries tags {[int(t) for t in new_e[2:, k]]}, its parent {par} has {list(tg)}", "key": "wrong-tags"}
    # (a) meet only at shared end points
    for k in range(m):
        for l in range(k + 1, m):
            (u, v), (w, z) = edges[k], edges[l]
            if max(u[0], v[0]) < min(w[0], z[0]) or max(w[0], z[0]) < min(u[0], v[0]):
                continue
            bad = _bad_meeting(u, v, w, z)
            if bad:
                return {"what": f"output edges {k} {_s(u)}-{_s(v)} and {l} {_s(w)}-{_s(z)} {bad}", "key": "edges-cross"}
    # (b) every input segment is tiled exactly by the output edges lying on it (containment + measure)
    for i, (a, b, tg) in enumerate(segs):
        iv = []
        for (u, v) in edges:
            if _on_seg(a, b, u) and _on_seg(a, b, v):
                t0, t1 = _param(a, b, u), _param(a, b, v)
                iv.append((min(t0, t1), max(t0, t1)))
        iv.sort()
        pos = Fraction(0)
        for lo, hi in iv:
            if lo != pos:
                break
            pos = hi
        else:
            if pos == 1:
                continue
        return {"what": f"input segment {i} {_s(a)}-{_s(b)} is not tiled by the output edges on it (parameter intervals {[(str(l), str(h)) for l, h in iv]})", "key": "parent-not-covered"}
    # tag_info: tags before uniquification + map to the unique edges reconstruct the tags of all parents of an edge
    a2u = np.asarray(a2u).ravel()
    tg_arr = np.asarray(tags).reshape((ntags, -1)) if ntags else np.zeros((0, len(a2u)), dtype=int)
    if tg_arr.shape[1] != len(a2u) or (len(a2u) and (a2u.min() < 0 or a2u.max() >= m)) or set(a2u.tolist()) != set(range(m)):
        return {"what": f"tag_info: {tg_arr.shape[1]} tag columns, map of length {len(a2u)} onto {sorted(set(a2u.tolist()))[:8]} for {m} edges", "key": "taginfo-shape"}
    for k, (u, v) in enumerate(edges):
        want = sorted(tg for (a, b, tg) in segs if _on_seg(a, b, u) and _on_seg(a, b, v))
        got = sorted(tuple(int(t) for t in tg_arr[:, j]) for j in np.where(a2u == k)[0])
        if want != got:
            return {"what": f"tag_info maps tags {got} to edge {k} {_s(u)}-{_s(v)}, the input segments containing it have {want}", "key": "taginfo-tags"}
    # prefilter helper against brute force: the sweep must report exactly the pairs of closed boxes that overlap
    p = np.array(case["pts"], dtype=float).T.reshape((2, -1))
    e = np.array(case["edges"], dtype=int).T.reshape((2 + ntags, -1))
    try:
        x0, x1, y0, y1 = pp.intersections._axis_aligned_bounding_box_2d(p, e)
        pairs = pp.intersections._identify_overlapping_rectangles(x0, x1, y0, y1)
    except Exception as ex:  # noqa: BLE001
        return {"what": f"_identify_overlapping_rectangles raised {type(ex).__name__}: {ex} on the bounding boxes of the input segments", "key": "bbox-prefilter-raises"}
    got = sorted((int(a), int(b)) for a, b in pairs.T) if pairs.size else []
    want = []
    for i in range(n):
        for j in range(i + 1, n):
            (a, b, _), (c, d, _) = segs[i], segs[j]
            bx = lambda s, t, ax: (min(s[ax], t[ax]), max(s[ax], t[ax]))
            if all(bx(a, b, ax)[0] <= bx(c, d, ax)[1] and bx(c, d, ax)[0] <= bx(a, b, ax)[1] for ax in (0, 1)):
                want.append((i, j))
    if got != want:
        miss = sorted(set(want) - set(got))[:3]
        extra = sorted(set(got) - set(want))[:3]
        return {"what": f"_identify_overlapping_rectangles: missing pairs {miss}, unexpected pairs {extra} (boxes of the input segments)", "key": "bbox-prefilter-pairs"}
    return None


# ----------------------------------------------------------------------------- evidence helpers
def _have_common_point(s, t):
    (a, b, _), (c, d, _) = s, t
    o1, o2, o3, o4 = _sgn(_cross(a, b, c)), _sgn(_cross(a, b, d)), _sgn(_cross(c, d, a)), _sgn(_cross(c, d, b))
    if o1 * o2 < 0 and o3 * o4 < 0:
        return "cross"
    if o1 == 0 and o2 == 0:
        if any(_on_seg(a, b, q) for q in (c, d)) or any(_on_seg(c, d, q) for q in (a, b)):
            ts = sorted([_param(a, b, c), _param(a, b, d)])
            lo, hi = max(ts[0], 0), min(ts[1], 1)
            if (a, b) == (c, d) or (a, b) == (d, c):
                return "duplicate"
            return "overlap" if hi > lo else "collinear-touch"
        return None
    if any(_on_seg(a, b, q) for q in (c, d)) or any(_on_seg(c, d, q) for q in (a, b)):
        if {a, b} & {c, d}:
            return "shared-endpoint"
        return "T"
    return None


def _segs_of(case):
    return [((Fraction(case["pts"][ed[0]][0]), Fraction(case["pts"][ed[0]][1])), (Fraction(case["pts"][ed[1]][0]), Fraction(case["pts"][ed[1]][1])), tuple(ed[2:])) for ed in case["edges"]]


def _kinds(case):
    segs = _segs_of(case)
    ks = []
    for i in range(len(segs)):
        for j in range(i + 1, len(segs)):
            k = _have_common_point(segs[i], segs[j])
            if k:
                ks.append(k)
    return ks


def nontrivial(case):
    return len(_kinds(case)) > 0


def signature(case):
    return (tuple(map(tuple, case["pts"])), tuple(map(tuple, case["edges"])))


def shrink_candidates(case):
    ed = case["edges"]
    for i in range(len(ed)):
        if len(ed) > 1:
            yield dict(case, edges=ed[:i] + ed[i + 1:])
    if case["ntags"]:
        yield dict(case, ntags=0, edges=[e[:2] for e in ed])
    for i, pt in enumerate(case["pts"]):
        for ax in (0, 1):
            if pt[ax] != 0:
                q = list(pt)
                q[ax] = pt[ax] - (1 if pt[ax] > 0 else -1)
                pts = [list(x) for x in case["pts"]]
                pts[i] = q
                if all(pts[e[0]] != pts[e[1]] for e in ed):
                    yield dict(case, pts=pts)


def stats(cases, impl_outs):
    from collections import Counter

    kinds = Counter()
    nseg = Counter()
    ntag = Counter()
    nout = Counter()
    trivial_branch = 0
    frac_pts = 0
    shared_idx = 0
    many_cross = Counter()
    strata = Counter(c.get("stratum", "corpus") for c in cases)
    for c, o in zip(cases, impl_outs):
        kinds.update(set(_kinds(c)) or {"no-common-point"})
        nseg[len(c["edges"])] += 1
        used = [i for ed in c["edges"] for i in ed[:2]]
        if len(set(used)) < len(used):
            shared_idx += 1
        sg = _segs_of(c)
        mc = max((sum(1 for j, t in enumerate(sg) if j != i and _proper_cross(s_[0], s_[1], t[0], t[1])) for i, s_ in enumerate(sg)), default=0)
        many_cross[min(mc, 8)] += 1
        ntag[c["ntags"]] += 1
        if isinstance(o, dict) and "edges" in o:
            nout[min(len(o["edges"]), 30)] += 1
            if len(o["pre"]) == len(o["edges"]) == len(c["edges"]):
                trivial_branch += 1
            if any("/" in x for e in o["edges"] for x in e["p"] + e["q"] if Fraction(x).denominator not in (1, 2, 4, 8, 16)):
                frac_pts += 1
    return {"strata": dict(strata), "cases_with_pair_kind": dict(kinds), "segments_per_case": {str(k): v for k, v in sorted(nseg.items())},
            "tag_rows": {str(k): v for k, v in sorted(ntag.items())}, "output_edges_per_case(capped 30)": {str(k): v for k, v in sorted(nout.items())},
            "cases_with_shared_point_indices": shared_idx, "max_proper_crossings_on_one_segment(capped 8)": {str(k): v for k, v in sorted(many_cross.items())},
            "cases_where_output_equals_input_count": trivial_branch, "cases_with_non_dyadic_intersection_point": frac_pts,
            "errors": sum(1 for o in impl_outs if isinstance(o, dict) and ("err" in o or "harness_exc" in o))}

