"""C24 MixedDimensionalGrid stays consistent under any history of add / remove / replace.

Objects are referred to by creation index (all grids and mortar grids of a case are created
up-front in index order, so `Grid.id` / `MortarGrid.id` are monotone in the index); boundary
grids are created by the container and are referred to by creation rank within the case.
"""
import json

from harness.common import err_kind, deep_compare

PID = "C24"
THEOREMS = [
    "PorepyVerif.C24.reachable_inv",
    "PorepyVerif.C24.world_inv",
    "PorepyVerif.C24.listing_sorted_nodup",
    "PorepyVerif.C24.listing_all",
    "PorepyVerif.C24.interface_pair_roundtrip",
    "PorepyVerif.C24.subdomain_to_interfaces_spec",
    "PorepyVerif.C24.neighboring_subdomains_spec",
    "PorepyVerif.C24.remove_exact",
    "PorepyVerif.C24.one_boundary_grid_per_positive_dim",
    "PorepyVerif.C24.replace_exact",
    "PorepyVerif.C24.replace_loop_visits_all",
    "PorepyVerif.C24.replace_failure_atomic",
    "PorepyVerif.C24.rejections",
    "PorepyVerif.C24.valid_calls_accepted",
    "PorepyVerif.C24.data_dictionaries_consistent",
    "PorepyVerif.C24.replace_data_travels",
    "PorepyVerif.C24.data_frame",
    "PorepyVerif.C24.copy_shares_and_is_independent",
    "PorepyVerif.C24.other_containers_histories",
]
LEAN_MODULES = ["PorepyVerif.C24.Props"]
AUDIT = "PorepyVerif/C24/Audit.lean"
DRIVER = "PorepyVerif/C24/Driver.lean"
N = {"quick": 250, "thorough": 9000}
RULE = ("family 'mock' (88%): histories of 1-30 calls (add_subdomains / add_interface / remove_subdomain / "
        "replace_subdomains_and_interfaces with sd_map of 0-3 items and/or interface_map, interleaved with queries and copy()) on a "
        "MixedDimensionalGrid over 2-12 tiny grids of dimension 0-3 (PointGrid, CartGrid) and mortar grids of dimension 0-2, created in an order "
        "unrelated to the order of insertion; 75-100% of the calls are valid, the rest are the calls the container must reject (present grid, "
        "grid listed twice, existing interface, wrong pair length, co-dimension 3, empty container, absent subdomain, absent higher-dimensional grid) "
        "plus, as last call, an accepted-but-ill-formed add_interface; equal-dimensional, parallel and self interfaces occur. "
        "family 'real' (12%): the grids / mortar grids (real projections) of a 2-d Cartesian md-grid with two crossing fractures are inserted in random "
        "order, then 1-d grids are replaced by refinements, the 0-d grid by a copy, mortar grids refined via interface_map, subdomains removed. "
        "Stratified dimensions: sd_maps that replace BOTH subdomains of one interface (30% of the replacements when possible), replacements whose mortar "
        "update MortarGrid does not implement (2-d mortar on the primary side, mortar/new-grid dimension mismatch on the secondary side: the call must "
        "raise NotImplementedError and change nothing), copy() followed by calls on the original and on the copies in random interleaving. "
        "non-trivial = at least one removal or replacement of a subdomain that carries an interface; distinct = distinct op sequences")
TRUSTED = [
    "modelled, not verified: python dict insertion order, np.argsort / np.hstack inside argsort_grids, object identity = creation id",
    "mortar projection updates (MortarGrid.update_mortar / update_primary / update_secondary) are outside the container property: "
    "in the 'mock' family they are stubbed by a logging subclass (the call sequence is compared with the model) which runs the real method "
    "exactly when it raises NotImplementedError from its dimension guards; in the 'real' family the real geometric matching runs on a 2-d "
    "fractured Cartesian md-grid; failures of the geometric matching itself (non-matching grids) are outside the model",
    "identity of data dictionaries is observed through id() of the dictionaries kept alive for the whole case",
]
EXPLANATION = ("FULL: model = the dictionaries of the container in insertion order with all mutators and queries as coded, the identity of the "
               "data dictionaries, and families of containers made by copy() sharing objects and the class-level id counters (model follows the "
               "property where the one open finding applies: a raising replace leaves no trace); theorems are invariants over ALL well-formed "
               "histories of any number of containers (induction) plus exact frame statements for removal / replacement (graph and data), "
               "query specifications, exact acceptance conditions, atomicity of failing calls, independence of copies. Correspondence compares, "
               "after every call, the raw dictionaries of EVERY container (key order and data-dictionary identities included), every listing "
               "(all dim / codim filters), pair maps both ways, per-subdomain interface / neighbour / boundary-grid maps, error kinds and the "
               "sequence of mortar-update calls.")
ASSUMPTIONS = [
    "well-formed use (decidable, part of the theorem statements): an interface is added between two present subdomains with a mortar grid "
    "of dimension <= both; a replacement grid is a fresh object of the same dimension",
]

_PP = {}


def _pp():
    """porepy and the logging mortar subclass (created once, after porepy is importable)."""
    if not _PP:
        import numpy as np
        import porepy as pp
        from porepy.grids.mortar_grid import MortarSides

        class StubMortar(pp.MortarGrid):
            """MortarGrid whose projection updates only log the call (geometry is C26's subject), except for the
            dimension combinations the real methods reject before looking at any geometry: there the real method runs."""
            log = None
            index = None

            def update_mortar(self, new_side_grids, tol=None):
                self.log.append(["mortar", self.index(self)])

            def update_primary(self, g_new, g_old, tol=None):
                self.log.append(["primary", self.index(self), self.gindex(g_new), self.gindex(g_old)])
                if self.dim not in (0, 1):  # the real method raises whatever the geometry: run it
                    return pp.MortarGrid.update_primary(self, g_new, g_old, tol)

            def update_secondary(self, new_g, tol=None):
                self.log.append(["secondary", self.index(self), self.gindex(new_g)])
                if self.dim != new_g.dim:  # the real method raises whatever the geometry: run it
                    return pp.MortarGrid.update_secondary(self, new_g, tol)

        _PP.update(np=np, pp=pp, sides=MortarSides, Stub=StubMortar)
    return _PP


class _World:
    """All objects of one case + index maps."""

    def __init__(self, case):
        P = _pp()
        np, pp = P["np"], P["pp"]
        self.pp = pp
        self.log = []
        self.real = case.get("family") == "real"
        if self.real:
            self._init_real(case)
            return
        self.grids = []
        for d in case["sd_dims"]:
            g = pp.PointGrid(np.zeros(3)) if d == 0 else pp.CartGrid(np.array([1] * d))
            g.compute_geometry()
            self.grids.append(g)
        self.gidx = {g: k for k, g in enumerate(self.grids)}
        self.mortars = []
        for d, c in zip(case["if_dims"], case["if_codims"]):
            side = pp.PointGrid(np.zeros(3)) if d == 0 else pp.CartGrid(np.array([1] * d))
            side.compute_geometry()
            m = P["Stub"](d, {P["sides"].LEFT_SIDE: side}, codim=c)
            m.log = self.log
            m.index = self.itf
            m.gindex = self.sd
            self.mortars.append(m)
        self.midx = {m: k for k, m in enumerate(self.mortars)}
        self.face_cells = [("face_cells", k) for k in range(len(self.mortars))]
        self._finish()

    def _init_real(self, case):
        """2-d Cartesian md-grid with two crossing fractures (real geometry, real mortar projections);
        its grids / mortar grids are taken over in creation order, replacement grids are refinements
        (1-d) or copies (0-d) created up-front in index order."""
        np, pp = _PP["np"], _PP["pp"]
        fracs = [np.array([[0, 2], [1, 1]]), np.array([[1, 1], [0, 2]])]
        mdg0 = pp.meshing.cart_grid(fracs, np.array([2, 2]))
        # insertion order of the assembled md-grid = creation order of its grids / mortar grids
        self.grids = list(mdg0._subdomain_data)
        self.mortars = list(mdg0._interface_data)
        for how, k in case["derived"]:
            g = self.grids[k]
            h = pp.refinement.refine_grid_1d(g, ratio=2) if how == "refine" else g.copy()
            h.compute_geometry()
            self.grids.append(h)
        self.gidx = {g: k for k, g in enumerate(self.grids)}
        self.midx = {m: k for k, m in enumerate(self.mortars)}
        pairs = [[self.gidx[a], self.gidx[b]] for a, b in (mdg0._interface_to_subdomains[m] for m in self.mortars)]
        if [g.dim for g in self.grids] != case["sd_dims"] or [m.dim for m in self.mortars] != case["if_dims"] or pairs != REAL_PAIRS:
            raise RuntimeError("real family: md-grid structure differs from the recipe the generator assumes")
        self.face_cells = [mdg0.interface_data(m)["face_cells"] for m in self.mortars]
        for m in self.mortars:  # log the projection updates, then run the real ones
            def wrap(m=m, um=m.update_mortar, up=m.update_primary, us=m.update_secondary):
                def update_mortar(new_side_grids, tol=None):
                    self.log.append(["mortar", self.itf(m)])
                    return um(new_side_grids, tol)

                def update_primary(g_new, g_old, tol=None):
                    self.log.append(["primary", self.itf(m), self.sd(g_new), self.sd(g_old)])
                    return up(g_new, g_old, tol)

                def update_secondary(new_g, tol=None):
                    self.log.append(["secondary", self.itf(m), self.sd(new_g)])
                    return us(new_g, tol)
                m.update_mortar, m.update_primary, m.update_secondary = update_mortar, update_primary, update_secondary
            wrap()
        self._finish()

    def _finish(self):
        np, pp = _PP["np"], _PP["pp"]
        # rank of boundary grids created from now on (class-level creation counter)
        anchor = pp.CartGrid(np.array([1]))
        self.bg_base = pp.BoundaryGrid(anchor).id + 1
        self.mdgs = [pp.MixedDimensionalGrid()]
        self.mdg = self.mdgs[0]
        self.keep = []  # keeps every data dictionary alive, so that id() identifies it for the whole case
        self.side_proto = {d: (pp.PointGrid(np.zeros(3)) if d == 0 else pp.CartGrid(np.array([1] * d))) for d in (0, 1, 2)}
        for g in self.side_proto.values():
            g.compute_geometry()

    def sd(self, g):
        return self.gidx[g]

    def itf(self, m):
        return self.midx[m]

    def bg(self, b):
        return b.id - self.bg_base

    # ------------------------------------------------------------------ calls
    def apply(self, op):
        """Execute one op on the real container. Returns the returned value (queries) or None."""
        P = _pp()
        self.mdg = self.mdgs[op.get("on", 0)]
        mdg, pp = self.mdg, self.pp
        k = op["op"]
        if k == "add_subdomains":
            gs = [self.grids[i] for i in op["gs"]]
            mdg.add_subdomains(gs[0] if op.get("single") and len(gs) == 1 else gs)
        elif k == "add_interface":
            pair = [self.grids[i] for i in op["pair"]]
            mdg.add_interface(self.mortars[op["i"]], tuple(pair) if op.get("tuple", True) else pair, self.face_cells[op["i"]])
        elif k == "remove_subdomain":
            mdg.remove_subdomain(self.grids[op["g"]])
        elif k == "replace":
            sd_map = {self.grids[o]: self.grids[n] for o, n in op["sd_map"]} if op["sd_map"] or not op.get("sd_none") else None
            imap = None
            if op["intf_map"] or not op.get("intf_none", True):
                imap = {}
                for j, i in enumerate(op["intf_map"]):
                    m = self.mortars[i]
                    if self.real:
                        sides = {sd: (pp.refinement.refine_grid_1d(g, ratio=2) if g.dim == 1 else g.copy()) for sd, g in m.side_grids.items()}
                        for g in sides.values():
                            g.compute_geometry()
                    else:
                        sides = {P["sides"].LEFT_SIDE: self.side_proto[m.dim]}
                    imap[m] = P["pp"].MortarGrid(m.dim, sides) if (j + i) % 2 else sides
            mdg.replace_subdomains_and_interfaces(sd_map=sd_map, interface_map=imap)
        elif k == "fork":
            self.mdgs.append(mdg.copy())
            self.mdg = self.mdgs[-1]
        elif k == "q_pair":
            a, b = mdg.interface_to_subdomain_pair(self.mortars[op["i"]])
            return [self.sd(a), self.sd(b)]
        elif k == "q_back":
            return self.itf(mdg.subdomain_pair_to_interface(tuple(self.grids[i] for i in op["pair"])))
        elif k == "q_sd":
            return self.per_sd(self.grids[op["g"]])
        elif k == "q_neigh_both":
            return [self.sd(h) for h in mdg.neighboring_subdomains(self.grids[op["g"]], only_higher=True, only_lower=True)]
        else:
            raise RuntimeError("unknown op " + k)
        return None

    # ------------------------------------------------------------------ observation
    @staticmethod
    def ex(f, conv):
        try:
            return conv(f())
        except Exception as e:  # noqa: BLE001
            return err_kind(e)

    def per_sd(self, g):
        mdg, ex = self.mdg, self.ex
        sds = lambda l: [self.sd(h) for h in l]
        b = mdg.subdomain_to_boundary_grid(g)
        return {"g": self.sd(g),
                "intfs": ex(lambda: mdg.subdomain_to_interfaces(g), lambda l: [self.itf(i) for i in l]),
                "neigh": ex(lambda: mdg.neighboring_subdomains(g), sds),
                "neigh_hi": ex(lambda: mdg.neighboring_subdomains(g, only_higher=True), sds),
                "neigh_lo": ex(lambda: mdg.neighboring_subdomains(g, only_lower=True), sds),
                "bg": None if b is None else self.bg(b)}

    def raw(self):
        mdg = self.mdg
        return {
            "sds": [self.sd(g) for g in mdg._subdomain_data],
            "intf_data": [self.itf(i) for i in mdg._interface_data],
            "pairs": [[self.itf(i), self.sd(a), self.sd(b)] for i, (a, b) in mdg._interface_to_subdomains.items()],
            "bg_of": [[self.sd(g), self.bg(b)] for g, b in mdg._subdomain_to_boundary_grid.items()],
            "bg_data": [[self.bg(b), self.sd(b.parent)] for b in mdg._boundary_grid_data],
        }

    def tok(self, d):
        self.keep.append(d)
        return id(d)

    def all_raw(self):
        """raw dictionaries of every container; data dictionaries by identity (canonicalised by _canon_tokens)."""
        out = []
        for mdg in self.mdgs:
            out.append({
                "sds": [self.sd(g) for g in mdg._subdomain_data],
                "pairs": [[self.itf(i), self.sd(a), self.sd(b)] for i, (a, b) in mdg._interface_to_subdomains.items()],
                "bg_of": [[self.sd(g), self.bg(b)] for g, b in mdg._subdomain_to_boundary_grid.items()],
                "sd_tok": [[self.sd(g), self.tok(d)] for g, d in mdg._subdomain_data.items()],
                "if_tok": [[self.itf(i), self.tok(d)] for i, d in mdg._interface_data.items()],
                "bg_tok": [[self.bg(b), self.tok(d)] for b, d in mdg._boundary_grid_data.items()],
            })
        return out

    def observe(self):
        mdg, ex = self.mdg, self.ex
        sds = lambda l: [self.sd(g) for g in l]
        itfs = lambda l: [self.itf(i) for i in l]
        bgs = lambda l: [self.bg(b) for b in l]
        o = self.raw()
        o.update({
            "list_sd": ex(lambda: mdg.subdomains(), sds),
            "list_sd_dim": [ex(lambda d=d: mdg.subdomains(dim=d), sds) for d in (0, 1, 2, 3)],
            "list_if": ex(lambda: mdg.interfaces(), itfs),
            "list_if_dim": [ex(lambda d=d: mdg.interfaces(dim=d), itfs) for d in (0, 1, 2, 3)],
            "list_if_codim": [ex(lambda c=c: mdg.interfaces(codim=c), itfs) for c in (0, 1, 2)],
            "list_if_dim_codim1": [ex(lambda d=d: mdg.interfaces(dim=d, codim=1), itfs) for d in (0, 1, 2)],
            "list_bg": ex(lambda: mdg.boundaries(), bgs),
            "list_bg_dim": [ex(lambda d=d: mdg.boundaries(dim=d), bgs) for d in (0, 1, 2)],
            "pair_of": [[self.itf(i), ex(lambda i=i: mdg.interface_to_subdomain_pair(i), lambda p: sds(p))] for i in mdg._interface_data],
            "back": [[self.itf(i), ex(lambda a=a, b=b: mdg.subdomain_pair_to_interface((a, b)), self.itf),
                      ex(lambda a=a, b=b: mdg.subdomain_pair_to_interface((b, a)), self.itf)]
                     for i, (a, b) in mdg._interface_to_subdomains.items()],
            "per_sd": [self.per_sd(g) for g in mdg._subdomain_data],
            "num": [int(mdg.num_subdomains()), int(mdg.num_interfaces())],
            "dim_max": ex(mdg.dim_max, int),
            "dim_min": ex(mdg.dim_min, int),
        })
        return o

    def order_key(self, x):
        """(dimension desc, creation order asc) for grids and mortar grids of the case"""
        return (-x.dim, self.gidx[x] if x in self.gidx else self.midx[x])

    def plan_replace(self, present, pairs, sd_map):
        """What the items of an sd_map must do, from sets of present subdomains and (unordered) pairs:
        list of (old, new, status, calls, wf) with status 'ok' | 'KeyError' | 'NotImplementedError'; the list stops
        after the first failing item.  Mortar updates are attempted in the sorted order of the interfaces of `old`;
        update_primary is implemented for mortar grids of dimension 0 and 1 only, update_secondary requires a new
        grid of the dimension of the mortar grid (documented limitations of MortarGrid)."""
        present, pairs = list(present), dict(pairs)
        plan = []
        for o, n in sd_map:
            go, gn = self.grids[o], self.grids[n]
            if go not in present:
                plan.append((o, n, "KeyError", [], True))
                break
            calls, status = [], "ok"
            for i in sorted([i for i, p in pairs.items() if go in p], key=self.order_key):
                hi, lo = sorted(pairs[i], key=self.order_key)
                if hi is go and status == "ok":
                    calls.append(["primary", self.itf(i), n, o])
                    if i.dim not in (0, 1):
                        status = "NotImplementedError"
                if lo is go and status == "ok":
                    calls.append(["secondary", self.itf(i), n])
                    if i.dim != gn.dim:
                        status = "NotImplementedError"
            wf = gn not in present and gn.dim == go.dim
            plan.append((o, n, status, calls, wf if status == "ok" else True))
            if status != "ok":
                break
            for i, p in list(pairs.items()):
                pairs[i] = tuple(gn if x is go else x for x in p)
            present[present.index(go)] = gn
        return plan

    def wf(self, op):
        """well-formedness of an op w.r.t. the current real container (mirrors the theorem hypothesis)."""
        mdg = self.mdg
        if op["op"] == "add_interface" and len(op["pair"]) == 2:
            a, b = (self.grids[i] for i in op["pair"])
            m = self.mortars[op["i"]]
            return a in mdg and b in mdg and m.dim <= a.dim and m.dim <= b.dim
        if op["op"] == "replace":
            plan = self.plan_replace(list(mdg._subdomain_data), dict(mdg._interface_to_subdomains), op["sd_map"])
            return all(item[4] for item in plan)
        return True


MUTATORS = ("add_subdomains", "add_interface", "remove_subdomain", "replace")


def _canon_tokens(outs):
    """rename data-dictionary identities (python ids / model tokens) by order of first appearance"""
    ren = {}
    for o in outs:
        if isinstance(o, dict) and "all" in o:
            for c in o["all"]:
                for key in ("sd_tok", "if_tok", "bg_tok"):
                    for e in c[key]:
                        e[1] = ren.setdefault(e[1], len(ren))
    return outs


def impl_run(case):
    w = _World(case)
    out = []
    for op in case["ops"]:
        k = op["op"]
        if k in MUTATORS:
            w.mdg = w.mdgs[op.get("on", 0)]
            wf = w.wf(op)
            del w.log[:]
            try:
                w.apply(op)
                res = "ok"
            except Exception as e:  # noqa: BLE001
                res = err_kind(e)
            if res != "ok":
                # a rejected add_interface is well-formed by definition (nothing is required of it)
                wf = True if k == "add_interface" else wf
            out.append({"res": res, "calls": [list(c) for c in w.log], "wf": wf, "obs": w.observe(), "all": w.all_raw()})
        elif k == "fork":
            w.apply(op)
            out.append({"res": "ok", "obs": w.observe(), "all": w.all_raw()})
        else:
            out.append({"res": w.ex(lambda: w.apply(op), lambda v: v)})
    return _canon_tokens(out)


def model_ops(case):
    ops = [{"op": "init", "sd_dims": case["sd_dims"], "if_dims": case["if_dims"], "if_codims": case["if_codims"]}]
    for op in case["ops"]:
        ops.append({k: v for k, v in op.items() if k in ("op", "on", "gs", "i", "pair", "g", "sd_map", "intf_map")})
    return ops


def model_decode(outs, case):
    return _canon_tokens(outs[1:])


def compare(impl, model, case):
    return deep_compare(impl, model)


# --------------------------------------------------------------------------------------- oracle
_ORDER = {}


def _key(x):
    """(dimension desc, creation order asc): grids and mortar grids are ordered by the order in which the case
    created them (not by the id attribute the code sorts by), boundary grids by their id."""
    return (-x.dim, _ORDER.get(id(x), ("z", x.id)))


class _Shadow:
    """what one container must contain, in the vocabulary of the property"""

    def __init__(self):
        self.present = []   # subdomain objects present
        self.pairs = {}     # interface object -> (a, b) as given / substituted (unordered)
        self.bg_of = {}     # subdomain -> boundary grid object
        self.sd_data, self.if_data, self.bg_data = {}, {}, {}

    def copy(self):
        c = _Shadow()
        c.present, c.pairs, c.bg_of = list(self.present), dict(self.pairs), dict(self.bg_of)
        c.sd_data, c.if_data, c.bg_data = dict(self.sd_data), dict(self.if_data), dict(self.bg_data)  # same dictionaries
        return c


def oracle(case):
    """The property statement checked directly on the real containers after every call, against a
    shadow written in the vocabulary of the property (sets of present objects, unordered pairs)."""
    w = _World(case)
    _ORDER.clear()
    _ORDER.update({id(g): ("a", k) for g, k in w.gidx.items()})
    _ORDER.update({id(m): ("a", k) for m, k in w.midx.items()})
    shadows = [_Shadow()]

    def fail(k, what, key):
        return {"what": f"op {k} {json.dumps(case['ops'][k])}: {what}", "key": key}

    def raws():
        out = []
        for m in w.mdgs:
            w.mdg = m
            out.append(w.raw())
        return out

    for k, op in enumerate(case["ops"]):
        kind = op["op"]
        on = op.get("on", 0)
        if kind == "fork":
            before_all = raws()
            w.apply(op)
            shadows.append(shadows[on].copy())
            after_all = raws()
            if after_all[:-1] != before_all:
                return fail(k, "copy() changed an existing container", "copy:changed-existing")
            if after_all[-1] != before_all[on]:
                return fail(k, "copy() differs from the original", "copy:differs")
            w.mdg = w.mdgs[-1]
            r = _check_state(w, shadows[-1])  # includes: the copy holds the very same data dictionaries
            if r is not None:
                return fail(k, "copy(): " + r[0], f"copy:{r[1]}")
            continue
        if kind not in MUTATORS:
            continue  # queries are compared with the model; the checks below query everything anyway
        sh = shadows[on]
        present, pairs, bg_of = sh.present, sh.pairs, sh.bg_of
        sd_data, if_data, bg_data = sh.sd_data, sh.if_data, sh.bg_data
        w.mdg = mdg = w.mdgs[on]
        before_all = raws()
        before = before_all[on]
        w.mdg = mdg
        wf = w.wf(op)
        # ---- what the property / documentation says must happen
        expect = None  # None = must succeed
        plan = []
        if kind == "add_subdomains":
            gs = [w.grids[i] for i in op["gs"]]
            if any(g in present for g in gs):
                expect = "ValueError"
            elif len(set(gs)) < len(gs):
                expect = "ValueError"
        elif kind == "add_interface":
            ps = [w.grids[i] for i in op["pair"]]
            m = w.mortars[op["i"]]
            if len(ps) != 2 or m in pairs or abs(ps[0].dim - ps[1].dim) > 2:
                expect = "ValueError"
            elif not present:
                expect = "AssertionError"
            elif not wf:
                expect = "any"  # outside the property's domain: accepted or rejected, we stop here
        elif kind == "remove_subdomain":
            if w.grids[op["g"]] not in present:
                expect = "KeyError"
        elif kind == "replace":
            if not wf:
                expect = "any"
            else:
                plan = w.plan_replace(present, pairs, op["sd_map"])
                if plan and plan[-1][2] != "ok":
                    expect = plan[-1][2]
        del w.log[:]
        try:
            w.apply(op)
            got = None
        except Exception as e:  # noqa: BLE001
            got = type(e).__name__
        after_all = raws()
        after = after_all[on]
        w.mdg = mdg
        if [r for j, r in enumerate(after_all) if j != on] != [r for j, r in enumerate(before_all) if j != on]:
            return fail(k, "a call on one container changed another container (copy() must give independent containers)", "copy:other-container-changed")
        # ---- shapes of defects found earlier keep their own keys (all fixed in /repo now)
        if kind == "add_interface" and got is not None and expect is not None and after != before:
            i = op["i"]
            if after == dict(before, intf_data=before["intf_data"] + [i]):
                return fail(k, f"add_interface raised {got} but left the interface in _interface_data (listed by interfaces(), no subdomain pair)",
                            "add_interface:rejected-but-stored")
        if expect == "any":
            if got is not None and after == before:
                continue  # rejected without effect: the history goes on
            return None   # accepted although ill-formed: outside the property's domain from here on
        if kind == "add_subdomains" and expect == "ValueError" and got is None and not any(g in present for g in gs):
            return fail(k, f"add_subdomains accepted a list naming the same grid twice; boundaries() now has {len(mdg._boundary_grid_data)} grids "
                        f"for {len(mdg._subdomain_data)} subdomains", "add_subdomains:duplicate-in-call-accepted")
        if kind == "remove_subdomain" and expect is None:
            g = w.grids[op["g"]]
            left = [i for i, (a, b) in mdg._interface_to_subdomains.items() if a is g or b is g]
            if left and all(pairs.get(i) and pairs[i][0] is g and pairs[i][1] is g for i in left):
                return fail(k, f"remove_subdomain ({'raised ' + got if got else 'returned'}) left {len(left)} interface(s) from the removed subdomain to itself in the container",
                            "remove_subdomain:self-interface-survives")
        if kind == "replace":
            for o, n in op["sd_map"]:
                go, gn = w.grids[o], w.grids[n]
                half = [i for i, (a, b) in mdg._interface_to_subdomains.items() if a is not b and {a, b} == {go, gn} and pairs.get(i) and pairs[i][0] is go and pairs[i][1] is go]
                if half and (expect is None or expect == "KeyError"):
                    return fail(k, "replace_subdomains_and_interfaces rewrote only one end of an interface from the replaced subdomain to itself; "
                                "the other end still names the deleted subdomain", "replace:self-interface-half-replaced")
        # ---- outcome
        if expect is None and got is not None:
            return fail(k, f"valid call raised {got}", f"{kind}:valid-call-raised-{got}")
        if expect is not None and got is None:
            return fail(k, f"call that must be rejected ({expect}) was accepted", f"{kind}:not-rejected")
        if expect is not None and got != expect:
            return fail(k, f"rejected with {got}, expected {expect}", f"{kind}:wrong-error-{got}")
        if got is not None and kind != "replace" and after != before:
            return fail(k, f"rejected call ({got}) changed the container: {before} -> {after}", f"{kind}:rejected-call-changed-state")
        # ---- shadow update
        known = {id(d) for s2 in shadows for dd in (s2.sd_data, s2.if_data, s2.bg_data) for d in dd.values()}
        if kind == "add_subdomains" and got is None:
            for g in gs:
                present.append(g)
                sd_data[g] = mdg.subdomain_data(g)
                if g.dim > 0:
                    b = mdg.subdomain_to_boundary_grid(g)
                    if b is None:
                        return fail(k, "no boundary grid created for a positive-dimensional subdomain", "add_subdomains:no-boundary-grid")
                    bg_of[g] = b
                    bg_data[b] = mdg.boundary_grid_data(b)
            fresh = [sd_data[g] for g in gs] + [bg_data[bg_of[g]] for g in gs if g.dim > 0]
            if len({id(d) for d in fresh}) < len(fresh) or any(id(d) in known for d in fresh) or any(len(d) for d in fresh):
                return fail(k, "a new subdomain / boundary grid did not get a fresh, empty data dictionary of its own", "add_subdomains:data-not-fresh")
        elif kind == "add_interface" and got is None:
            pairs[m] = (ps[0], ps[1])
            if_data[m] = mdg.interface_data(m)
            if id(if_data[m]) in known:
                return fail(k, "a new interface did not get a data dictionary of its own", "add_interface:data-not-fresh")
            if if_data[m].get("face_cells") is not w.face_cells[op["i"]]:
                return fail(k, "interface data does not hold the given face_cells map", "add_interface:data")
        elif kind == "remove_subdomain" and got is None:
            g = w.grids[op["g"]]
            present.remove(g)
            for i in [i for i, p in pairs.items() if g in p]:
                del pairs[i]
                del if_data[i]
            b = bg_of.pop(g, None)
            if b is not None:
                del bg_data[b]
                if b in mdg:
                    return fail(k, "boundary grid of the removed subdomain is still in the container", "remove_subdomain:boundary-grid-survives")
            del sd_data[g]
        elif kind == "replace":
            calls_expected = [["mortar", i] for i in op["intf_map"]]
            for o, n, status, calls, _ in plan:
                calls_expected += calls
                if status != "ok":
                    break  # the failing item must leave no trace
                go, gn = w.grids[o], w.grids[n]
                for i, pr in list(pairs.items()):
                    pairs[i] = tuple(gn if x is go else x for x in pr)
                present[present.index(go)] = gn
                sd_data[gn] = sd_data.pop(go)
                bo = bg_of.pop(go, None)
                if bo is not None:
                    bn = mdg.subdomain_to_boundary_grid(gn)
                    if bn is not None and bn is not bo and bn.parent is gn:
                        bg_of[gn] = bn
                        bg_data[bn] = bg_data.pop(bo)
                    else:
                        bg_of[gn] = None  # reported by the state check below
            if w.log != calls_expected:
                return fail(k, f"mortar update calls {w.log}, expected {calls_expected}", "replace:mortar-update-calls")
        # ---- the property, on the real container, against the shadow
        r = _check_state(w, sh)
        if r is not None:
            if kind == "replace" and got is not None and got != "KeyError":
                return fail(k, f"replace_subdomains_and_interfaces raised {got} from a mortar update and left the container half-updated "
                            f"({r[0]})", "replace:raised-container-half-updated")
            return fail(k, r[0], f"{kind}:{r[1]}")
    return None


def _check_state(w, sh):
    present, pairs, bg_of = sh.present, sh.pairs, sh.bg_of
    sd_data, if_data, bg_data = sh.sd_data, sh.if_data, sh.bg_data
    mdg = w.mdg
    # 1. listings: each present object exactly once, sorted by (dim desc, id asc)
    for name, lister, objs in (("subdomains", mdg.subdomains, present), ("interfaces", mdg.interfaces, list(pairs))):
        try:
            l = lister()
        except Exception as e:  # noqa: BLE001
            return f"{name}() raised {type(e).__name__}", f"{name}-raised"
        if len(l) != len(objs) or set(l) != set(objs) or len(set(l)) != len(l):
            return f"{name}() does not return each present object exactly once ({len(l)} listed, {len(objs)} present)", f"{name}-not-exactly-once"
        if [_key(x) for x in l] != sorted(_key(x) for x in l):
            return f"{name}() is not sorted by (dimension desc, id asc)", f"{name}-unsorted"
        for d in (0, 1, 2, 3):
            if lister(dim=d) != [x for x in l if x.dim == d]:
                return f"{name}(dim={d}) is not the sub-list of {name}()", f"{name}-dim-filter"
        for x, data in lister(return_data=True):
            store = sd_data if name == "subdomains" else if_data
            getter = mdg.subdomain_data if name == "subdomains" else mdg.interface_data
            if data is not store[x] or getter(x) is not data or x not in mdg:
                return f"data dictionary of a listed {name[:-1]} is not the one it was created with", f"{name}-data"
    for c in (0, 1, 2):
        if mdg.interfaces(codim=c) != [x for x in mdg.interfaces() if x.codim == c]:
            return f"interfaces(codim={c}) is not the sub-list of interfaces()", "interfaces-codim-filter"
    if mdg.num_subdomains() != len(present) or mdg.num_interfaces() != len(pairs):
        return "num_subdomains / num_interfaces wrong", "counts"
    # 2. interface <-> pair
    for i, (a, b) in pairs.items():
        try:
            hi, lo = mdg.interface_to_subdomain_pair(i)
        except Exception as e:  # noqa: BLE001
            return f"interface_to_subdomain_pair raised {type(e).__name__} for a listed interface", "pair-raised"
        if {hi, lo} != {a, b} or [hi, lo].count(a) != [a, b].count(a):
            return "interface_to_subdomain_pair does not return the interface's two subdomains", "pair-wrong"
        if hi not in mdg or lo not in mdg:
            return "an interface refers to a subdomain that is not in the container", "pair-dangling"
        if _key(hi) > _key(lo):
            return "interface_to_subdomain_pair is not ordered (higher, lower) / ascending id", "pair-order"
        same = [j for j, p in pairs.items() if set(p) == {a, b}]
        for q in ((hi, lo), (lo, hi)):
            try:
                j = mdg.subdomain_pair_to_interface(q)
            except Exception as e:  # noqa: BLE001
                return f"subdomain_pair_to_interface raised {type(e).__name__} for the pair of a listed interface", "back-raised"
            if j not in same or (len(same) == 1 and j is not i):
                return "subdomain_pair_to_interface does not lead back to the interface", "back-wrong"
    # 3. per subdomain: interfaces, neighbours, boundary grid
    for g in present:
        want = sorted([i for i, p in pairs.items() if g in p], key=_key)
        if mdg.subdomain_to_interfaces(g) != want:
            return "subdomain_to_interfaces is not the sorted list of the subdomain's interfaces", "sd-interfaces"
        nb = [(p[1] if p[0] is g else p[0]) for i, p in pairs.items() if g in p]
        for kw, flt in (({}, lambda h: True), ({"only_higher": True}, lambda h: h.dim > g.dim), ({"only_lower": True}, lambda h: h.dim < g.dim)):
            if mdg.neighboring_subdomains(g, **kw) != sorted([h for h in nb if flt(h)], key=_key):
                return f"neighboring_subdomains({kw}) wrong", "neighbours"
        b = mdg.subdomain_to_boundary_grid(g)
        if g.dim == 0:
            if b is not None:
                return "a 0-d subdomain has a boundary grid", "bg-0d"
        elif b is None or b is not bg_of.get(g) or b.parent is not g or b.dim != g.dim - 1 or b not in mdg:
            return "a positive-dimensional subdomain does not have exactly its own boundary grid", "bg-missing-or-changed"
    # exactly one boundary grid per positive-dimensional subdomain, none else
    bgs = list(mdg._boundary_grid_data)
    if sorted(b.id for b in bgs) != sorted(b.id for b in bg_of.values()) or list(mdg._subdomain_to_boundary_grid) != [g for g in mdg._subdomain_data if g in bg_of]:
        return f"boundary grids in the container ({len(bgs)}) are not exactly one per positive-dimensional subdomain ({len(bg_of)})", "bg-not-one-per-subdomain"
    for b in bgs:
        if mdg.boundary_grid_data(b) is not bg_data[b]:
            return "boundary grid data dictionary was not carried over", "bg-data"
    if bg_of or not present:
        try:
            l = mdg.boundaries()
        except Exception as e:  # noqa: BLE001
            return f"boundaries() raised {type(e).__name__}", "boundaries-raised"
        if set(l) != set(bgs) or len(l) != len(bgs) or [_key(x) for x in l] != sorted(_key(x) for x in l):
            return "boundaries() does not list each boundary grid exactly once, sorted", "boundaries-listing"
        for d in (0, 1, 2):
            if mdg.boundaries(dim=d) != [x for x in l if x.dim == d]:
                return f"boundaries(dim={d}) is not the sub-list", "boundaries-dim-filter"
    return None


# --------------------------------------------------------------------------------------- generator
REAL_SD = [2, 1, 1, 0]
REAL_IF = [1, 1, 0, 0]
REAL_PAIRS = [[0, 1], [0, 2], [1, 3], [2, 3]]


def gen_real(rng):
    """family 'real': the container is filled with the grids and mortar grids of a 2-d Cartesian md-grid with two
    crossing fractures, then 1-d grids are replaced by refinements, the 0-d grid by a copy, mortar grids are
    refined through interface_map (real projection updates), subdomains are removed."""
    sd_dims, derived, ops = list(REAL_SD), [], []
    order = list(range(4))
    rng.shuffle(order)
    if rng.random() < 0.15:
        order.pop()
    present, pairs = [], {}
    while order:
        k = rng.choice([1, 2, 4])
        gs, order = order[:k], order[k:]
        ops.append({"op": "add_subdomains", "gs": gs, "single": rng.random() < 0.5})
        present += gs
    cur = {g: g for g in range(4)}  # original grid -> grid now standing for it
    iorder = list(range(4))
    rng.shuffle(iorder)
    for i in iorder:
        a, b = REAL_PAIRS[i]
        if a in present and b in present and rng.random() < 0.93:
            pr = [a, b] if rng.random() < 0.5 else [b, a]
            ops.append({"op": "add_interface", "i": i, "pair": pr, "tuple": rng.random() < 0.8})
            pairs[i] = (a, b)
    for _ in range(rng.randint(0, 10)):
        r = rng.random()
        live = [g for g in present if sd_dims[g] < 2]
        if r < 0.4 and live:
            olds = rng.sample(live, min(len(live), rng.choice([1, 1, 2])))
            sd_map = []
            for o in olds:
                derived.append(["refine" if sd_dims[o] == 1 else "copy", o])
                sd_dims.append(sd_dims[o])
                n = len(sd_dims) - 1
                sd_map.append([o, n])
                present[present.index(o)] = n
            imap = rng.sample(sorted(pairs), rng.choice([0, 0, 1])) if pairs else []
            ops.append({"op": "replace", "sd_map": sd_map, "intf_map": imap, "sd_none": False, "intf_none": rng.random() < 0.5})
            for o, n in sd_map:
                for i, p in list(pairs.items()):
                    pairs[i] = tuple(n if x == o else x for x in p)
        elif r < 0.55 and pairs:
            imap = rng.sample(sorted(pairs), rng.choice([1, 1, 2]) if len(pairs) > 1 else 1)
            ops.append({"op": "replace", "sd_map": [], "intf_map": imap, "sd_none": rng.random() < 0.5, "intf_none": False})
        elif r < 0.75 and present:
            g = rng.choice(present)
            ops.append({"op": "remove_subdomain", "g": g})
            present.remove(g)
            for i in [i for i, p in pairs.items() if g in p]:
                del pairs[i]
        elif r < 0.85:
            ops.append({"op": "q_sd", "g": rng.randrange(len(sd_dims))})
        elif r < 0.9:
            ops.append({"op": "fork"})
        elif r < 0.95:
            ops.append({"op": "remove_subdomain", "g": rng.randrange(len(sd_dims))} if rng.random() < 0.5 or not present
                       else {"op": "add_subdomains", "gs": [rng.choice(present)], "single": True})
            if ops[-1]["op"] == "remove_subdomain" and ops[-1]["g"] in present:
                g = ops[-1]["g"]
                present.remove(g)
                for i in [i for i, p in pairs.items() if g in p]:
                    del pairs[i]
        elif pairs:
            ops.append({"op": "q_pair", "i": rng.choice(sorted(pairs))})
    on, n = 0, 1
    for op in ops:  # after copy() the history continues on the copy; the original must stay as it is
        op["on"] = on
        if op["op"] == "fork":
            on, n = n, n + 1
    return {"family": "real", "sd_dims": sd_dims, "if_dims": list(REAL_IF), "if_codims": [1, 1, 1, 1], "derived": derived, "ops": ops}


def gen_case(rng, tier):
    if rng.random() < 0.12:
        return gen_real(rng)
    big = tier == "thorough"
    nops = rng.randint(1, 30) if rng.random() < 0.8 else rng.randint(1, 8)
    dim_w = rng.choice([[0, 1, 2, 3], [0, 1, 1, 2, 2, 3], [1, 2], [0, 0, 1], [2, 3, 3], [0, 1, 2, 3, 3]])
    sd_dims = [rng.choice(dim_w) for _ in range(rng.randint(2, 12 if big else 8))]
    if_dims, if_codims = [], []
    ops = []
    # rough simulation (one per container), only to keep most ops valid
    unused0 = list(range(len(sd_dims)))
    rng.shuffle(unused0)
    sims = [{"present": [], "pairs": {}, "unused": unused0}]
    on = 0

    def okey(x, mortar=False):
        return (-(if_dims[x] if mortar else sd_dims[x]), x)

    def replace_ok(pairs, o, n):
        """will the mortar updates of item o -> n be accepted? (dimension guards of MortarGrid)"""
        for i in sorted([i for i, p in pairs.items() if o in p], key=lambda i: okey(i, True)):
            hi, lo = sorted(pairs[i], key=okey)
            if hi == o and if_dims[i] == 2:
                return False
            if lo == o and if_dims[i] != sd_dims[n]:
                return False
        return True

    def new_grid(d):
        sd_dims.append(d)
        return len(sd_dims) - 1

    def new_mortar(d, c):
        if_dims.append(d)
        if_codims.append(c)
        return len(if_dims) - 1

    def mortar_for(a, b, wf=True):
        da, db = sd_dims[a], sd_dims[b]
        lo = min(da, db)
        if wf:
            d = min(2, lo if (da != db or rng.random() < 0.5 or lo == 0) else lo - 1)
        else:
            d = min(2, lo + 1)
        c = abs(da - db) if rng.random() < 0.85 else rng.choice([0, 1, 2])
        return new_mortar(d, c)

    p_bad = rng.choice([0.0, 0.05, 0.12, 0.25])
    p_self = rng.choice([0.0, 0.0, 0.0, 0.03, 0.1])
    for _ in range(nops):
        r = rng.random()
        if len(sims) > 1 and rng.random() < 0.3:
            on = rng.randrange(len(sims))
        present, pairs, unused = sims[on]["present"], sims[on]["pairs"], sims[on]["unused"]
        nbefore = len(ops)
        _gen_one(rng, r, ops, sims, on, present, pairs, unused, sd_dims, if_dims, dim_w, p_bad, p_self, new_grid, new_mortar, mortar_for, replace_ok)
        for op in ops[nbefore:]:
            op["on"] = on
    present = sims[on]["present"]
    if rng.random() < 0.06 and present:
        # one accepted-but-ill-formed call at the very end (absent low-dimensional subdomain / too large mortar)
        a = rng.choice(present)
        if rng.random() < 0.5:
            b = new_grid(rng.randint(0, sd_dims[a]))
            ops.append({"op": "add_interface", "i": new_mortar(min(2, sd_dims[b]), 1), "pair": [a, b], "tuple": True})
        elif sd_dims[a] < 2:
            ops.append({"op": "add_interface", "i": mortar_for(a, a, wf=False), "pair": [a, a], "tuple": True})
    return {"family": "mock", "sd_dims": sd_dims, "if_dims": if_dims, "if_codims": if_codims, "ops": ops}


def _gen_one(rng, r, ops, sims, on, present, pairs, unused, sd_dims, if_dims, dim_w, p_bad, p_self, new_grid, new_mortar, mortar_for, replace_ok):
    """one more call on container `on` (and the update of its rough simulation)"""
    if rng.random() < p_bad:
        ops.append(_bad_op(rng, sd_dims, present, pairs, unused, new_grid, new_mortar, mortar_for))
        return
    if r < 0.25 or not present:
        if not unused:
            unused.append(new_grid(rng.choice(dim_w)))
        k = min(len(unused), rng.choice([1, 1, 1, 2, 3]))
        gs = [unused.pop() for _ in range(k)]
        ops.append({"op": "add_subdomains", "gs": gs, "single": rng.random() < 0.5})
        present += gs
    elif r < 0.58:
        if rng.random() < p_self:
            a = b = rng.choice(present)
        else:
            a, b = rng.choice(present), rng.choice(present)
            for _ in range(6):  # prefer admissible, distinct pairs
                if a != b and abs(sd_dims[a] - sd_dims[b]) <= 2 and (sd_dims[a] != sd_dims[b] or rng.random() < 0.3):
                    break
                b = rng.choice(present)
        if abs(sd_dims[a] - sd_dims[b]) > 2 or (a == b and rng.random() >= max(p_self, 0.02)):
            return
        free = [i for i in range(len(if_dims)) if i not in pairs and if_dims[i] <= min(sd_dims[a], sd_dims[b])]
        i = rng.choice(free) if free and rng.random() < 0.3 else mortar_for(a, b)
        ops.append({"op": "add_interface", "i": i, "pair": [a, b], "tuple": rng.random() < 0.8})
        pairs[i] = (a, b)
    elif r < 0.70:
        g = rng.choice(present)
        ops.append({"op": "remove_subdomain", "g": g})
        present.remove(g)
        for i in [i for i, p in pairs.items() if g in p]:
            del pairs[i]
    elif r < 0.86:
        k = min(len(present), rng.choice([1, 1, 1, 2, 3]))
        olds = rng.sample(present, k) if rng.random() < 0.9 else []
        both = [p for p in pairs.values() if p[0] != p[1] and p[0] in present and p[1] in present]
        if both and rng.random() < 0.3:
            # stratum: one sd_map replaces BOTH subdomains of one interface (sometimes more on top)
            olds = list(rng.choice(both))
            rng.shuffle(olds)
            if rng.random() < 0.3:
                olds += [g for g in rng.sample(present, min(len(present), 1)) if g not in olds]
        if rng.random() < 0.75:  # mostly replacements MortarGrid implements
            olds = [o for o in olds if replace_ok(pairs, o, o)] or olds[:1]
        sd_map = []
        alive = True
        for o in olds:
            n = new_grid(sd_dims[o])
            sd_map.append([o, n])
            if alive and replace_ok(pairs, o, n):
                present[present.index(o)] = n
                for i, p in list(pairs.items()):
                    pairs[i] = tuple(n if x == o else x for x in p)
            else:
                alive = False  # this item raises; the later ones are not reached
        imap = rng.sample(sorted(pairs), min(len(pairs), rng.choice([0, 0, 1, 2]))) if pairs else []
        ops.append({"op": "replace", "sd_map": sd_map, "intf_map": imap, "sd_none": rng.random() < 0.5, "intf_none": rng.random() < 0.5})
    elif r < 0.97:
        q = rng.random()
        if q < 0.3 and if_dims:
            ops.append({"op": "q_pair", "i": rng.randrange(len(if_dims))})
        elif q < 0.6:
            ops.append({"op": "q_back", "pair": [rng.randrange(len(sd_dims)), rng.randrange(len(sd_dims))]})
        elif q < 0.9:
            ops.append({"op": "q_sd", "g": rng.randrange(len(sd_dims))})
        else:
            ops.append({"op": "q_neigh_both", "g": rng.randrange(len(sd_dims))})
    else:
        ops.append({"op": "fork"})
        sims.append({"present": list(present), "pairs": dict(pairs), "unused": list(unused)})


def _bad_op(rng, sd_dims, present, pairs, unused, new_grid, new_mortar, mortar_for):
    """calls the container must reject (or that are outside its domain)."""
    kind = rng.choice(["present", "present", "dup", "existing", "existing", "len", "codim3", "absent_rm", "absent_rm",
                       "absent_repl", "absent_high", "chain"])
    anyg = lambda: rng.randrange(len(sd_dims))
    if kind == "present" and present:
        gs = [rng.choice(present)]
        if rng.random() < 0.5 and unused:
            gs.insert(rng.randrange(2), unused[-1])  # not consumed: the call is rejected as a whole
        return {"op": "add_subdomains", "gs": gs, "single": rng.random() < 0.5}
    if kind == "dup" and rng.random() < 0.3:
        g = unused[-1] if unused else new_grid(rng.randint(0, 3))
        if g not in unused:
            unused.append(g)
        return {"op": "add_subdomains", "gs": [g, g], "single": False}
    if kind == "existing" and pairs:
        i = rng.choice(sorted(pairs))
        pr = list(pairs[i]) if rng.random() < 0.5 or not present else [rng.choice(present), rng.choice(present)]
        return {"op": "add_interface", "i": i, "pair": pr, "tuple": True}
    if kind == "len" and present:
        a = rng.choice(present)
        pr = [a] if rng.random() < 0.5 else [a, rng.choice(present), rng.choice(present)]
        return {"op": "add_interface", "i": new_mortar(0, 1), "pair": pr, "tuple": rng.random() < 0.5}
    if kind == "codim3":
        a = [g for g in present if sd_dims[g] == 3]
        b = [g for g in present if sd_dims[g] == 0]
        if a and b:
            pr = [rng.choice(a), rng.choice(b)]
            rng.shuffle(pr)
            return {"op": "add_interface", "i": new_mortar(0, 3), "pair": pr, "tuple": True}
    if kind == "absent_high" and present:
        dm = max(sd_dims[g] for g in present)
        if dm < 3:
            b = new_grid(rng.randint(dm + 1, min(3, dm + 2)))
            pr = [rng.choice(present), b]
            rng.shuffle(pr)
            return {"op": "add_interface", "i": new_mortar(min(2, dm), 1), "pair": pr, "tuple": True}
    if kind == "absent_repl":
        o = anyg()
        if o not in present:
            return {"op": "replace", "sd_map": [[o, new_grid(sd_dims[o])]], "intf_map": [], "sd_none": False, "intf_none": True}
    if kind == "chain" and len(present) >= 1:
        # second item names an absent subdomain: first item stays applied
        o = rng.choice(present)
        n = new_grid(sd_dims[o])
        absent = [g for g in range(len(sd_dims)) if g not in present and g != n]
        if absent:
            x = rng.choice(absent)
            present[present.index(o)] = n
            for i, p in list(pairs.items()):
                pairs[i] = tuple(n if y == o else y for y in p)
            return {"op": "replace", "sd_map": [[o, n], [x, new_grid(sd_dims[x])]], "intf_map": [], "sd_none": False, "intf_none": True}
    g = anyg()
    if g in present:
        present.remove(g)
        for i in [i for i, p in pairs.items() if g in p]:
            del pairs[i]
    return {"op": "remove_subdomain", "g": g}


def nontrivial(case):
    touched = set()
    for op in case["ops"]:
        if op["op"] == "add_interface":
            touched.update(op["pair"])
        if op["op"] == "remove_subdomain" and op["g"] in touched:
            return True
        if op["op"] == "replace" and any(o in touched for o, _ in op["sd_map"]):
            return True
    return False


def signature(case):
    return json.dumps([case["family"], case["sd_dims"], case["if_dims"], case["ops"]], sort_keys=True)


def shrink_candidates(case):
    ops = case["ops"]
    for i in range(len(ops) - 1, -1, -1):
        yield dict(case, ops=ops[:i] + ops[i + 1:])
    for i, op in enumerate(ops):
        if op["op"] == "add_subdomains" and len(op["gs"]) > 1 and len(set(op["gs"])) == len(op["gs"]):
            for j in range(len(op["gs"])):
                yield dict(case, ops=ops[:i] + [dict(op, gs=op["gs"][:j] + op["gs"][j + 1:])] + ops[i + 1:])
        if op["op"] == "replace" and (len(op["sd_map"]) > 1 or op["intf_map"]):
            for j in range(len(op["sd_map"])):
                yield dict(case, ops=ops[:i] + [dict(op, sd_map=op["sd_map"][:j] + op["sd_map"][j + 1:])] + ops[i + 1:])
            yield dict(case, ops=ops[:i] + [dict(op, intf_map=[])] + ops[i + 1:])


def stats(cases, impl_outs):
    from collections import Counter
    c = Counter()
    errs = Counter()
    for case, out in zip(cases, impl_outs):
        c["cases"] += 1
        c["ops"] += len(case["ops"])
        for op, o in zip(case["ops"], out if isinstance(out, list) else []):
            c[op["op"]] += 1
            if isinstance(o.get("res"), dict) and "err" in o["res"]:
                errs[op["op"] + ":" + o["res"]["err"]] += 1
            if op["op"] == "add_interface" and len(op["pair"]) == 2:
                a, b = op["pair"]
                c["self_interface" if a == b else ("codim%d" % abs(case["sd_dims"][a] - case["sd_dims"][b]))] += 1
            if op["op"] == "replace":
                c["replace_items"] += len(op["sd_map"])
                c["replace_intf_items"] += len(op["intf_map"])
            if "wf" in o and not o["wf"]:
                c["ill_formed_accepted"] += 1
        c["max_present"] = max(c["max_present"], max([len(o["obs"]["sds"]) for o in out if isinstance(o, dict) and "obs" in o] or [0])) if isinstance(out, list) else c["max_present"]
    for d in (0, 1, 2, 3):
        c[f"grids_dim{d}"] = sum(case["sd_dims"].count(d) for case in cases)
    c["family_real"] = sum(1 for case in cases if case.get("family") == "real")
    c["cases_with_copy"] = sum(1 for case in cases if any(op["op"] == "fork" for op in case["ops"]))
    c["calls_on_a_copy"] = sum(1 for case in cases for op in case["ops"] if op.get("on", 0) > 0)
    for case in cases:
        prs = {}
        for op in case["ops"]:
            if op["op"] == "add_interface" and len(op["pair"]) == 2:
                prs[(op.get("on", 0), op["i"])] = set(op["pair"])
            if op["op"] == "replace" and len(op["sd_map"]) > 1:
                olds = {o for o, _ in op["sd_map"]}
                if any(len(pr) == 2 and pr <= olds for (on, _), pr in prs.items() if on == op.get("on", 0)):
                    c["sd_map_hits_both_ends_of_an_interface(first generation)"] += 1
    c["histories_len_ge_20"] = sum(1 for case in cases if len(case["ops"]) >= 20)
    return {"counts": dict(c), "errors": dict(errs)}
