"""C06 Restricted assembly is a slice of the full system.

Case = a small mixed-dimensional grid (2-4 subdomains, 0-3 mortar grids, instantiated in random order),
2-4 `create_variables` calls with mixed cells/faces/nodes multiplicities, and a history of
set_equation / remove_equation / update_equation / assemble calls on `EquationSystem`.

grid key    = position in case["grids"]; keys >= 100 denote grids that are NOT in the md-grid.
equation k  = the name "e<k>";  variable name n = "v<n>".
expr        = {"terms": [...]} a sum of  lin (M @ x),  prod ((M1 @ x) * (M2 @ y)),  const (dense array);
              the matrices are regenerated from the term's seed and the operand sizes, entries are
              dyadic rationals of small magnitude; the expression always has the declared number of rows.
request     = None | {"list": [item...]} | {"dict": [[key, grids]...]}   (wire format of the Lean driver)
              key = ["s",k] string | ["o",k] Operator named e<k> | ["x"] something unparsable
              item = {"k": key} | {"d": [[key, grids]...]}
variables   = None | [ ["n",n] name | ["v",i] i-th atomic Variable created (i >= 1000: foreign) |
                       ["m",[i...]] a MixedDimensionalVariable of those | ["x"] unparsable ]
slot        = 0: assemble at the stored iterate; 1: assemble with an explicit `state=` vector.
update_eq   = {"name", "grids": None | [keys], "per": None | [c,f,n], "expr"}  (None = the defaults of update_equation)
delta       = (set_eq / update_eq, optional) the operator has `declared rows + delta` rows: `Consistent` is violated on purpose.

Two identical worlds are built per case: world A receives the calls, world B (same history of
set/remove) is only ever asked for the FULL system, so that `assembled_equation_indices` of A is never
touched by the harness.
"""
import json
import random
from fractions import Fraction

import numpy as np

from harness.common import deep_compare, err_kind, frac

PID = "C06"
THEOREMS = [
    "PorepyVerif.C06.inv_reachable",
    "PorepyVerif.C06.set_equation_image",
    "PorepyVerif.C06.parse_spec",
    "PorepyVerif.C06.full_is_all",
    "PorepyVerif.C06.assemble_is_slice",
    "PorepyVerif.C06.slice_rows_increasing",
    "PorepyVerif.C06.columns_sorted_subset",
    "PorepyVerif.C06.columns_all",
    "PorepyVerif.C06.driver_split_sound",
    "PorepyVerif.C06.indices_reported",
    "PorepyVerif.C06.residual_only_eq",
    "PorepyVerif.C06.residual_only_is_slice",
    "PorepyVerif.C06.restriction_order_irrelevant",
    "PorepyVerif.C06.request_permutation_irrelevant",
    "PorepyVerif.C06.grid_order_irrelevant",
    "PorepyVerif.C06.consistent_implies_covers",
    "PorepyVerif.C06.index_error_iff",
    "PorepyVerif.C06.index_error_residual",
    "PorepyVerif.C06.remove_equation_spec",
    "PorepyVerif.C06.update_equation_spec",
    "PorepyVerif.C06.update_equation_failure",
    "PorepyVerif.C06.varsOk_of_c05",
    "PorepyVerif.C06.columns_all_reachable",
]
LEAN_DIRS = ["C05"]   # Model.lean imports PorepyVerif.C05.Model, Props.lean uses C05.inv_reachable
LEAN_MODULES = ["PorepyVerif.C06.Props"]
AUDIT = "PorepyVerif/C06/Audit.lean"
DRIVER = "PorepyVerif/C06/Driver.lean"
N = {"quick": 100, "thorough": 2000}
RULE = ("md-grids with 2-4 subdomains (dim 0-3, 1-3 cells) and 0-3 mortar grids instantiated in random order; 2-4 variables "
        "(cells/faces/nodes multiplicities 0-2, names from a pool of 3 so that a name recurs on other grids and on interfaces); "
        "2-5 equations (cells/faces/nodes multiplicities 0-2, zero-row blocks and an equation without grids are frequent, "
        "grids passed in random order) whose operators are sums of sparse-matrix x variable, products of two such terms and "
        "constants with dyadic data; histories of 6-16 (thorough: up to 30) calls: set_equation, remove_equation (then "
        "re-set, which moves the equation to the end), update_equation (~7 %: default or new grids / multiplicities, "
        "foreign or repeated grids = removal without re-setting, unknown names), ~6 % of the operators with 1-2 rows fewer or more "
        "than declared (IndexError path), and assemble with every request form: None, lists of names / "
        "Operators / nested dicts in random order with repetitions, restriction dicts with grid subsets in random order "
        "with repeated and empty grid lists, str and Operator keys naming the same equation, and a dedicated stratum (40 % of the "
        "dict requests on systems with >= 2 equations) of multi-key restriction dicts whose key order differs from the order of "
        "setting; variables None, [], names, "
        "Variables, md-variables, repeated, unknown names; evaluate_jacobian False/True; stored state or explicit state "
        "vector. ~12 % malformed: unknown names, grids outside the equation's domain, foreign grids, unparsable items, "
        "foreign variables, duplicate names / repeated / foreign grids in set_equation. "
        "Compared: the image composition and the list of equation names after every set/update/remove, A, b, the column count and "
        "assembled_equation_indices after every assemble (also after a failing one), error kinds. "
        "non-trivial = at least one successful Jacobian assembly restricted to a proper grid subset, one with a proper "
        "variable subset and one residual-only assembly; distinct = distinct histories")
TRUSTED = [
    "modelled, not verified: the AD evaluation of an operator (C01/C02) - the evaluated rows of every equation are DATA of the "
    "model (the full system assembled by the real code is sent to the driver, which must predict every restricted system); "
    "that `evaluate(derivative=False)` returns the `.val` of the derivative evaluation; that an operator has as many rows "
    "as `equations_per_grid_entity` declares (the code does not check it; the slice theorems need only `Covers` = at least the "
    "declared rows, and `index_error_iff` says what happens otherwise; the harness generates both kinds and tells the driver the "
    "actual operator lengths)",
    "modelled, not verified: python dict order/update = association lists; numpy fancy indexing, arange, concatenate, "
    "scipy csr row slicing, vstack and the product with the transposed projection are transcribed as list functions",
    "the md-grid listing order (mdg.subdomains() then mdg.interfaces(), property C24) and the entity counts are parameters "
    "of the model, read from the real md-grid by the harness",
    "the variable table: `Sys.VarsOk` is derived from C05's proved invariant (`varsOk_of_c05`, `columns_all_reachable`); that the "
    "block ranges of this model (`dofRange` over `dofOrder`) coincide with C05's `dofsOfIds` is not proved (the two models transcribe "
    "`_cluster_dofs_gridwise` independently), it is covered by the correspondence check on the columns of every Jacobian",
    "assembled_equation_indices after assemble_schur_complement_system (overwritten by the last secondary equation) is judged outside "
    "this property: the statement is about `assemble`, and every inner `assemble(equations=[name])` call of the Schur method reports its "
    "indices exactly as proved here; see fixes/C07-schur-assembled-equation-indices.diff",
    "a variable passed twice (e.g. by name and as Variable) duplicates its columns: documented in `_parse_variable_type` "
    "(\"not uniquified\"); the model and the oracle follow the code (columns = sorted dofs WITH multiplicity), the subset "
    "statement is proved for duplicate-free requests",
]
EXPLANATION = ("FULL for the index logic: the model transcribes set_equation's image bookkeeping, remove_equation, update_equation "
               "(remove + set: the equation moves to the END; a failing re-set leaves it removed), _parse_single_equation / "
               "_parse_equations (dict/list/None forms, overriding, re-ordering by set order), both branches of assemble with "
               "the ind_start bookkeeping, the partial index dictionary on IndexError and the column projection; theorems hold "
               "for every system reachable by set/remove/update/assemble, every request and every variable list: slice theorem "
               "under `Covers`, exact characterisation of the IndexError path, removal = un-requesting, variable table from C05's "
               "invariant. The evaluated rows are data (AD evaluation is C01/C02).")
ASSUMPTIONS = [
    "slice theorems: the evaluated operator of every equation has at least the number of rows declared through "
    "equations_per_grid_entity (Covers); without it index_error_iff applies",
    "row values are copied, never recomputed: restricted and full assembly evaluate the same operator at the same state, "
    "so equality is exact (no tolerance is used anywhere in this check)",
]

FOREIGN = 100


# ----------------------------------------------------------------------------- real objects
def _mk_grid(dim, n, geometry=False):
    import porepy as pp
    if dim == 0:
        g = pp.PointGrid(np.zeros((3, 1)))
    else:
        g = pp.CartGrid(np.array([n] + [1] * (dim - 1)))
    if geometry:
        g.compute_geometry()
    return g


def _mk_mortar(dim, n, sides):
    import porepy as pp
    from porepy.grids.mortar_grid import MortarSides
    sg = {MortarSides.LEFT_SIDE: _mk_grid(dim, n, True)}
    if sides == 2:
        sg[MortarSides.RIGHT_SIDE] = _mk_grid(dim, n, True)

    class _Mortar(pp.MortarGrid):
        # the harness builds mortar grids without projections (irrelevant to the equation bookkeeping); the stock
        # __repr__ needs them, and the error messages of the code under test print grids
        def __repr__(self):
            return f"<mortar grid {self.id}>"

    return _Mortar(dim, sg, codim=1)


def _state(n, slot):
    if slot == 0:
        return np.array([((7 * i + 3) % 17 - 8) / 4.0 for i in range(n)])
    return np.array([((5 * i + 1) % 13 - 6) / 2.0 for i in range(n)])


def _matrix(rng, nr, nc):
    import scipy.sparse as sps
    rows, cols, vals = [], [], []
    for i in range(nr):
        for j in range(nc):
            if rng.random() < 0.45:
                rows.append(i)
                cols.append(j)
                vals.append(rng.randint(-8, 8) / 4.0)
    return sps.csr_matrix((vals, (rows, cols)), shape=(nr, nc))


class World:
    """The real objects of one case (grids, md-grid, EquationSystem, variables)."""

    def __init__(self, case):
        import porepy as pp
        import scipy.sparse as sps
        gs = case["grids"]
        self.case = case
        self.objs = [None] * len(gs)
        for k in sorted(range(len(gs)), key=lambda k: gs[k]["rank"]):
            g = gs[k]
            self.objs[k] = _mk_grid(g["dim"], g["n"]) if g["kind"] == "sub" else _mk_mortar(g["dim"], g["n"], g["sides"])
        self.mdg = pp.MixedDimensionalGrid()
        self.mdg.add_subdomains([self.objs[k] for k, g in enumerate(gs) if g["kind"] == "sub"])
        for k, g in enumerate(gs):
            if g["kind"] == "intf":
                a, b = g["pair"]
                self.mdg.add_interface(self.objs[k], (self.objs[a], self.objs[b]), sps.identity(1))
        self.key_of = {id(o): k for k, o in enumerate(self.objs)}
        self.foreign_grids = {}
        self.es = pp.ad.EquationSystem(self.mdg)
        self.atoms = []  # atomic variables in creation order
        for v in case["vars"]:
            dof = {k: m for k, m in zip(("cells", "faces", "nodes"), v["dof"]) if m > 0 or k == "cells"}
            grids = [self.objs[k] for k in v["grids"]]
            md = self.es.create_variables(f"v{v['name']}", dof, **({"subdomains": grids} if v["on"] == "sub" else {"interfaces": grids}))
            self.atoms += list(md.sub_vars)
        n = self.es.num_dofs()
        self.es.set_variable_values(_state(n, 0), iterate_index=0)
        self.es.set_variable_values(_state(n, 0), time_step_index=0)
        self.foreign_vars = {}
        self.dummies = {}
        self.eqinfo = {}   # name k -> {"grids", "per", "rows"} of the equations currently set (harness bookkeeping)

    # md order of the grid keys
    def md_order(self):
        return [self.key_of[id(g)] for g in self.mdg.subdomains()] + [self.key_of[id(g)] for g in self.mdg.interfaces()]

    def counts(self, k):
        g = self.objs[k]
        intf = self.case["grids"][k]["kind"] == "intf"
        return [k, 1 if intf else 0, int(g.num_cells), 0 if intf else int(g.num_faces), 0 if intf else int(g.num_nodes)]

    def grid(self, key):
        if 0 <= key < len(self.objs):
            return self.objs[key]
        if key not in self.foreign_grids:
            self.foreign_grids[key] = _mk_grid(1, 2) if key % 2 == 0 else _mk_mortar(1, 1, 1)
        return self.foreign_grids[key]

    def var(self, i):
        import porepy as pp
        if 0 <= i < len(self.atoms):
            return self.atoms[i]
        if i not in self.foreign_vars:
            self.foreign_vars[i] = pp.ad.Variable("foreign", {"cells": 1}, domain=self.objs[0])
        return self.foreign_vars[i]

    def operand(self, ref):
        import porepy as pp
        if ref[0] == "var":
            return self.atoms[ref[1]], int(self.es.dofs_of([self.atoms[ref[1]]]).size)
        vs = [self.atoms[i] for i in ref[1]]
        return pp.ad.MixedDimensionalVariable(vs), int(self.es.dofs_of(vs).size)

    def expr(self, spec, nrows, name):
        import porepy as pp
        total = None
        for t in spec["terms"]:
            rng = random.Random(t["seed"])
            if t["t"] == "const":
                term = pp.ad.DenseArray(np.array([rng.randint(-16, 16) / 4.0 for _ in range(nrows)]))
            elif t["t"] == "lin":
                x, nx = self.operand(t["v"])
                term = pp.ad.SparseArray(_matrix(rng, nrows, nx)) @ x
            else:
                x, nx = self.operand(t["v1"])
                y, ny = self.operand(t["v2"])
                term = (pp.ad.SparseArray(_matrix(rng, nrows, nx)) @ x) * (pp.ad.SparseArray(_matrix(rng, nrows, ny)) @ y)
            total = term if total is None else total + term
        total.set_name(name)
        return total

    def declared_rows(self, grids, per):
        """rows an operator needs so that set_equation's bookkeeping fits (known grids only, once each)"""
        n = 0
        for k in set(grids):
            if 0 <= k < len(self.objs):
                c = self.counts(k)
                n += c[2] * per[0] + c[3] * per[1] + c[4] * per[2]
        return n

    def dummy(self, k, tag):
        import porepy as pp
        if (k, tag) not in self.dummies:
            op = pp.ad.Scalar(1.0) + pp.ad.Scalar(2.0)
            op.set_name(f"e{k}")
            self.dummies[(k, tag)] = op
        return self.dummies[(k, tag)]

    def key(self, key, tag):
        if key[0] == "s":
            return f"e{key[1]}"
        if key[0] == "o":
            name = f"e{key[1]}"
            if name in self.es._equations and tag % 2 == 0:
                return self.es._equations[name]
            return self.dummy(key[1], tag)
        return 3 + tag

    def request(self, req):
        if req is None:
            return None
        if "list" in req:
            out = []
            for j, it in enumerate(req["list"]):
                if "k" in it:
                    out.append(self.key(it["k"], j))
                else:
                    out.append({self.key(k, 10 * j + i): [self.grid(g) for g in gs] for i, (k, gs) in enumerate(it["d"])})
            return out
        return {self.key(k, i): [self.grid(g) for g in gs] for i, (k, gs) in enumerate(req["dict"])}

    def variables(self, vs):
        import porepy as pp
        if vs is None:
            return None
        out = []
        for v in vs:
            if v[0] == "n":
                out.append(f"v{v[1]}")
            elif v[0] == "v":
                out.append(self.var(v[1]))
            elif v[0] == "m":
                out.append(pp.ad.MixedDimensionalVariable([self.var(i) for i in v[1]]))
            else:
                out.append(17)
        return out

    def idx(self):
        return [[int(name[1:]), [int(i) for i in ix]] for name, ix in self.es.assembled_equation_indices.items()]

    @staticmethod
    def per_dict(per):
        return {k: m for k, m in zip(("cells", "faces", "nodes"), per) if m > 0 or k == "cells"}

    def sync(self, name=None, info=None):
        """keep the bookkeeping in line with what the real system holds after a call"""
        live = {int(n[1:]) for n in self.es._equations}
        self.eqinfo = {k: v for k, v in self.eqinfo.items() if k in live}
        if name is not None and name in live and info is not None:
            self.eqinfo.pop(name, None)
            self.eqinfo[name] = info

    def names(self):
        return [int(n[1:]) for n in self.es._equations]

    def set_eq(self, op):
        nrows = max(0, self.declared_rows(op["grids"], op["per"]) + op.get("delta", 0))
        e = self.expr(op["expr"], nrows, f"e{op['name']}")
        ok = False
        try:
            self.es.set_equation(e, [self.grid(k) for k in op["grids"]], self.per_dict(op["per"]))
            ok = True
        finally:
            self.sync(op["name"], {"grids": list(op["grids"]), "per": list(op["per"]), "rows": nrows} if ok else None)

    def update_eq(self, op):
        old = self.eqinfo.get(op["name"])
        grids = op["grids"] if op["grids"] is not None else (old["grids"] if old else [])
        per = op["per"] if op["per"] is not None else (old["per"] if old else [0, 0, 0])
        nrows = max(0, self.declared_rows(grids, per) + op.get("delta", 0))
        e = self.expr(op["expr"], nrows, "fresh")   # update_equation renames it
        ok = False
        try:
            self.es.update_equation(f"e{op['name']}", e,
                                    grids=None if op["grids"] is None else [self.grid(k) for k in op["grids"]],
                                    equations_per_grid_entity=None if op["per"] is None else self.per_dict(op["per"]))
            ok = True
        finally:
            self.sync(op["name"], {"grids": list(grids), "per": list(per), "rows": nrows} if ok else None)

    def lens(self):
        return [[k, self.eqinfo[k]["rows"]] for k in self.names()]

    def assemble(self, op):
        kw = {}
        if op["slot"] == 1:
            kw["state"] = _state(self.es.num_dofs(), 1)
        return self.es.assemble(evaluate_jacobian=op["jac"], equations=self.request(op["eqs"]), variables=self.variables(op["vars"]), **kw)

    def full(self, slot):
        kw = {"state": _state(self.es.num_dofs(), 1)} if slot == 1 else {}
        A, b = self.es.assemble(**kw)
        return A.tocsr(), np.asarray(b)


EXC = (ValueError, KeyError, AssertionError, IndexError, TypeError)


def _dense(A):
    return np.asarray(A.todense()) if hasattr(A, "todense") else np.asarray(A)


_CACHE = {}


def _trace(case):
    """Run the history on world A; before every assemble, get the full system of the same state from world B.
    Returns a list of per-op records with the raw results."""
    sig = json.dumps(case, sort_keys=True)
    if sig in _CACHE:
        return _CACHE[sig]
    A, B = World(case), World(case)
    recs = []
    fulls = {}
    for op in case["ops"]:
        rec = {"op": op}
        if op["op"] in ("set_eq", "update_eq"):
            call = (lambda w: w.set_eq(op)) if op["op"] == "set_eq" else (lambda w: w.update_eq(op))
            try:
                call(A)
                rec["ok"] = True
                img = A.es._equation_image_space_composition[f"e{op['name']}"]
                rec["image"] = [[A.key_of[id(g)], [int(i) for i in ix]] for g, ix in img.items()]
            except EXC as e:
                rec["err"] = type(e).__name__
            try:
                call(B)
            except EXC:
                pass
            rec["eqs"] = A.names()
            fulls = {}
        elif op["op"] == "remove_eq":
            try:
                A.es.remove_equation(f"e{op['name']}")
                rec["ok"] = True
            except EXC as e:
                rec["err"] = type(e).__name__
            try:
                B.es.remove_equation(f"e{op['name']}")
            except EXC:
                pass
            A.sync()
            B.sync()
            rec["eqs"] = A.names()
            fulls = {}
        else:
            if op["slot"] not in fulls:
                fulls[op["slot"]] = B.full(op["slot"])
                rec["new_full"] = True
            rec["full"] = fulls[op["slot"]]
            rec["lens"] = B.lens()
            rec["idx_before"] = A.idx()
            try:
                r = A.assemble(op)
                if op["jac"]:
                    rec["A"], rec["b"] = r[0], np.asarray(r[1])
                else:
                    rec["b"] = np.asarray(r)
            except EXC as e:
                rec["err"] = type(e).__name__
            rec["idx"] = A.idx()
        recs.append(rec)
    out = {"recs": recs, "order": A.md_order(), "counts": [A.counts(k) for k in A.md_order()],
           "atoms": [[i, int(v.name[1:]), A.key_of[id(v.domain)]] for i, v in enumerate(A.atoms)],
           "ndofs": A.es.num_dofs()}
    if len(_CACHE) > 4:
        _CACHE.clear()
    _CACHE[sig] = out
    return out


# ----------------------------------------------------------------------------- harness entry points
def impl_run(case):
    tr = _trace(case)
    out = []
    for rec in tr["recs"]:
        op = rec["op"]
        if "err" in rec:
            o = {"err": rec["err"]}
            if op["op"] == "assemble":
                o["idx"] = rec["idx"]
            else:
                o["eqs"] = rec["eqs"]
            out.append(o)
        elif op["op"] in ("set_eq", "update_eq"):
            out.append({"image": rec["image"], "eqs": rec["eqs"]})
        elif op["op"] == "remove_eq":
            out.append({"eqs": rec["eqs"]})
        elif op["jac"]:
            M = _dense(rec["A"])
            if M.ndim != 2:
                out.append({"shape": list(M.shape)})
                continue
            out.append({"A": [[frac(x) for x in row] for row in M], "b": [frac(x) for x in rec["b"]], "ncols": int(M.shape[1]), "idx": rec["idx"]})
        else:
            out.append({"b": [frac(x) for x in rec["b"]], "idx": rec["idx"]})
    return out


def _atom_dof(case, i):
    k = 0
    for v in case["vars"]:
        for _ in v["grids"]:
            if k == i:
                return v["dof"]
            k += 1
    raise IndexError(i)


def model_ops(case):
    tr = _trace(case)
    ops = [{"op": "init", "grids": tr["counts"],
            "vars": [[i, name, grid] + list(_atom_dof(case, i)) for i, name, grid in tr["atoms"]]}]
    for rec in tr["recs"]:
        op = rec["op"]
        if op["op"] == "set_eq":
            ops.append({"op": "set_eq", "name": op["name"], "grids": op["grids"], "per": op["per"]})
        elif op["op"] == "update_eq":
            ops.append({"op": "update_eq", "name": op["name"], "grids": op["grids"], "per": op["per"]})
        elif op["op"] == "remove_eq":
            ops.append({"op": "remove_eq", "name": op["name"]})
        else:
            if rec.get("new_full"):
                A, b = rec["full"]
                A = A.copy()
                A.sum_duplicates()
                cols, vals = [], []
                for i in range(A.shape[0]):
                    sl = slice(A.indptr[i], A.indptr[i + 1])
                    cols.append([int(c) for c in A.indices[sl]])
                    vals.append([frac(x) for x in A.data[sl]])
                ops.append({"op": "full", "slot": op["slot"], "b": [frac(x) for x in b], "cols": cols, "vals": vals,
                            "lens": rec["lens"]})
            ops.append({"op": "assemble", "slot": op["slot"], "jac": op["jac"], "eqs": op["eqs"], "vars": op["vars"]})
    return ops


def model_decode(outs, case):
    ops = model_ops(case)
    return [o for o, m in zip(outs, ops) if m["op"] not in ("init", "full")]


def compare(impl, model, case):
    return deep_compare(impl, model)


# ----------------------------------------------------------------------------- oracle
def _flatten(req):
    """entries (key, grids | None) of a request in reading order"""
    if "list" in req:
        out = []
        for it in req["list"]:
            if "k" in it:
                out.append((it["k"], None))
            else:
                out += [(k, gs) for k, gs in it["d"]]
        return out
    return [(k, gs) for k, gs in req["dict"]]


def _form(op):
    f = "none" if op["eqs"] is None else ("list" if "list" in op["eqs"] else "dict")
    return f"{f}-{'jac' if op['jac'] else 'res'}"


def oracle(case):
    """The slice statement on the real outputs, with an independent computation of which rows / columns are meant
    (equations in the order of setting, an updated equation LAST, a removed one gone; offsets from the actual operator
    lengths; IndexError exactly when a restricted request reaches beyond a too short operator)."""
    tr = _trace(case)
    pos = {k: i for i, k in enumerate(tr["order"])}          # md position of a grid key
    cnt = {c[0]: c for c in tr["counts"]}
    # DOF layout: blocks by (md position of the grid, creation index)
    sizes = {}
    for i, name, grid in tr["atoms"]:
        d = _atom_dof(case, i)
        c = cnt[grid]
        sizes[i] = c[2] * d[0] + c[3] * d[1] + c[4] * d[2]
    start, p = {}, 0
    for i, name, grid in sorted(tr["atoms"], key=lambda a: (pos[a[2]], a[0])):
        start[i] = p
        p += sizes[i]
    ndofs = p

    def entry(name, grids, per, delta):
        blocks = [(k, cnt[k][2] * per[0] + cnt[k][3] * per[1] + cnt[k][4] * per[2]) for k in sorted(set(grids), key=lambda k: pos[k])]
        return {"name": name, "blocks": blocks, "per": list(per), "actual": max(0, sum(n for _, n in blocks) + delta)}

    eqs = []  # the equations currently set, in the order of setting
    for j, rec in enumerate(tr["recs"]):
        op = rec["op"]
        if op["op"] in ("set_eq", "update_eq", "remove_eq"):
            old = next((e for e in eqs if e["name"] == op["name"]), None)
            others = [e for e in eqs if e["name"] != op["name"]]
            if op["op"] == "set_eq":
                if "ok" in rec:
                    eqs = eqs + [entry(op["name"], op["grids"], op["per"], op.get("delta", 0))]
            elif op["op"] == "remove_eq":
                if "ok" in rec:
                    eqs = others
            elif "ok" in rec:
                if old is None:
                    return {"what": f"op {j}: update_equation of an equation that is not set succeeded", "key": "update-unknown-succeeds"}
                grids = op["grids"] if op["grids"] is not None else [k for k, _ in old["blocks"]]
                per = op["per"] if op["per"] is not None else old["per"]
                eqs = others + [entry(op["name"], grids, per, op.get("delta", 0))]   # remove + set: LAST
            elif rec["err"] == "AssertionError":
                eqs = others   # the re-setting failed after the removal (partial effect of update_equation)
            if rec["eqs"] != [e["name"] for e in eqs]:
                return {"what": f"op {j} ({op['op']}): equations are now {rec['eqs']}, expected the order {[e['name'] for e in eqs]}",
                        "key": f"equation-order-after-{op['op']}"}
            continue
        form = _form(op)
        known = {e["name"]: e for e in eqs}
        # ---- expected outcome of the request
        want_err = None
        sel = {}
        if op["eqs"] is None:
            sel = {e["name"]: None for e in eqs}
        else:
            for key, gs in _flatten(op["eqs"]):
                if key[0] == "x":
                    want_err = "TypeError"
                    break
                if key[1] not in known:
                    want_err = "ValueError"
                    break
                if gs is not None and not set(gs) <= {k for k, _ in known[key[1]]["blocks"]}:
                    want_err = "ValueError"
                    break
                sel[key[1]] = None if gs is None else set(gs)
        # ---- rows in the full system (offsets: actual operator lengths)
        rows, per_eq, off = [], [], 0
        if want_err is None:
            for e in eqs:
                name = e["name"]
                if name in sel:
                    if sel[name] is None:
                        loc = list(range(e["actual"]))
                    else:
                        loc, q = [], 0
                        for k, n in e["blocks"]:
                            if k in sel[name]:
                                loc += list(range(q, q + n))
                            q += n
                        if any(i >= e["actual"] for i in loc):
                            want_err = "IndexError"   # the operator is shorter than declared and the request reaches beyond it
                            break
                    per_eq.append((name, len(loc)))
                    rows += [off + i for i in loc]
                off += e["actual"]
        if want_err is None and op["jac"] and op["vars"]:
            for v in op["vars"]:
                if v[0] == "x" or (v[0] == "v" and v[1] >= len(tr["atoms"])) or (v[0] == "m" and any(i >= len(tr["atoms"]) for i in v[1])):
                    want_err = "ValueError"
        if want_err is not None:
            if rec.get("err") != want_err:
                return {"what": f"op {j} ({form}): expected {want_err}, got {rec.get('err', 'a result')}", "key": f"error-kind:{form}:{want_err}"}
            continue
        if "err" in rec:
            return {"what": f"op {j} ({form}): a valid request raised {rec['err']}", "key": f"valid-request-raises:{form}"}
        Af, bf = rec["full"]
        if Af.shape != (off, ndofs) or bf.shape != (off,):
            return {"what": f"op {j}: full system has shape {Af.shape}, the operators give {(off, ndofs)}", "key": "full-shape"}
        b = rec["b"]
        if b.shape != (len(rows),) or not np.array_equal(b, bf[rows]):
            return {"what": f"op {j} ({form}): residual {b.tolist()} is not the full residual at rows {rows}: {bf[rows].tolist()}",
                    "key": f"residual-not-slice:{form}"}
        if not op["jac"]:
            if rec["idx"] != rec["idx_before"]:
                return {"what": f"op {j}: residual-only assembly changed assembled_equation_indices", "key": "residual-only-touches-indices"}
            continue
        # ---- columns
        if op["vars"] is None:
            cols = list(range(ndofs))
        else:
            cols = []
            for v in op["vars"]:
                ids = [i for i, name, _ in tr["atoms"] if name == v[1]] if v[0] == "n" else ([v[1]] if v[0] == "v" else list(v[1]))
                for i in ids:
                    cols += list(range(start[i], start[i] + sizes[i]))
            cols.sort()
        M = _dense(rec["A"])
        want = _dense(Af[rows][:, cols]) if rows and cols else np.zeros((len(rows), len(cols)))
        if M.shape != want.shape or not np.array_equal(M, want):
            return {"what": f"op {j} ({form}): Jacobian of shape {M.shape} is not full[rows={rows}][:, cols={cols}] (shape {want.shape})",
                    "key": f"jacobian-not-slice:{form}:{'allvars' if op['vars'] is None else 'subvars'}"}
        # ---- reported indices: equations in set order, consecutive ranges
        exp, q = [], 0
        for name, n in per_eq:
            exp.append([name, list(range(q, q + n))])
            q += n
        if rec["idx"] != exp:
            return {"what": f"op {j} ({form}): assembled_equation_indices {rec['idx']} but the row blocks are {exp}", "key": f"indices-wrong:{form}"}
    return None


# ----------------------------------------------------------------------------- generator
def _gen_grids(rng):
    ns = rng.choice([2, 2, 3, 3, 4])
    ni = rng.choice([0, 1, 1, 2, 2, 3])
    grids = []
    for _ in range(ns):
        grids.append({"kind": "sub", "dim": rng.choice([0, 1, 1, 2, 2, 3]), "n": rng.choice([1, 2, 2, 3])})
    for _ in range(ni):
        grids.append({"kind": "intf", "dim": rng.choice([0, 1, 1, 2]), "n": rng.choice([1, 2]), "sides": rng.choice([1, 2]), "pair": [0, 0]})
    rng.shuffle(grids)
    subs = [k for k, g in enumerate(grids) if g["kind"] == "sub"]
    for g in grids:
        if g["kind"] == "intf":
            a = rng.choice(subs)
            g["pair"] = [a, rng.choice([b for b in subs if abs(grids[a]["dim"] - grids[b]["dim"]) <= 2])]
            g["dim"] = min(g["dim"], min(grids[k]["dim"] for k in g["pair"]))
    ranks = list(range(len(grids)))
    rng.shuffle(ranks)
    for g, r in zip(grids, ranks):
        g["rank"] = r
    return grids


def _mult(rng):
    r = rng.random()
    if r < 0.12:
        return [0, 0, 0]
    if r < 0.5:
        return [rng.choice([1, 1, 2]), 0, 0]
    return [rng.choice([0, 1, 1, 2]), rng.choice([0, 0, 1]), rng.choice([0, 0, 1, 2])]


def _gen_vars(rng, grids):
    subs = [k for k, g in enumerate(grids) if g["kind"] == "sub"]
    intfs = [k for k, g in enumerate(grids) if g["kind"] == "intf"]
    out, used = [], set()
    for _ in range(rng.randint(2, 4)):
        name = rng.randrange(3)
        on_intf = bool(intfs) and rng.random() < 0.3
        pool = [g for g in (intfs if on_intf else subs) if (name, g) not in used]
        if not pool:
            continue
        gl = rng.sample(pool, rng.randint(1, len(pool)))
        used.update((name, g) for g in gl)
        dof = _mult(rng)
        out.append({"name": name, "dof": [dof[0], 0, 0] if on_intf else dof, "on": "intf" if on_intf else "sub", "grids": gl})
    if not out:
        out.append({"name": 0, "dof": [1, 0, 0], "on": "sub", "grids": subs[:1]})
    return out


def _atoms(vars_):
    out = []
    for v in vars_:
        for g in v["grids"]:
            out.append({"i": len(out), "name": v["name"], "grid": g, "on": v["on"]})
    return out


def _gen_operand(rng, atoms):
    if rng.random() < 0.4:
        return ["var", rng.choice(atoms)["i"]]
    a = rng.choice(atoms)
    same = [b["i"] for b in atoms if b["name"] == a["name"] and b["on"] == a["on"]]  # an md-variable lives on one kind of grid
    return ["md", rng.sample(same, rng.randint(1, len(same)))]


def _gen_expr(rng, atoms):
    terms = []
    for _ in range(rng.randint(1, 3)):
        t = rng.random()
        if t < 0.5:
            terms.append({"t": "lin", "v": _gen_operand(rng, atoms), "seed": rng.randrange(10 ** 6)})
        elif t < 0.8:
            terms.append({"t": "prod", "v1": _gen_operand(rng, atoms), "v2": _gen_operand(rng, atoms), "seed": rng.randrange(10 ** 6)})
        else:
            terms.append({"t": "const", "seed": rng.randrange(10 ** 6)})
    if all(t["t"] == "const" for t in terms):
        terms.append({"t": "lin", "v": _gen_operand(rng, atoms), "seed": rng.randrange(10 ** 6)})
    return {"terms": terms}


def _gen_set(rng, grids, atoms, name, bad):
    subs = [k for k, g in enumerate(grids) if g["kind"] == "sub"]
    intfs = [k for k, g in enumerate(grids) if g["kind"] == "intf"]
    r = rng.random()
    if r < 0.08:
        gl = []
    elif r < 0.3 and intfs:
        gl = rng.sample(intfs, rng.randint(1, len(intfs)))
    elif r < 0.36 and intfs:
        gl = rng.sample(subs, rng.randint(1, len(subs))) + rng.sample(intfs, rng.randint(1, len(intfs)))  # mixed: accepted by the code
        rng.shuffle(gl)
    else:
        gl = rng.sample(subs, rng.randint(1, len(subs)))
    if bad == "foreign-grid":
        gl.insert(rng.randrange(len(gl) + 1), FOREIGN + rng.randrange(4))
    elif bad == "repeated-grid" and gl:
        gl.insert(rng.randrange(len(gl) + 1), rng.choice(gl))
    op = {"op": "set_eq", "name": name, "grids": gl, "per": _mult(rng), "expr": _gen_expr(rng, atoms)}
    if bad is None and rng.random() < 0.1:
        op["delta"] = rng.choice([-2, -1, -1, 1, 2])   # operator shorter / longer than declared (Consistent violated)
    return op


def _gen_key(rng, k):
    return ["s", k] if rng.random() < 0.65 else ["o", k]


def _gen_request(rng, live, grids, bad):
    """live: {name: [grid keys of its image]}"""
    names = sorted(live)
    r = rng.random()
    if r < 0.12 and not bad:
        return None
    unknown = max(names + [0]) + 1 + rng.randrange(3)
    allg = list(range(len(grids)))

    def restriction(k):
        dom = live.get(k, [])
        gs = rng.sample(dom, rng.randint(0, len(dom))) if dom else []
        if gs and rng.random() < 0.2:
            gs.insert(rng.randrange(len(gs) + 1), rng.choice(gs))  # repeated grid in the restriction
        return gs

    if r < 0.55:
        items = []
        pick = rng.sample(names, rng.randint(0 if rng.random() < 0.1 else 1, len(names))) if names else []
        for k in pick:
            if rng.random() < 0.25:
                ent = [[_gen_key(rng, k), restriction(k)]]
                if rng.random() < 0.3 and len(names) > 1:
                    k2 = rng.choice(names)
                    ent.append([_gen_key(rng, k2), restriction(k2)])
                items.append({"d": ent})
            else:
                items.append({"k": _gen_key(rng, k)})
        if items and rng.random() < 0.2:
            k = rng.choice(names)   # the same equation again, in another form: the later entry wins
            items.insert(rng.randrange(len(items) + 1), {"k": _gen_key(rng, k)} if rng.random() < 0.5 else {"d": [[_gen_key(rng, k), restriction(k)]]})
        if bad == "unknown-name":
            items.insert(rng.randrange(len(items) + 1), {"k": _gen_key(rng, unknown)} if rng.random() < 0.6 else {"d": [[_gen_key(rng, unknown), []]]})
        elif bad == "bad-type":
            items.insert(rng.randrange(len(items) + 1), {"k": ["x"]} if rng.random() < 0.6 else {"d": [[["x"], []]]})
        elif bad == "bad-grid" and names:
            k = rng.choice(names)
            out = [g for g in allg if g not in live[k]] + [FOREIGN + rng.randrange(4)]
            items.insert(rng.randrange(len(items) + 1), {"d": [[_gen_key(rng, k), restriction(k) + [rng.choice(out)]]]})
        return {"list": items}
    ents, seen = [], set()
    pick = rng.sample(names, rng.randint(0 if rng.random() < 0.1 else 1, len(names))) if names else []
    order = list(live)   # the order of setting
    if len(order) >= 2 and rng.random() < 0.4:
        # stratum: a restriction dict of >= 2 equations whose key order differs from the order of setting
        pick = rng.sample(order, rng.randint(2, len(order)))
        pick.sort(key=order.index, reverse=True)
        if len(pick) > 2 and rng.random() < 0.5:
            a, b = rng.sample(range(len(pick)), 2)
            pick[a], pick[b] = pick[b], pick[a]
            if pick == sorted(pick, key=order.index):
                pick.reverse()
    for k in pick:
        key = _gen_key(rng, k)
        ents.append([key, restriction(k)])
        if rng.random() < 0.15:
            other = ["o", k]  # the same equation under a second key (a str key cannot repeat in a python dict)
            ents.insert(rng.randrange(len(ents) + 1), [other, restriction(k)])
    # python dict keys: a str key may occur once
    out = []
    for key, gs in ents:
        if key[0] == "s":
            if key[1] in seen:
                continue
            seen.add(key[1])
        out.append([key, gs])
    ents = out
    if bad == "unknown-name":
        ents.insert(rng.randrange(len(ents) + 1), [_gen_key(rng, unknown), []])
    elif bad == "bad-type":
        ents.insert(rng.randrange(len(ents) + 1), [["x"], []])
    elif bad == "bad-grid" and names:
        k = rng.choice(names)
        outg = [g for g in allg if g not in live[k]] + [FOREIGN + rng.randrange(4)]
        ents = [e for e in ents if not (e[0] == ["s", k])]
        ents.insert(rng.randrange(len(ents) + 1), [["s", k], restriction(k) + [rng.choice(outg)]])
    return {"dict": ents}


def _gen_varlist(rng, atoms, bad):
    r = rng.random()
    if r < 0.25 and not bad:
        return None
    if r < 0.31 and not bad:
        return []
    items = []
    for _ in range(rng.randint(1, 3)):
        t = rng.random()
        a = rng.choice(atoms)
        if t < 0.35:
            items.append(["n", a["name"]])
        elif t < 0.7:
            items.append(["v", a["i"]])
        else:
            same = [b["i"] for b in atoms if b["name"] == a["name"] and b["on"] == a["on"]]
            items.append(["m", rng.sample(same, rng.randint(1, len(same)))])
    if rng.random() < 0.85:
        # no variable twice (the subset statement proper)
        seen, out = set(), []
        for it in items:
            ids = [b["i"] for b in atoms if b["name"] == it[1]] if it[0] == "n" else ([it[1]] if it[0] == "v" else it[1])
            if seen & set(ids) or len(set(ids)) < len(ids):
                continue
            seen |= set(ids)
            out.append(it)
        items = out
    if rng.random() < 0.08:
        items.append(["n", 7])  # a name nobody has: selects nothing
    if bad == "foreign-var":
        items.insert(rng.randrange(len(items) + 1), ["v", 1000 + rng.randrange(3)])
    elif bad == "bad-var":
        items.insert(rng.randrange(len(items) + 1), ["x"])
    return items


def gen_case(rng, tier):
    grids = _gen_grids(rng)
    vars_ = _gen_vars(rng, grids)
    atoms = _atoms(vars_)
    ops, live, nxt = [], {}, 0

    def do_set(name, bad=None):
        op = _gen_set(rng, grids, atoms, name, bad)
        ops.append(op)
        ok = name not in live and all(g < FOREIGN for g in op["grids"]) and len(set(op["grids"])) == len(op["grids"])
        if ok:
            live[name] = list(op["grids"])

    def do_update(bad):
        known = sorted(live)
        b = rng.choice(["foreign-grid", "repeated-grid", "unknown-default", "unknown-explicit"]) if bad or not known else None
        k = rng.choice(known) if known and b not in ("unknown-default", "unknown-explicit") else nxt + 7
        tmpl = _gen_set(rng, grids, atoms, k, b if b in ("foreign-grid", "repeated-grid") else None)
        op = {"op": "update_eq", "name": k, "expr": tmpl["expr"],
              "grids": tmpl["grids"] if b in ("foreign-grid", "repeated-grid", "unknown-explicit") or rng.random() < 0.5 else None,
              "per": tmpl["per"] if b == "unknown-explicit" or rng.random() < 0.5 else None}
        if "delta" in tmpl:
            op["delta"] = tmpl["delta"]
        ops.append(op)
        if k in live:
            new = op["grids"] if op["grids"] is not None else live[k]
            del live[k]
            if all(g < FOREIGN for g in new) and len(set(new)) == len(new):
                live[k] = list(new)   # remove + set: the updated equation is now the LAST one

    for _ in range(rng.randint(2, 5)):
        do_set(nxt)
        nxt += 1
    nops = rng.randint(6, 16 if tier == "quick" else 30)
    for _ in range(nops):
        t = rng.random()
        bad = rng.random() < 0.12
        if 0.12 <= t < 0.19:
            do_update(bad)
        elif t < 0.08 and live:
            k = rng.choice(sorted(live))
            ops.append({"op": "remove_eq", "name": k})
            del live[k]
            if rng.random() < 0.7:
                do_set(k)   # re-set under the same name: now the LAST equation
        elif t < 0.12:
            if bad:
                b = rng.choice(["dup-name", "foreign-grid", "repeated-grid", "unknown-remove"])
                if b == "dup-name" and live:
                    do_set(rng.choice(sorted(live)))
                elif b == "unknown-remove":
                    ops.append({"op": "remove_eq", "name": nxt + 5})
                else:
                    do_set(nxt, b)
                    nxt += 1
            else:
                do_set(nxt)
                nxt += 1
        else:
            jac = rng.random() < 0.75
            kind = rng.choice(["unknown-name", "bad-type", "bad-grid", "foreign-var", "bad-var"]) if bad else None
            req = _gen_request(rng, live, grids, kind if kind in ("unknown-name", "bad-type", "bad-grid") else None)
            vs = _gen_varlist(rng, atoms, kind if kind in ("foreign-var", "bad-var") else None) if jac or rng.random() < 0.3 else None
            op = {"op": "assemble", "jac": jac, "slot": 1 if rng.random() < 0.25 else 0, "eqs": req, "vars": vs}
            if req is not None and "dict" in req:
                order = list(live)
                seq = []
                for key, _ in req["dict"]:
                    if key[0] in "so" and key[1] in live and key[1] not in seq:
                        seq.append(key[1])
                if len(seq) >= 2 and seq != sorted(seq, key=order.index):
                    op["tag"] = "perm-dict"
            ops.append(op)
    return {"grids": grids, "vars": vars_, "ops": ops}


# ----------------------------------------------------------------------------- evidence helpers
def nontrivial(case):
    tr = _trace(case)
    grid_sub = var_sub = res = False
    for rec in tr["recs"]:
        op = rec["op"]
        if op["op"] != "assemble" or "err" in rec:
            continue
        if not op["jac"]:
            res = True
            continue
        if op["eqs"] is not None and any(gs is not None for _, gs in _flatten(op["eqs"])) and 0 < len(rec["b"]) < rec["full"][1].size:
            grid_sub = True
        if op["vars"] and 0 < _dense(rec["A"]).shape[1] < tr["ndofs"]:
            var_sub = True
    return grid_sub and var_sub and res


def shrink_candidates(case):
    ops = case["ops"]
    for i in range(len(ops) - 1, -1, -1):
        yield dict(case, ops=ops[:i] + ops[i + 1:])
    for i, op in enumerate(ops):
        if op["op"] == "assemble":
            if op["vars"] is not None:
                yield dict(case, ops=ops[:i] + [dict(op, vars=None)] + ops[i + 1:])
            if op["slot"] == 1:
                yield dict(case, ops=ops[:i] + [dict(op, slot=0)] + ops[i + 1:])
            req = op["eqs"]
            if req is not None:
                f = "list" if "list" in req else "dict"
                for j in range(len(req[f])):
                    yield dict(case, ops=ops[:i] + [dict(op, eqs={f: req[f][:j] + req[f][j + 1:]})] + ops[i + 1:])
        if op["op"] in ("set_eq", "update_eq") and len(op["expr"]["terms"]) > 1:
            yield dict(case, ops=ops[:i] + [dict(op, expr={"terms": op["expr"]["terms"][:1]})] + ops[i + 1:])


def stats(cases, impl_outs):
    st = {"cases": len(cases), "set_eq": 0, "set_eq_err": 0, "remove_eq": 0, "update_eq": 0, "update_eq_err": 0, "update_defaults": 0,
          "operators_not_as_declared": 0, "perm_dict_requests": 0, "assemble": 0, "assemble_err": 0, "forms": {},
          "jac": 0, "res_only": 0, "explicit_state": 0, "vars_none": 0, "vars_empty": 0, "vars_subset": 0, "zero_row_results": 0,
          "err_kinds": {}, "subdomains": {}, "interfaces": {}}
    for c, out in zip(cases, impl_outs):
        ns = sum(1 for g in c["grids"] if g["kind"] == "sub")
        st["subdomains"][str(ns)] = st["subdomains"].get(str(ns), 0) + 1
        ni = len(c["grids"]) - ns
        st["interfaces"][str(ni)] = st["interfaces"].get(str(ni), 0) + 1
        for op, o in zip(c["ops"], out if isinstance(out, list) else []):
            e = o.get("err") if isinstance(o, dict) else None
            if e:
                st["err_kinds"][e] = st["err_kinds"].get(e, 0) + 1
            if "delta" in op:
                st["operators_not_as_declared"] += 1
            if op["op"] == "set_eq":
                st["set_eq"] += 1
                st["set_eq_err"] += 1 if e else 0
            elif op["op"] == "update_eq":
                st["update_eq"] += 1
                st["update_eq_err"] += 1 if e else 0
                st["update_defaults"] += 1 if op["grids"] is None or op["per"] is None else 0
            elif op["op"] == "remove_eq":
                st["remove_eq"] += 1
            else:
                st["assemble"] += 1
                st["assemble_err"] += 1 if e else 0
                st["perm_dict_requests"] += 1 if op.get("tag") == "perm-dict" else 0
                f = _form(op)
                st["forms"][f] = st["forms"].get(f, 0) + 1
                st["jac" if op["jac"] else "res_only"] += 1
                st["explicit_state"] += op["slot"]
                if op["jac"]:
                    st["vars_none" if op["vars"] is None else ("vars_empty" if not op["vars"] else "vars_subset")] += 1
                if isinstance(o, dict) and "b" in o and not o["b"]:
                    st["zero_row_results"] += 1
    return st
