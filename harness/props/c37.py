"""C37 Block-diagonal inversion returns the true inverse (invert_diagonal_blocks python/numba,
generate_permutation_to_block_diag_matrix, invert_permuted_block_diag_matrix)."""
import warnings
import numpy as np
import scipy.sparse as sps
from fractions import Fraction
from harness.common import frac, err_kind, deep_compare

PID = "C37"
THEOREMS = [
    "PorepyVerif.C37.blockdiag_inv",
    "PorepyVerif.C37.blockdiag_isUnit_iff",
    "PorepyVerif.C37.perm_inv",
    "PorepyVerif.C37.perm_isUnit_iff",
    "PorepyVerif.C37.permuted_blockdiag_inv",
    "PorepyVerif.C37.closed_pattern_blockdiag",
    "PorepyVerif.C37.components_give_blocks",
    "PorepyVerif.C37.gaussJordan_left_inverse",
    "PorepyVerif.C37.gaussJordan_correct_partial",
    "PorepyVerif.C37.gaussJordan_complete",
    "PorepyVerif.C37.gaussJordan_correct",
    "PorepyVerif.C37.invertDiagonalBlocks_correct",
    "PorepyVerif.C37.invertPermuted_correct",
    "PorepyVerif.C37.invertDiagonalBlocks_correct_checked",
    "PorepyVerif.C37.invertPermuted_correct_checked",
    "PorepyVerif.C37.permSearch_invert_correct",
    "PorepyVerif.C37.invertDiagonalBlocksOpt_spec",
    "PorepyVerif.C37.blockDiagIndex_rect_square",
    "PorepyVerif.C37.invertAll_correct",
    "PorepyVerif.C37.components_closed",
    "PorepyVerif.C37.components_minimal",
    "PorepyVerif.C37.components_partition",
    "PorepyVerif.C37.permSearch_blocks_square",
    "PorepyVerif.C37.blockDiag_layout",
]
LEAN_MODULES = ["PorepyVerif.C37.Props"]
AUDIT = "PorepyVerif/C37/Audit.lean"
DRIVER = "PorepyVerif/C37/Driver.lean"
N = {"quick": 80, "thorough": 700}
TOL = 1e-9
RULE = ("a case = 1-8 diagonal blocks of sizes 1-6 (1x1 blocks frequent; thorough: up to 14 blocks); valid cases are STRATIFIED: the 16 "
        "combinations of (csr|csc storage of the block-diagonal matrix) x (uniform|non-uniform block sizes) x (all blocks full|some zero "
        "entries) x (all blocks symmetric|some block non-symmetric) are visited cyclically, every second round in canonical storage, so "
        "each combination occurs at least twice (once canonically) in every quick run; every 7th case is a CORNER stratum (cyclically: "
        "1x1 matrix, all blocks 1x1, values scaled by 2^20 / 2^-20, identity / reversed / symmetric permutation, zero sizes at both "
        "ends, unsorted indices in both matrices, duplicate stored entries in both matrices, repeated call on the same objects) and "
        "every 13th case a neighbouring ENTRY POINT (method=None, unknown method, coo / lil input, two-argument block_diag_index with "
        "and without zero sizes); block values = row-wise strictly "
        "diagonally dominant small integers or dyadics (so binary64 holds them exactly and the exact inverse has moderate rationals), "
        "off-diagonal entries zero with probability 0/0.3/0.6/0.9 (blocks may split into finer components), rows of a block optionally "
        "shuffled (zero diagonal entries, pivoting needed); the block-diagonal matrix is stored as csr or csc, optionally with unsorted "
        "indices inside a line, explicitly stored zeros inside the blocks and zero entries in the size vector; the permuted matrix "
        "M[pr[i], pc[j]] = BD[i, j] uses random row/column permutations and the same storage variations. Streams: 84% valid, 10% "
        "malformed (singular block by a zero row / zero column / duplicate row; non-square or one-sided-empty matrix; empty matrix), "
        "4% duplicate stored entries, 2% zeros stored outside the block pattern of the permuted matrix. Non-trivial = valid stream "
        "with >= 2 blocks and a block of size >= 2; distinct = distinct cases")
TRUSTED = [
    "modelled, not verified: np.linalg.inv / LAPACK getrf+getri inside numba and numpy (model: exact Gauss-Jordan over the rationals, "
    "compared with tolerance 1e-9), binary64 rounding, numba prange, scipy csr/csc constructors, ArraySlicer slicing (property C36), "
    "np.searchsorted on the block-wise monotone index array, networkx.connected_components (model: label merging over the edge list; "
    "compared as partitions, the order of the components is networkx's), the ValueError of ArraySlicer on empty index arrays (0x0 matrix, "
    "mirrored in the harness, not in the Lean model)",
    "the reading of a list-of-rows matrix as a Mathlib matrix (toMatrix) used by gaussJordan_correct_partial",
    "the abstract theorems (blockdiag_inv, perm_inv, permuted_blockdiag_inv, components_give_blocks) are about Mathlib matrices over any field; "
    "they are tied to the executable model only through the run-time identity checks of the driver and the correspondence check",
    "the real code runs in child processes with NUMBA_NUM_THREADS=2 (a crash of the compiled kernel is an outcome, not a harness error); "
    "cases that store entries outside the block pattern get a process of their own",
    "on singular blocks only the python path and the permutation search are compared: numba loses exceptions raised inside prange, so the "
    "numba paths answer ValueError or return unspecified numbers depending on thread scheduling (counted in input_distribution.numba_on_singular)",
]
EXPLANATION = (
    "FULL (algebra, Mathlib matrices over an arbitrary field): blockdiag_inv / blockdiag_isUnit_iff (inverse of a block-diagonal matrix = "
    "block diagonal of the inverses, invertible iff all blocks are), perm_inv / perm_isUnit_iff (B = P_r A P_c implies A^-1 = P_c B^-1 P_r; "
    "re-indexing by bijections preserves invertibility), permuted_blockdiag_inv (their composition = what invert_permuted_block_diag_matrix "
    "computes), closed_pattern_blockdiag + components_give_blocks (a row/column classification closed under the non-zero pattern of an "
    "invertible matrix exposes square, two-sided invertible blocks: the 'Block mismatch' assertion cannot fire on nonsingular input). "
    "CORE (executable model over exact rationals): gaussJordan_left_inverse, gaussJordan_correct_partial, gaussJordan_complete and "
    "gaussJordan_correct are THEOREMS: the exact Gauss-Jordan returns some X exactly when the matrix is nonsingular, and then X*A = I on "
    "lists and A*X = 1, X*A = 1, A^-1 = X as Mathlib matrices. invertAll_correct, blockDiag_layout (zero sizes dropped, diagonal blocks "
    "extracted, indices/indptr/data are the row-wise listing of the inverted blocks), invertDiagonalBlocks_correct (a matrix that equals "
    "the block-diagonal assembly of its own diagonal blocks is inverted by invert_diagonal_blocks as a whole) and invertPermuted_correct "
    "(for permutations rp, cp such that A[rp][:, cp] is block diagonal with the given sizes, the model of "
    "invert_permuted_block_diag_matrix returns A^-1) are THEOREMS too, so the exact identity check A*X = I = X*A that the driver performs "
    "on every case is redundancy now (a failure would be answered as model-failure). components_closed + components_minimal (the label "
    "classes are exactly the connected components of the bipartite pattern graph), components_partition (row_perm is a permutation; "
    "col_perm is one when no row is all zero; the hypothesis is necessary, with an example of a duplicate in col_perm for a zero row i and "
    "a zero column j != i), permSearch_blocks_square (meaning of the returned triple; every non-zero lies inside a reported square block). "
    "The hypotheses of the two pipeline theorems are packaged as decidable input conditions (blockHyp, pipelineHyp; theorems "
    "invertDiagonalBlocks_correct_checked, invertPermuted_correct_checked, permSearch_invert_correct) which the driver evaluates on every "
    "case (answer field hyp_ok; false on a nonsingular block-diagonal case counts as a disagreement). Neighbouring entry points: "
    "invertDiagonalBlocksOpt_spec (method None/numba/python vs unknown method = ValueError, non csr/csc input = TypeError) and "
    "blockDiagIndex_rect_square (two-argument block_diag_index). NOT proved for all inputs: that the triple returned by permSearch always "
    "satisfies pipelineHyp (proved in membership form, permSearch_blocks_square; checked per case by the driver), and completeness of "
    "the two pipelines (nonsingular input implies some). The oracle additionally checks that no inverter modifies its arguments and that "
    "a repeated call gives the same result. "
    "Correspondence: csr layout (format, shape, indices, indptr) exact, inverse values with "
    "tolerance 1e-9 for the python and numba paths, the permutation as a partition (sorted blocks), the permuted inverse with the computed "
    "and with the generator's permutation, error kinds for singular / non-square / empty input. The oracle checks the property on the real "
    "code independently of the model (residuals of both inverters, layout, permutation validity, block-diagonality, blocks = connected "
    "components by an independent union-find, residual of the permuted inverter). Findings of this check (stored zeros outside the block pattern and duplicate stored entries broke the inverters) were repaired in "
    "/repo (fix: block-diagonal inversion mishandled explicitly stored zeros and duplicate entries); the model uses value semantics.")
ASSUMPTIONS = ["block values are exactly representable in binary64 and well conditioned (row-wise diagonally dominant up to a row permutation), so that the LAPACK result is within 1e-9 of the exact rational inverse",
               "singular malformed blocks with a zero row or a zero column are detected exactly by LAPACK (the zero line stays exactly zero under any order of the updates); a duplicated row is NOT (blocked elimination): there only the permutation search is compared"]

_warm = {"done": False}
_flags = []  # side-effect observations of the current case (inputs modified, repeated call differs); read by the oracle


def _mo():
    from porepy.numerics.linalg import matrix_operations as mo
    return mo


# ----------------------------------------------------------------------------- case construction
def _F(s):
    return Fraction(s)


def _store(dense, fmt, extra_zero_pos, shuffle_rng, dups):
    """Compressed arrays of the dense Fraction matrix `dense` (list of rows): stored entries are the non-zeros plus the
    positions in `extra_zero_pos`; `dups` = list of (i, j, part) splits the entry (i, j) into two stored entries
    `part` and `value - part`; `shuffle_rng` (or None) shuffles the order inside each major line."""
    nr = len(dense)
    nc = len(dense[0]) if nr else 0
    lines = [[] for _ in range(nr if fmt == "csr" else nc)]
    zset = {tuple(p) for p in extra_zero_pos}
    dmap = {(i, j): _F(p) for i, j, p in dups}
    for i in range(nr):
        for j in range(nc):
            v = dense[i][j]
            if v != 0 or (i, j) in zset:
                major, minor = (i, j) if fmt == "csr" else (j, i)
                if (i, j) in dmap:
                    lines[major].append((minor, dmap[(i, j)]))
                    lines[major].append((minor, v - dmap[(i, j)]))
                else:
                    lines[major].append((minor, v))
    indptr, indices, data = [0], [], []
    for ln in lines:
        if shuffle_rng is not None:
            shuffle_rng.shuffle(ln)
        indices += [m for m, _ in ln]
        data += [frac(v) for _, v in ln]
        indptr.append(len(indices))
    return {"fmt": fmt, "shape": [nr, nc], "indptr": indptr, "indices": indices, "data": data}


def _to_scipy(m):
    cls = sps.csr_matrix if m["fmt"] == "csr" else sps.csc_matrix
    data = np.array([float(Fraction(x)) for x in m["data"]], dtype=float)
    # direct construction: no sorting, no summation of duplicates, explicit zeros kept
    return cls((data, np.array(m["indices"], dtype=np.int32), np.array(m["indptr"], dtype=np.int32)), shape=tuple(m["shape"]))


def _dense(m):
    """exact dense value (Fractions) of a stored matrix, scipy value semantics"""
    nr, nc = m["shape"]
    d = [[Fraction(0)] * nc for _ in range(nr)]
    for major in range(len(m["indptr"]) - 1):
        for k in range(m["indptr"][major], m["indptr"][major + 1]):
            i, j = (major, m["indices"][k]) if m["fmt"] == "csr" else (m["indices"][k], major)
            d[i][j] += Fraction(m["data"][k])
    return d


def _blockdiag(blocks):
    n = sum(len(b) for b in blocks)
    bd = [[Fraction(0)] * n for _ in range(n)]
    o = 0
    for b in blocks:
        for i, r in enumerate(b):
            for j, x in enumerate(r):
                bd[o + i][o + j] = x
        o += len(b)
    return bd


def _components(dense):
    """connected components of the bipartite non-zero pattern graph (plain union-find, independent of the Lean model and of
    networkx): returns (component id of every row, component id of every column); an all-zero row/column is alone"""
    nr = len(dense)
    nc = len(dense[0]) if nr else 0
    parent = list(range(nr + nc))

    def find(x):
        while parent[x] != x:
            parent[x] = parent[parent[x]]
            x = parent[x]
        return x
    for i in range(nr):
        for j in range(nc):
            if dense[i][j] != 0:
                a, b = find(i), find(nr + j)
                if a != b:
                    parent[b] = a
    return [find(i) for i in range(nr)], [find(nr + j) for j in range(nc)]


def _block(rng, s, kind):
    dens = rng.choice([0.0, 0.3, 0.6, 0.9])
    den = rng.choice([1, 1, 2, 4])
    B = [[Fraction(0)] * s for _ in range(s)]
    for i in range(s):
        tot = Fraction(0)
        for j in range(s):
            if i != j and rng.random() >= dens:
                B[i][j] = Fraction(rng.randint(-3, 3), den)
                tot += abs(B[i][j])
        B[i][i] = (tot + Fraction(rng.randint(1, 4), den)) * rng.choice([1, 1, -1])
    if rng.random() < 0.35:  # shuffled rows: zero diagonal entries, still well conditioned
        rng.shuffle(B)
    return B


def _block_s(rng, s, full, sym):
    """block for a stratum: `full` = no zero entry, otherwise off-diagonal zeros with density 0.3/0.6/0.9; `sym` = symmetric.
    Row-wise strictly diagonally dominant in both cases."""
    dens = 0.0 if full else rng.choice([0.3, 0.6, 0.9])
    den = rng.choice([1, 1, 2, 4])
    vals = [v for v in range(-3, 4) if v != 0]
    B = [[Fraction(0)] * s for _ in range(s)]
    for i in range(s):
        for j in range(s):
            if i == j or (sym and j < i):
                continue
            if rng.random() >= dens:
                B[i][j] = Fraction(rng.choice(vals), den)
            if sym:
                B[j][i] = B[i][j]
    for i in range(s):
        tot = sum(abs(B[i][j]) for j in range(s) if j != i)
        B[i][i] = (tot + Fraction(rng.randint(1, 4), den)) * rng.choice([1, 1, -1])
    if not sym and rng.random() < 0.35:  # shuffled rows: zero diagonal entries (only if sparse), still well conditioned
        rng.shuffle(B)
    return B


def _stratum_of(blocks, fmt):
    """(storage format of the block-diagonal matrix, uniform block sizes?, all blocks full?, all blocks symmetric?)"""
    sizes = [len(b) for b in blocks]
    return [fmt, len(set(sizes)) <= 1,
            all(x != 0 for b in blocks for r in b for x in r),
            all(b[i][j] == b[j][i] for b in blocks for i in range(len(b)) for j in range(len(b)))]


STRATA = [(fmt, uni, full, sym) for fmt in ("csr", "csc") for uni in (True, False) for full in (True, False) for sym in (True, False)]
_strat = {"k": 0}  # number of stratified cases generated so far in this process


def _stratified_blocks(rng, tier, uni, full, sym):
    """sizes and blocks with exactly the requested properties (rejection sampling on top of a guided generator)"""
    maxb = 8 if tier == "quick" else 14
    for _ in range(200):
        if uni:
            nb = rng.choice([1, 2, 2, 3, 3, 4, 6, maxb])
            sizes = [rng.choice([2, 2, 3, 3, 4, 5, 6] if not (full and sym) else [1, 2, 2, 3, 3, 4, 5, 6])] * nb
        else:
            nb = rng.choice([2, 2, 3, 3, 4, 5, 6, 7, maxb])
            sizes = [rng.choice([1, 1, 2, 2, 3, 3, 4, 5, 6]) for _ in range(nb)]
        blocks = [_block_s(rng, s, full, sym) for s in sizes]
        if _stratum_of(blocks, "x")[1:] == [uni, full, sym]:
            return sizes, blocks
    raise RuntimeError("stratified generator failed")


def _make_singular(rng, B):
    s = len(B)
    how = rng.choice(["zero_row", "zero_col", "dup_row"] if s > 1 else ["zero_row"])
    if how == "zero_row":
        B[rng.randrange(s)] = [Fraction(0)] * s
    elif how == "zero_col":
        j = rng.randrange(s)
        for r in B:
            r[j] = Fraction(0)
    else:
        i, k = rng.sample(range(s), 2)
        B[k] = list(B[i])
    return how


def _assemble(blocks, sizes_arg, pr, pc, fmt_bd, fmt_m, kind, rng=None, variations=None, sing=None):
    """Build the case dict.  `variations` (explicit, so that a case replays without the generator):
       {"shuffle_bd": seed|None, "shuffle_m": seed|None, "zeros_bd": [[i,j]..], "zeros_m": [[i,j]..], "dups_bd": [...], "dups_m": [...]}"""
    import random
    v = dict(shuffle_bd=None, shuffle_m=None, zeros_bd=[], zeros_m=[], dups_bd=[], dups_m=[])
    v.update(variations or {})
    sizes = [len(b) for b in blocks]
    n = sum(sizes)
    bd = _blockdiag(blocks)
    m = [[Fraction(0)] * n for _ in range(n)]
    for i in range(n):
        for j in range(n):
            m[pr[i]][pc[j]] = bd[i][j]
    case = {
        "kind": kind,
        "sizes": sizes,
        "sizes_arg": sizes_arg,
        "blocks": [[[frac(x) for x in r] for r in b] for b in blocks],
        "pr": pr, "pc": pc,
        "variations": v,
        "bd": _store(bd, fmt_bd, v["zeros_bd"], random.Random(v["shuffle_bd"]) if v["shuffle_bd"] is not None else None, v["dups_bd"]),
        "m": _store(m, fmt_m, v["zeros_m"], random.Random(v["shuffle_m"]) if v["shuffle_m"] is not None else None, v["dups_m"]),
    }
    if sing:
        case["singular_how"] = sing
    return case


def _with_zero_sizes(rng, sizes):
    out = []
    for s in sizes:
        while rng.random() < 0.25:
            out.append(0)
        out.append(s)
    if rng.random() < 0.3:
        out.append(0)
    return out


CORNERS = ["n1", "all_1x1", "scale_up", "scale_down", "perm_identity", "perm_reverse", "perm_symmetric", "zero_sizes_ends",
           "unsorted", "dups", "repeat"]
EXTRAS = ["method_none", "bdi", "method_unknown", "format_coo", "bdi_zero", "method_unknown_format_lil"]
_calls = {"n": 0, "corner": 0, "extra": 0}


def _gen_corner(rng, tier, name):
    """valid cases for corner classes that the 16 strata do not single out (explicit strata, visited cyclically)"""
    import random
    if name == "n1":
        sizes, blocks = [1], [[[Fraction(rng.choice([-3, 2, 5]), rng.choice([1, 4]))]]]
    elif name == "all_1x1":
        nb = rng.randint(2, 8)
        sizes, blocks = [1] * nb, [[[Fraction(rng.choice([-4, -1, 1, 2, 3]), rng.choice([1, 2]))]] for _ in range(nb)]
    else:
        sizes, blocks = _stratified_blocks(rng, tier, rng.random() < 0.5, rng.random() < 0.5, False)
    if name in ("scale_up", "scale_down"):
        f = Fraction(2) ** (20 if name == "scale_up" else -20)
        blocks = [[[x * f for x in r] for r in b] for b in blocks]
    n = sum(sizes)
    pr, pc = list(range(n)), list(range(n))
    if name == "perm_reverse":
        pr, pc = pr[::-1], pc[::-1]
    elif name == "perm_symmetric":
        rng.shuffle(pr)
        pc = list(pr)
    elif name != "perm_identity":
        rng.shuffle(pr)
        rng.shuffle(pc)
    var = {}
    if name == "unsorted":
        var = {"shuffle_bd": rng.randrange(10**6), "shuffle_m": rng.randrange(10**6)}
    if name == "dups":
        nz = []
        o = 0
        for b in blocks:
            nz += [(o + i, o + j, b[i][j]) for i in range(len(b)) for j in range(len(b)) if b[i][j] != 0]
            o += len(b)
        picks = rng.sample(nz, min(len(nz), 3))
        var = {"dups_bd": [[i, j, frac(x / 2)] for i, j, x in picks], "dups_m": [[pr[i], pc[j], frac(x + 1)] for i, j, x in picks]}
    sizes_arg = [0, 0] + list(sizes) + [0] if name == "zero_sizes_ends" else list(sizes)
    case = _assemble(blocks, sizes_arg, pr, pc, rng.choice(["csr", "csc"]), rng.choice(["csr", "csc"]), "valid", variations=var)
    case["corner"] = name
    if name == "repeat":
        case["repeat"] = True
    return case


def _gen_extra(rng, tier, name):
    """neighbouring entry points: option handling of invert_diagonal_blocks, two-argument block_diag_index"""
    if name.startswith("bdi"):
        k = rng.randint(1, 5)
        lo = 0 if name == "bdi_zero" else 1
        m = [rng.randint(lo, 4) for _ in range(k)]
        nn = [rng.randint(lo, 4) for _ in range(k)]
        if rng.random() < 0.3:
            nn = list(m)
        return {"kind": "bdi", "sub": name, "bm": m, "bn": nn}
    sizes, blocks = _stratified_blocks(rng, tier, rng.random() < 0.5, True, False)
    n = sum(sizes)
    case = _assemble(blocks, list(sizes), list(range(n)), list(range(n)), "csr", "csr", "options")
    case["sub"] = name
    case["method"] = {"method_none": None, "method_unknown": "cython", "format_coo": rng.choice([None, "python", "numba"]),
                      "method_unknown_format_lil": "scipy"}[name]
    case["as_format"] = {"format_coo": "coo", "method_unknown_format_lil": "lil"}.get(name, rng.choice(["csr", "csc"]))
    return case


def gen_case(rng, tier):
    idx = _calls["n"]
    _calls["n"] += 1
    if idx % 7 == 3:
        name = CORNERS[_calls["corner"] % len(CORNERS)]
        _calls["corner"] += 1
        return _gen_corner(rng, tier, name)
    if idx % 13 == 6:
        name = EXTRAS[_calls["extra"] % len(EXTRAS)]
        _calls["extra"] += 1
        return _gen_extra(rng, tier, name)
    u = rng.random()
    kind = "valid" if u < 0.84 else "malformed" if u < 0.94 else "dup_entries" if u < 0.98 else "stored_zeros_offblock"
    if kind == "malformed":
        sub = rng.choice(["singular", "singular", "singular", "nonsquare", "empty"])
        if sub == "nonsquare":
            nr, nc = rng.choice([(0, 3), (2, 0), (2, 3), (4, 2), (1, 5)])
            d = [[Fraction(rng.choice([0, 1, 2])) for _ in range(nc)] for _ in range(nr)]
            return {"kind": "nonsquare", "m": _store(d, rng.choice(["csr", "csc"]), [], None, []) if nr else
                    {"fmt": "csr", "shape": [nr, nc], "indptr": [0] * (nr + 1), "indices": [], "data": []}}
        if sub == "empty":
            return _assemble([], _with_zero_sizes(rng, []), [], [], rng.choice(["csr", "csc"]), rng.choice(["csr", "csc"]), "empty")
    maxb = 8 if tier == "quick" else 14
    strat = None
    if kind == "valid":
        # explicit stratification: storage format x uniform/non-uniform sizes x full/sparse blocks x symmetric/non-symmetric blocks;
        # the 16 combinations are visited cyclically, every second round with canonical storage (sorted, no stored zeros,
        # no zero sizes) and the format of the permuted matrix alternating every two rounds
        k = _strat["k"]
        _strat["k"] += 1
        strat = STRATA[k % 16]
        sizes, blocks = _stratified_blocks(rng, tier, *strat[1:])
        nb = len(sizes)
    else:
        nb = rng.choice([1, 2, 2, 3, 3, 4, 5, 6, 7, maxb])
        sizes = [rng.choice([1, 1, 2, 2, 3, 3, 4, 5, 6]) for _ in range(nb)]
        blocks = [_block(rng, s, kind) for s in sizes]
    sing = None
    if kind == "malformed":
        kind = "singular"
        sing = _make_singular(rng, blocks[rng.randrange(nb)])
    n = sum(sizes)
    pr = list(range(n))
    pc = list(range(n))
    if rng.random() < 0.9:
        rng.shuffle(pr)
        rng.shuffle(pc)
    elif rng.random() < 0.5:
        rng.shuffle(pr)
        pc = list(pr)  # symmetric permutation
    var = {}
    rcomp, ccomp = _components(_blockdiag(blocks))
    canonical = strat is not None and (k // 16) % 2 == 0
    if not canonical and rng.random() < 0.3:
        var["shuffle_bd"] = rng.randrange(10**6)
    if not canonical and rng.random() < 0.3:
        var["shuffle_m"] = rng.randrange(10**6)
    # explicit zeros inside the diagonal blocks (harmless for the block structure)
    if not canonical and rng.random() < 0.3:
        zs = []
        o = 0
        for b in blocks:
            for i in range(len(b)):
                for j in range(len(b)):
                    if b[i][j] == 0 and rng.random() < 0.3:
                        zs.append([o + i, o + j])
            o += len(b)
        var["zeros_bd"] = zs
        if rng.random() < 0.5:  # in the permuted matrix only inside the connected components of the pattern
            var["zeros_m"] = [[pr[i], pc[j]] for i, j in zs if rcomp[i] == ccomp[j]]
    if kind == "dup_entries":
        nz = []
        o = 0
        for b in blocks:
            nz += [(o + i, o + j, b[i][j]) for i in range(len(b)) for j in range(len(b)) if b[i][j] != 0]
            o += len(b)
        picks = rng.sample(nz, min(len(nz), rng.randint(1, 3)))
        where = rng.choice(["bd", "m"])
        if where == "bd":
            var["dups_bd"] = [[i, j, frac(x / 2 if rng.random() < 0.5 else x + 1)] for i, j, x in picks]
        else:
            var["dups_m"] = [[pr[i], pc[j], frac(x / 2 if rng.random() < 0.5 else x + 1)] for i, j, x in picks]
    if kind == "stored_zeros_offblock":
        off = [(i, j) for i in range(n) for j in range(n) if rcomp[i] != ccomp[j]]
        if not off:
            kind = "valid"
        else:
            var["zeros_m"] = var.get("zeros_m", []) + [[pr[i], pc[j]] for i, j in rng.sample(off, min(len(off), rng.randint(1, 4)))]
    if strat is not None:
        case = _assemble(blocks, _with_zero_sizes(rng, sizes) if (not canonical and rng.random() < 0.25) else list(sizes), pr, pc,
                         strat[0], ("csr", "csc")[(k // 32) % 2], kind, variations=var)
    else:
        case = _assemble(blocks, _with_zero_sizes(rng, sizes) if rng.random() < 0.25 else list(sizes), pr, pc,
                         rng.choice(["csr", "csr", "csc"]), rng.choice(["csr", "csr", "csc"]), kind, variations=var, sing=sing)
    # the permuted inverter is also run with the generator's own (possibly coarser) permutation when that differs from the
    # computed one, i.e. when a block splits into several components, and on a third of the other cases
    if not (len(set(rcomp)) > len(sizes) or kind != "valid" or rng.random() < 0.34):
        case["skip_given"] = True
    return case


# ----------------------------------------------------------------------------- real code (runs inside the worker process)
# numba compiles the block inverter without bounds checks: a wrong index (a defect, a mutation, a stored zero outside the block
# pattern) can corrupt the heap and abort the interpreter.  All calls into porepy therefore run in a child process
# (`_Worker`); a crash of the child is reported as an outcome ({"err": "CRASH"}), never as a harness error.
def _warmup():
    if not _warm["done"]:
        mo = _mo()
        with warnings.catch_warnings():
            warnings.simplefilter("ignore")
            mo.invert_diagonal_blocks(sps.csr_matrix(np.eye(2)), np.array([2]), method="numba")
        _warm["done"] = True


def _fl(x):
    return frac(float(x))


def _snapshot(A):
    return (A.format, A.shape, A.data.copy(), A.indices.copy(), A.indptr.copy())


def _same(A, snap):
    return (A.format == snap[0] and A.shape == snap[1] and np.array_equal(A.data, snap[2]) and np.array_equal(A.indices, snap[3])
            and np.array_equal(A.indptr, snap[4]))


def _blockinv(case, method):
    mo = _mo()
    A = _to_scipy(case["bd"])
    snap = _snapshot(A)
    sz = np.array(case["sizes_arg"], dtype=int)
    try:
        X = mo.invert_diagonal_blocks(A, sz, method=method)
        if case.get("repeat"):  # repeated operation on the same objects: same answer
            X2 = mo.invert_diagonal_blocks(A, sz, method=method)
            if not (np.array_equal(X.data, X2.data) and np.array_equal(X.indices, X2.indices) and np.array_equal(X.indptr, X2.indptr)):
                _flags.append(f"second call of invert_diagonal_blocks(method={method}) on the same matrix gave a different result")
    except Exception as e:
        return err_kind(e), None
    finally:
        if not _same(A, snap) or not np.array_equal(sz, np.array(case["sizes_arg"], dtype=int)):
            _flags.append(f"invert_diagonal_blocks(method={method}) modified its input")
    return {"fmt": X.format, "shape": [int(s) for s in X.shape], "indices": [int(i) for i in X.indices], "indptr": [int(i) for i in X.indptr],
            "data": [_fl(x) for x in X.data], "dense": [[_fl(x) for x in r] for r in X.toarray()]}, X


def _perm(case):
    mo = _mo()
    M = _to_scipy(case["m"])
    try:
        rp, cp, bs = mo.generate_permutation_to_block_diag_matrix(M)
    except Exception as e:
        return err_kind(e), None
    rp, cp, bs = [int(i) for i in rp], [int(i) for i in cp], [int(i) for i in bs]
    return {"blocks": _blocks_of(rp, cp, bs)}, (rp, cp, bs)


def _blocks_of(rp, cp, bs):
    out, o = [], 0
    for s in bs:
        out.append([sorted(rp[o:o + s]), sorted(cp[o:o + s])])
        o += s
    return sorted(out)


def _perminv(case, perm):
    mo = _mo()
    M = _to_scipy(case["m"])
    snap = _snapshot(M)
    args = [np.array(perm[0], dtype=np.int32), np.array(perm[1], dtype=np.int32), np.array(perm[2], dtype=np.int32)]
    try:
        X = mo.invert_permuted_block_diag_matrix(M, *args)
    except Exception as e:
        return err_kind(e), None
    finally:
        if not _same(M, snap) or any(not np.array_equal(a, np.array(p, dtype=np.int32)) for a, p in zip(args, perm)):
            _flags.append("invert_permuted_block_diag_matrix modified its input")
    return {"dense": [[_fl(x) for x in r] for r in X.toarray()]}, X


def _given_perm(case):
    """the generator's own permutation into block-diagonal form: row_perm[k] = pr[k] etc. (coarser than the components if a block splits)"""
    return list(case["pr"]), list(case["pc"]), list(case["sizes"])


def _real_run(case):
    """every call of the real code for one case: canonical outputs + the raw results the oracle needs"""
    _warmup()
    raw = {}
    with warnings.catch_warnings():
        warnings.simplefilter("ignore")
        del _flags[:]
        if case["kind"] == "nonsquare":
            return {"perm": _perm(case)[0]}, raw
        if case["kind"] == "bdi":
            try:
                i, j = _mo().block_diag_index(np.array(case["bm"], dtype=int), np.array(case["bn"], dtype=int))
                return {"bdi": {"i": [int(x) for x in i], "j": [int(x) for x in j]}}, raw
            except Exception as e:
                return {"bdi": err_kind(e)}, raw
        if case["kind"] == "options":
            A = _to_scipy(case["bd"]).asformat(case["as_format"])
            try:
                X = _mo().invert_diagonal_blocks(A, np.array(case["sizes_arg"], dtype=int), method=case["method"])
                raw["opt"] = X
                return {"opt": {"fmt": X.format, "shape": [int(v) for v in X.shape], "indices": [int(i) for i in X.indices],
                                "indptr": [int(i) for i in X.indptr], "data": [_fl(x) for x in X.data],
                                "dense": [[_fl(x) for x in r] for r in X.toarray()]}}, raw
            except Exception as e:
                return {"opt": err_kind(e)}, raw
        out = {}
        for method in ("python", "numba"):
            out[method], raw[method] = _blockinv(case, method)
        out["perm"], raw["perm"] = _perm(case)
        # the generator's permutation first: with the computed one the open finding (stored zeros outside the components) may
        # corrupt memory, which must not spill over into the other result
        if not case.get("skip_given"):
            out["perminv_given"], raw["given"] = _perminv(case, _given_perm(case))
        if raw["perm"] is not None:
            out["perminv_found"], raw["found"] = _perminv(case, raw["perm"])
        else:
            out["perminv_found"], raw["found"] = {"err": "no-permutation"}, None
        raw["flags"] = list(_flags)
    return out, raw


# ----------------------------------------------------------------------------- worker process
class _Worker:
    def __init__(self):
        self.p = None

    def start(self):
        import subprocess, sys, os
        env = dict(os.environ)
        env["PYTHONPATH"] = os.pathsep.join([q for q in sys.path if q])
        env.setdefault("NUMBA_NUM_THREADS", "2")  # prange stays parallel; more threads only add contention on a busy machine
        self.p = subprocess.Popen([sys.executable, "-c", "from harness.props import c37; c37._worker_main()"], stdin=subprocess.PIPE,
                                  stdout=subprocess.PIPE, stderr=subprocess.DEVNULL, text=True, env=env, cwd=os.getcwd())

    def call(self, fn, case):
        import json
        if self.p is None or self.p.poll() is not None:
            self.start()
        try:
            self.p.stdin.write(json.dumps({"fn": fn, "case": case}) + "\n")
            self.p.stdin.flush()
            line = self.p.stdout.readline()
        except (BrokenPipeError, OSError):
            line = ""
        if not line:
            rc = self.p.wait()
            self.p = None
            return {"crash": rc}
        return json.loads(line)

    def stop(self):
        if self.p is not None:
            try:
                self.p.kill()
                self.p.wait()
            except Exception:
                pass
            self.p = None


_pool = {"clean": None, "spare": None, "risky": None, "risky_key": None, "crashes": 0, "cache_warm": False}
MAX_CRASHES = 3      # after that many crashes of the shared worker the real code is not run any more in this process
# total number of shrink candidates per process (each one costs a run of the real code; a candidate that needs a worker process
# of its own costs an interpreter start)
SHRINK_BUDGET = {"left": 200, "risky_left": 4}


def _fresh():
    """a started worker; the next one is started right away so that its import of porepy overlaps with the work of the parent"""
    w = _pool["spare"]
    if w is None or w.p is None or w.p.poll() is not None:
        w = _Worker()
        w.start()
    _pool["spare"] = None
    if _pool["cache_warm"]:  # otherwise the spare would compile the numba kernel a second time, concurrently
        _pool["spare"] = _Worker()
        _pool["spare"].start()
    return w


def _shutdown():
    for k in ("clean", "spare", "risky"):
        if _pool[k] is not None:
            _pool[k].stop()
            _pool[k] = None


import atexit
atexit.register(_shutdown)


def _risky(case):
    """stored entries of the permuted matrix outside the connected components of its pattern: the open finding; the numba kernel
    may then write out of bounds, so such a case gets a worker of its own that is discarded afterwards"""
    if case["kind"] == "nonsquare" or "m" not in case:
        return False
    return _storage_class_m(case)[0] == "stored-zeros-offblock"


def _call(fn, case):
    import json
    if _risky(case):
        key = json.dumps(case, sort_keys=True)
        if _pool["risky_key"] != key:
            if _pool["risky"] is not None:
                _pool["risky"].stop()
            _pool["risky"], _pool["risky_key"] = _fresh(), key
        r = _pool["risky"].call(fn, case)
        if "crash" in r:
            _pool["risky_key"] = None
        else:
            _pool["cache_warm"] = True
        return r
    if _pool["risky"] is not None:  # the case it served is over: discard it
        _pool["risky"].stop()
        _pool["risky"], _pool["risky_key"] = None, None
    if _pool["crashes"] >= MAX_CRASHES:
        return {"not_run": True}
    if _pool["clean"] is None:
        _pool["clean"] = _Worker()
    r = _pool["clean"].call(fn, case)
    if "crash" in r:
        _pool["crashes"] += 1
    else:
        _pool["cache_warm"] = True
    return r


def _worker_main():
    import json, os, sys
    out = os.fdopen(os.dup(1), "w")
    os.dup2(2, 1)  # stray prints of the libraries must not enter the protocol
    from harness.common import assert_repo
    assert_repo()
    last = {"key": None, "val": None}
    for line in sys.stdin:
        req = json.loads(line)
        case = req["case"]
        key = json.dumps(case, sort_keys=True)
        try:
            if last["key"] != key:
                last["key"], last["val"] = key, _real_run(case)
            res = last["val"][0] if req["fn"] == "impl" else {"oracle": _real_oracle(case, *last["val"])}
        except Exception as e:  # a defect of this harness, not of porepy
            import traceback
            res = {"harness_exc": f"{type(e).__name__}: {e}", "tb": traceback.format_exc()[-1500:]}
        out.write(json.dumps(res) + "\n")
        out.flush()


def impl_run(case):
    r = _call("impl", case)
    if "not_run" in r:
        return {"err": "NOT-RUN: the worker process crashed repeatedly on earlier cases"}
    if "crash" in r:
        return {"err": "CRASH", "returncode": r["crash"]}
    if "harness_exc" in r:
        raise RuntimeError(r["harness_exc"] + "\n" + r["tb"])
    return r


# ----------------------------------------------------------------------------- model
def _mat_fields(m):
    return {"fmt": m["fmt"], "nrows": m["shape"][0], "ncols": m["shape"][1], "indptr": m["indptr"], "indices": m["indices"], "data": m["data"]}


def model_ops(case):
    if case["kind"] == "nonsquare":
        return [dict(op="perm", **_mat_fields(case["m"]))]
    if case["kind"] == "bdi":
        return [dict(op="bdi", m=case["bm"], n=case["bn"])]
    if case["kind"] == "options":
        return [dict(op="invert_opt", sizes=case["sizes_arg"], method=case["method"], fmt_ok=case["as_format"] in ("csr", "csc"),
                     **_mat_fields(case["bd"]))]
    g = _given_perm(case)
    ops = [dict(op="invert", sizes=case["sizes_arg"], **_mat_fields(case["bd"])),
           dict(op="perm", **_mat_fields(case["m"])),
           dict(op="pinv", **_mat_fields(case["m"]))]
    if not case.get("skip_given"):
        ops.append(dict(op="invperm", row_perm=g[0], col_perm=g[1], sizes=g[2], **_mat_fields(case["m"])))
    return ops


def _sing(o, kind):
    if isinstance(o, dict) and o.get("err") == "singular":
        return {"err": kind}
    return o


def _hyp(o, case):
    """answers carrying an inverse also carry the decidable hypothesis of the pipeline theorems evaluated on this input; on the
    streams whose matrices are block diagonal by construction it has to be true (otherwise the theorem would not cover the case)"""
    if isinstance(o, dict) and "hyp_ok" in o:
        o = dict(o)
        ok = o.pop("hyp_ok")
        if not ok and case["kind"] in ("valid", "dup_entries", "stored_zeros_offblock", "options", "empty"):
            return {"err": "model-hypothesis-false"}
    return o


def model_decode(outs, case):
    if case["kind"] == "nonsquare":
        return {"perm": outs[0]}
    if case["kind"] == "bdi":
        return {"bdi": outs[0]}
    if case["kind"] == "options":
        o = _hyp(outs[0], case)
        n = case["bd"]["shape"][0]
        return {"opt": dict(o, fmt="csr", shape=[n, n]) if "err" not in o else _sing(o, "LinAlgError" if case["method"] == "python" else "ValueError")}
    outs = [_hyp(o, case) for o in outs]
    inv, perm, pinv = outs[:3]
    given = outs[3] if len(outs) > 3 else None
    if "blocks" in perm:
        perm = {"blocks": sorted([sorted(b[0]), sorted(b[1])] for b in perm["blocks"])}
    n = case["bd"]["shape"][0]
    py = _sing(inv, "LinAlgError")
    nb = _sing(inv, "ValueError")
    if "err" not in inv:
        py = nb = dict(inv, fmt="csr", shape=[n, n])
    if "err" in perm:
        pinv = {"err": "no-permutation"}
    if n == 0:  # glue outside the model: ArraySlicer cannot be built from an empty index array (ValueError of np.max)
        pinv = given = {"err": "ValueError"}
    res = {"python": py, "numba": nb, "perm": perm, "perminv_found": _sing(pinv, "ValueError")}
    if given is not None:
        res["perminv_given"] = _sing(given, "ValueError")
    return res


def compare(impl, model, case):
    if case["kind"] == "singular":
        # numba loses exceptions raised inside prange: on a singular block the numba paths answer ValueError only sometimes and
        # otherwise return unspecified numbers (see stats: numba_on_singular).  Only the deterministic parts are compared.
        keys = ("python", "perm")
        bad = [k for k in ("numba", "perminv_found", "perminv_given") if isinstance(impl.get(k), dict) and impl[k].get("err") == "CRASH"]
        if bad:
            return f"{bad[0]}: interpreter crashed"
        if case.get("singular_how") == "dup_row":
            # a duplicated row is singular in exact arithmetic, but blocked LAPACK elimination does not keep the two rows bitwise
            # equal, so numpy may find a pivot of size 1e-16 and return numbers instead of raising (corpus case 07).  The premise
            # "nonsingular" fails and the outcome is rounding dependent: the python path may only raise LinAlgError or return.
            if isinstance(impl.get("python"), dict) and impl["python"].get("err") not in (None, "LinAlgError"):
                return f".python: {impl['python']} on an exactly singular block"
            keys = ("perm",)
        return deep_compare({k: impl.get(k) for k in keys}, {k: model.get(k) for k in keys}, tol=TOL)
    return deep_compare(impl, model, tol=TOL)


# ----------------------------------------------------------------------------- oracle
def _stored_positions(m):
    for major in range(len(m["indptr"]) - 1):
        for k in range(m["indptr"][major], m["indptr"][major + 1]):
            yield (major, m["indices"][k]) if m["fmt"] == "csr" else (m["indices"][k], major)


def _storage_class(m, pattern_ok):
    """'canonical' | 'dup-entries' | 'stored-zeros-offblock' for a stored matrix; pattern_ok(i, j) tells whether (i, j) lies inside a block"""
    seen = set()
    dup = off = False
    for i, j in _stored_positions(m):
        if (i, j) in seen:
            dup = True
        seen.add((i, j))
        if not pattern_ok(i, j):
            off = True
    return "dup-entries" if dup else "stored-zeros-offblock" if off else "canonical"


def _storage_class_m(case):
    """storage class of the permuted matrix w.r.t. the connected components of its non-zero pattern (what the computed permutation
    exposes) and w.r.t. the generator's blocks (what the given permutation exposes)"""
    rc, cc = _components(_dense(case["m"]))
    blk = []
    for k, s in enumerate(case["sizes"]):
        blk += [k] * s
    ipr = {p: i for i, p in enumerate(case["pr"])}
    ipc = {p: i for i, p in enumerate(case["pc"])}
    return (_storage_class(case["m"], lambda i, j: rc[i] == cc[j]),
            _storage_class(case["m"], lambda i, j: blk[ipr[i]] == blk[ipc[j]]))


def _resid(A, X):
    n = A.shape[0]
    if n == 0:
        return 0.0
    return max(np.abs(A @ X - np.eye(n)).max(), np.abs(X @ A - np.eye(n)).max())


def _real_oracle(case, out, raw):
    """The property on the real code: A*inv = I = inv*A for both block inverters, with the csr layout of full diagonal blocks; the
    computed permutation consists of two permutations and square blocks whose sizes sum to n, the permuted matrix is zero
    outside the diagonal blocks and the blocks are the connected components of the pattern; the permuted inverter (with the computed and with the generator's permutation) returns the inverse."""
    if case["kind"] in ("nonsquare", "singular"):
        return None  # the property speaks about nonsingular square input; error kinds are compared with the model
    if case["kind"] == "bdi":
        # independent reading of the two-argument block_diag_index: all positions of the full m_k x n_k blocks, column by column
        ei, ej, ro, co = [], [], 0, 0
        for mk, nk in zip(case["bm"], case["bn"]):
            for c in range(nk):
                ei += list(range(ro, ro + mk))
                ej += [co + c] * mk
            ro, co = ro + mk, co + nk
        got = out["bdi"]
        if "err" in got:
            return {"what": f"block_diag_index(m={case['bm']}, n={case['bn']}) raised {got['err']}", "key": "bdi-raises" + ("-zero" if 0 in case["bm"] + case["bn"] else "")}
        if got != {"i": ei, "j": ej}:
            return {"what": f"block_diag_index(m={case['bm']}, n={case['bn']}) = {got}, expected i={ei}, j={ej}", "key": "bdi-wrong"}
        return None
    if case["kind"] == "options":
        ok_method = case["method"] in (None, "numba", "python")
        ok_fmt = case["as_format"] in ("csr", "csc")
        got = out["opt"]
        if ok_method and ok_fmt:
            n = case["bd"]["shape"][0]
            X = raw.get("opt")
            BD = np.array([[float(x) for x in r] for r in _dense(case["bd"])], dtype=float).reshape(n, n)
            if X is None or X.shape != (n, n) or not _resid(BD, X.toarray()) <= TOL:
                return {"what": f"invert_diagonal_blocks(method={case['method']!r}) on a {case['as_format']} matrix: {got.get('err', 'result is not the inverse')}", "key": "options-not-inverse"}
        elif "err" not in got:
            return {"what": f"invert_diagonal_blocks(method={case['method']!r}) on a {case['as_format']} matrix returned a result instead of raising", "key": "options-no-error"}
        return None
    if raw.get("flags"):
        return {"what": raw["flags"][0], "key": "side-effect:" + ("modified-input" if "modified" in raw["flags"][0] else "repeat-differs")}
    n = case["bd"]["shape"][0]
    blk = []
    for k, s in enumerate(case["sizes"]):
        blk += [k] * s
    cls_bd = _storage_class(case["bd"], lambda i, j: blk[i] == blk[j])
    cls_found, cls_given = _storage_class_m(case)
    BD = np.array([[float(x) for x in r] for r in _dense(case["bd"])], dtype=float).reshape(n, n)
    M = np.array([[float(x) for x in r] for r in _dense(case["m"])], dtype=float).reshape(n, n)
    for method in ("python", "numba"):
        o, X = out[method], raw[method]
        if X is None:
            return {"what": f"invert_diagonal_blocks(method={method}) raised {o['err']} on a nonsingular block-diagonal {case['bd']['fmt']} matrix, sizes {case['sizes_arg']} (storage: {cls_bd})",
                    "key": f"blockinv:{cls_bd}" if cls_bd != "canonical" else f"blockinv-{method}-raises"}
        if X.shape != (n, n):
            return {"what": f"invert_diagonal_blocks(method={method}) returned shape {X.shape} for a {n}x{n} matrix", "key": f"blockinv-{method}-shape"}
        r = _resid(BD, X.toarray())
        if not r <= TOL:
            return {"what": f"invert_diagonal_blocks(method={method}): |A*inv - I| = {r:.3g} on a nonsingular block-diagonal {case['bd']['fmt']} matrix, sizes {case['sizes_arg']} (storage: {cls_bd})",
                    "key": f"blockinv:{cls_bd}" if cls_bd != "canonical" else f"blockinv-{method}-not-inverse"}
        # the result must be stored as full diagonal blocks (every position inside a block, nothing outside)
        pos = sorted((i, int(j)) for i in range(n) for j in X.indices[X.indptr[i]:X.indptr[i + 1]])
        if X.format != "csr" or pos != [(i, j) for i in range(n) for j in range(n) if blk[i] == blk[j]]:
            return {"what": f"invert_diagonal_blocks(method={method}): the result is not stored as the full diagonal blocks of sizes {case['sizes']}", "key": f"blockinv-{method}-layout"}
    if raw["perm"] is None:
        return {"what": f"generate_permutation_to_block_diag_matrix raised {out['perm']['err']} on a permuted nonsingular block-diagonal matrix (storage: {cls_found})",
                "key": f"permsearch:{cls_found}" if cls_found != "canonical" else "permsearch-raises"}
    rp, cp, bs = raw["perm"]
    if sorted(rp) != list(range(n)) or sorted(cp) != list(range(n)):
        return {"what": f"row_perm {rp} / col_perm {cp} is not a permutation of range({n})", "key": "permsearch-not-permutation"}
    if sum(bs) != n or any(s <= 0 for s in bs):
        return {"what": f"block sizes {bs} do not sum to {n}", "key": "permsearch-sizes"}
    pb = []
    for k, s in enumerate(bs):
        pb += [k] * s
    P = M[rp][:, cp] if n else M
    for i in range(n):
        for j in range(n):
            if pb[i] != pb[j] and P[i, j] != 0:
                return {"what": f"A[row_perm][:, col_perm] has a non-zero at ({i},{j}) outside the diagonal blocks of sizes {bs}", "key": "permsearch-not-blockdiag"}
    # documented behaviour ("each block corresponds to a connected component"): the blocks are the connected components of the
    # pattern, computed here by an independent union-find; all-zero rows cannot occur (the matrix is nonsingular)
    rc, cc = _components([[Fraction(x) for x in r] for r in M.tolist()]) if n else ([], [])
    comp_blocks = sorted([sorted(i for i in range(n) if rc[i] == k), sorted(j for j in range(n) if cc[j] == k)] for k in set(rc))
    if len(comp_blocks) > 1 and _blocks_of(rp, cp, bs) != comp_blocks:
        return {"what": f"the blocks of the computed permutation {_blocks_of(rp, cp, bs)} are not the connected components {comp_blocks} of the pattern", "key": "permsearch-not-components"}
    for name, cls in (("found", cls_found), ("given", cls_given)):
        if n == 0 or (name == "given" and case.get("skip_given")):
            break  # the property speaks about matrices with at least one block; the empty matrix is compared with the model only
        o, X = out["perminv_" + name], raw[name]
        if X is None:
            return {"what": f"invert_permuted_block_diag_matrix ({name} permutation) raised {o['err']} on a permuted nonsingular block-diagonal matrix (storage: {cls})",
                    "key": f"perminv:{cls}" if cls != "canonical" else f"perminv-{name}-raises"}
        r = _resid(M, X.toarray()) if X.shape == (n, n) else float("inf")
        if not r <= TOL:
            return {"what": f"invert_permuted_block_diag_matrix ({name} permutation): |A*inv - I| = {r:.3g} (storage: {cls})",
                    "key": f"perminv:{cls}" if cls != "canonical" else f"perminv-{name}-not-inverse"}
    return None


def oracle(case):
    if case["kind"] in ("nonsquare", "singular"):
        return None
    r = _call("oracle", case)
    if "not_run" in r:
        return None  # unknown; the crashes themselves were reported on the cases that caused them
    if "crash" in r:
        cls = _storage_class_m(case)[0]
        return {"what": f"the interpreter running the real code on this case was killed (return code {r['crash']}: segmentation fault / abort inside compiled code); storage of the permuted matrix: {cls}",
                "key": f"perminv:{cls}" if cls != "canonical" else "crash"}
    if "harness_exc" in r:
        raise RuntimeError(r["harness_exc"] + "\n" + r["tb"])
    return r["oracle"]


# ----------------------------------------------------------------------------- bookkeeping
def nontrivial(case):
    return case["kind"] == "valid" and not case.get("corner") and len(case["sizes"]) >= 2 and max(case["sizes"]) >= 2


def shrink_candidates(case):
    for c in _shrink_candidates(case):
        if SHRINK_BUDGET["left"] <= 0:
            return
        if _risky(c):
            if SHRINK_BUDGET["risky_left"] <= 0:
                continue
            SHRINK_BUDGET["risky_left"] -= 1
        SHRINK_BUDGET["left"] -= 1
        yield c


def _shrink_candidates(case):
    if case["kind"] in ("nonsquare", "options", "bdi") or not case.get("sizes"):
        return
    blocks = [[[Fraction(x) for x in r] for r in b] for b in case["blocks"]]
    sizes = case["sizes"]
    n = sum(sizes)
    offs = [sum(sizes[:k]) for k in range(len(sizes))]
    var = case["variations"]

    def compress(perm, drop):
        kept = [p for i, p in enumerate(perm) if i not in drop]
        rank = {p: r for r, p in enumerate(sorted(kept))}
        return [rank[p] for p in kept]

    # drop one block; stored extra entries (zeros, duplicates) that touch it go with it, the others are renumbered
    if len(blocks) > 1:
        ipr = {p: i for i, p in enumerate(case["pr"])}
        ipc = {p: i for i, p in enumerate(case["pc"])}
        for k in range(len(blocks)):
            lo, hi = offs[k], offs[k] + sizes[k]
            drop = set(range(lo, hi))
            nb = blocks[:k] + blocks[k + 1:]
            pr2, pc2 = compress(case["pr"], drop), compress(case["pc"], drop)
            sh = lambda i: i if i < lo else i - sizes[k]
            v2 = {"shuffle_bd": var["shuffle_bd"], "shuffle_m": var["shuffle_m"]}
            for key in ("zeros_bd", "dups_bd"):
                v2[key] = [[sh(e[0]), sh(e[1])] + list(e[2:]) for e in var[key] if e[0] not in drop and e[1] not in drop]
            for key in ("zeros_m", "dups_m"):
                bdc = [[ipr[e[0]], ipc[e[1]]] + list(e[2:]) for e in var[key]]
                v2[key] = [[pr2[sh(e[0])], pc2[sh(e[1])]] + list(e[2:]) for e in bdc if e[0] not in drop and e[1] not in drop]
            yield _assemble(nb, [len(b) for b in nb], pr2, pc2, case["bd"]["fmt"], case["m"]["fmt"], case["kind"], variations=v2)
    # canonical storage, keeping the structure
    if any(var[k] for k in var) or case["sizes_arg"] != sizes:
        for keep in ("dups_bd", "dups_m", "zeros_m", "zeros_bd", None):
            v2 = {keep: var[keep]} if keep and var[keep] else {}
            if keep and not v2:
                continue
            yield _assemble(blocks, list(sizes), case["pr"], case["pc"], case["bd"]["fmt"], case["m"]["fmt"], case["kind"], variations=v2)
    # single stored extra entries
    for key in ("dups_bd", "dups_m", "zeros_m", "zeros_bd"):
        if len(var[key]) > 1:
            for e in var[key]:
                yield _assemble(blocks, case["sizes_arg"], case["pr"], case["pc"], case["bd"]["fmt"], case["m"]["fmt"], case["kind"], variations=dict(var, **{key: [e]}))
    # identity permutations
    if case["pr"] != list(range(n)) or case["pc"] != list(range(n)):
        yield _assemble(blocks, case["sizes_arg"], list(range(n)), list(range(n)), case["bd"]["fmt"], case["m"]["fmt"], case["kind"],
                        variations=dict(var, zeros_m=[], dups_m=[]) if (var["zeros_m"] or var["dups_m"]) else var)


def stats(cases, impl_outs):
    from collections import Counter
    kinds = Counter(c["kind"] for c in cases)
    nblocks = Counter(len(c.get("sizes", [])) for c in cases)
    bsz = Counter(s for c in cases for s in c.get("sizes", []))
    fm = Counter((c["bd"]["fmt"] if "bd" in c else "-") + "/" + (c["m"]["fmt"] if "m" in c else "-") for c in cases)
    errs = Counter()
    split = 0
    for c, o in zip(cases, impl_outs):
        for k, v in o.items():
            if isinstance(v, dict) and "err" in v:
                errs[f"{k}:{v['err']}"] += 1
        if "sizes" in c and isinstance(o.get("perm"), dict) and "blocks" in o["perm"] and len(o["perm"]["blocks"]) > len(c["sizes"]):
            split += 1
    nbs = Counter()
    for c, o in zip(cases, impl_outs):
        if c["kind"] == "singular":
            for k in ("numba", "perminv_given"):
                v = o.get(k) or {}
                nbs[f"{k}:{v.get('err', 'returns-numbers-silently')}"] += 1
            if c.get("singular_how") == "dup_row":
                nbs["python_on_dup_row:" + (o.get("python") or {}).get("err", "returns-numbers")] += 1
    strata, strata_canon = Counter(), Counter()
    for c in cases:
        if c.get("kind") in ("valid", "dup_entries", "stored_zeros_offblock") and c.get("sizes"):
            st = _stratum_of([[[Fraction(x) for x in r] for r in b] for b in c["blocks"]], c["bd"]["fmt"])
            key = "/".join([st[0], "uniform" if st[1] else "nonuniform", "full" if st[2] else "sparse", "sym" if st[3] else "nonsym"])
            strata[key] += 1
            v = c["variations"]
            if v["shuffle_bd"] is None and not v["zeros_bd"] and not v["dups_bd"] and c["sizes_arg"] == c["sizes"]:
                strata_canon[key] += 1
    var = Counter(k for c in cases for k, v in c.get("variations", {}).items() if v not in (None, []))
    return {"kinds": dict(kinds), "num_blocks": {str(k): v for k, v in sorted(nblocks.items())}, "block_sizes": {str(k): v for k, v in sorted(bsz.items())},
            "formats_bd/m": dict(fm), "strata(fmt/sizes/fill/symmetry)": dict(sorted(strata.items())),
            "strata_with_canonical_storage": dict(sorted(strata_canon.items())), "impl_errors": dict(errs), "numba_on_singular": dict(nbs), "storage_variations": dict(var),
            "zero_entries_in_size_vector": sum(1 for c in cases if 0 in c.get("sizes_arg", [])),
            "cases_where_components_are_finer_than_generated_blocks": split,
            "matrix_dim_max": max((c["m"]["shape"][0] for c in cases if "m" in c), default=0),
            "corner_strata": dict(Counter(c["corner"] for c in cases if c.get("corner"))),
            "entry_point_strata": dict(Counter(c["sub"] for c in cases if c.get("kind") in ("options", "bdi")))}
