"""C41 Interpolation tables are exact for multilinear functions (InterpolationTable / AdaptiveInterpolationTable)."""
import math
from fractions import Fraction

import numpy as np

from harness.common import frac, err_kind, deep_compare

PID = "C41"
THEOREMS = [
    "PorepyVerif.C41.multilinear_as_tree",
    "PorepyVerif.C41.coefs_as_tree",
    "PorepyVerif.C41.affine_as_tree",
    "PorepyVerif.C41.interp_multilinear_exact",
    "PorepyVerif.C41.interp_tensor_exact",
    "PorepyVerif.C41.grad_multilinear_exact",
    "PorepyVerif.C41.grad_linear_exact",
    "PorepyVerif.C41.weights_partition_unity",
    "PorepyVerif.C41.base_in_range",
    "PorepyVerif.C41.point_in_range",
    "PorepyVerif.C41.adaptive_eq_standard",
    "PorepyVerif.C41.adaptive_eq_standard_multilinear",
    "PorepyVerif.C41.adaptive_multilinear_exact",
    "PorepyVerif.C41.adaptive_fill_on_demand",
    "PorepyVerif.C41.assign_values_eq_fill",
    "PorepyVerif.C41.assigned_eq_standard",
    "PorepyVerif.C41.assigned_eq_standard_multilinear",
    "PorepyVerif.C41.safeguarding_spec",
    "PorepyVerif.C41.safeguarding_axis0_quirk",
    "PorepyVerif.C41.safeguarding_irrelevant",
    "PorepyVerif.C41.hypotheses_decidable",
    "PorepyVerif.C41.standard_exact_decidable",
    "PorepyVerif.C41.outside_raises",
    "PorepyVerif.C41.assign_without_indices",
]
LEAN_MODULES = ["PorepyVerif.C41.Props"]
LEAN_DIRS = ["C46"]
AUDIT = "PorepyVerif/C41/Audit.lean"
DRIVER = "PorepyVerif/C41/Driver.lean"
N = {"quick": 250, "thorough": 10000}
RULE = ("a case = one box (d = 1..4 parameters, dyadic low, dyadic mesh size h, 2..6 points per axis), one function with 1..3 "
        "components, each a random integer coefficient tensor over all 2^d monomials (sometimes affine only, sometimes with extra "
        "non-multilinear monomials x_i^2 … so that the table is NOT exact and the model is compared on general functions), and 2..6 "
        "calls interpolate/gradient with 1..5 points each; points are low + (i + w) h with dyadic w and are drawn per axis from: "
        "interior, grid node, lower face, upper face (so faces, edges, corners occur), almost-a-node (w = 1 - 2^-10, triggers the "
        "safeguarding of the adaptive table), and a malformed stream (point outside the box on one axis, gradient axis = d). "
        "Every case is run on the standard table, on an adaptive table owning the function, and on an adaptive table fed through "
        "quadrature_points_from_coordinates / assign_values in permuted order. All quantities are dyadic with few enough bits "
        "that binary64 is exact (checked per case by a bit budget), so values are compared as exact rationals. "
        "non-trivial = at least one queried point lies on an upper face of the box and at least two calls; distinct = distinct cases")
TRUSTED = [
    "modelled, not verified: np.linspace(low, high, npt)[i] = low + i*h, np.meshgrid/ravel('F') ordering of the grid (= Model.coords), "
    "np.floor_divide on binary64 (= rational floor on the dyadic inputs generated), scipy KDTree proximity queries inside intersect_sets "
    "(= exact membership on the generated grids), np.unique(axis=1) (= C46.uniqueCoords)",
    "the SparseNdArray model and its refinement theorem are those of C46 (lean/PorepyVerif/C46)",
    "binary64 rounding: the theorems are over exact rationals; the correspondence check only generates inputs on which binary64 is exact",
    "withheld assignment: when only some base vertices are missing the code raises numpy's ValueError (ragged np.ravel) just before its "
    "assertion; model and code are compared on the refusal only, not on the error class",
    "numpy negative-index wrap-around is not modelled (indices are proved in range); assign_values is covered for the documented use "
    "(columns = the points returned by quadrature_points_from_coordinates, any order, indices passed), not for arbitrary user coordinates",
]
EXPLANATION = ("FULL over exact rationals: model = base-vertex search, weights, vertex enumeration with strides, interpolate, gradient as coded, "
               "adaptive table on the C46 SparseNdArray model incl. safeguarding and assign_values; theorems: exactness of interpolate for every "
               "multilinear function / box / resolution / point of the closed box in any number of parameters, exactness of the gradient "
               "(multilinear and in particular affine functions), partition of unity, base vertex and weights in range, adaptive = standard "
               "along every history of queries (any functions; vector-valued; gradients on upper faces for multilinear functions); "
               "assign_values with the columns in any permutation builds exactly the table _fill_values builds, hence the table fed from "
               "outside also equals the standard table; the safeguarding branch of _find_base_vertex is characterised (incl. the quirk that "
               "endangerment on axis 0 alone never triggers it) and proved never to change an answer; assign_values without indices "
               "(indices recovered by floor division) is the same assignment; out-of-box queries give ValueError for every table; "
               "the hypotheses WF / in-box / axis-in-range are Boolean input conditions (wfB, inBoxB, axisOkB) that the driver evaluates "
               "on every case and the harness cross-checks (part 'pre'). "
               "Correspondence compares values, errors and the adaptive table's storage exactly (scalar and vector-valued, explicit and default base point).")
ASSUMPTIONS = ["low < high and npt >= 2 on every axis (otherwise h is 0 or undefined)",
               "query arrays have exactly d rows",
               "inputs are dyadic with a bit budget such that binary64 evaluates every intermediate exactly (generator), "
               "except corpus cases marked approx which are compared with tolerance 1e-9"]

F = Fraction


# ----------------------------------------------------------------------------- functions
def _mono_axes(m, d):
    return [i for i in range(d) if (m >> (d - 1 - i)) & 1]


def f_float(fn, d, c):
    """binary64 evaluation of one component at the scalars c (what the tables are given)"""
    s = 0.0
    for m, co in enumerate(fn["coefs"]):
        if co:
            t = float(co)
            for i in _mono_axes(m, d):
                t *= c[i]
            s += t
    for ex in fn["extra"]:
        t = float(F(ex["c"]))
        for i, e in enumerate(ex["e"]):
            for _ in range(e):
                t *= c[i]
        s += t
    return s


def f_exact(fn, d, x):
    s = F(0)
    for m, co in enumerate(fn["coefs"]):
        t = F(co)
        for i in _mono_axes(m, d):
            t *= x[i]
        s += t
    for ex in fn["extra"]:
        t = F(ex["c"])
        for i, e in enumerate(ex["e"]):
            t *= x[i] ** e
        s += t
    return s


def d_exact(fn, d, x, k):
    """exact partial derivative of the multilinear part along axis k"""
    s = F(0)
    for m, co in enumerate(fn["coefs"]):
        ax = _mono_axes(m, d)
        if k in ax:
            t = F(co)
            for i in ax:
                if i != k:
                    t *= x[i]
            s += t
    return s


def is_multilinear(case):
    return all(not fn["extra"] for fn in case["fns"])


def is_affine(case):
    d = case["d"]
    return is_multilinear(case) and all(all(co == 0 or bin(m).count("1") <= 1 for m, co in enumerate(fn["coefs"])) for fn in case["fns"])


class Fn:
    def __init__(self, case):
        self.case, self.calls = case, 0

    def __call__(self, *c):
        self.calls += 1
        d = self.case["d"]
        c = [float(v) for v in c]
        vals = [f_float(fn, d, c) for fn in self.case["fns"]]
        return vals[0] if len(vals) == 1 else np.array(vals)


# ----------------------------------------------------------------------------- geometry helpers
def _geom(case):
    low = [F(s) for s in case["low"]]
    h = [F(s) for s in case["h"]]
    npt = case["npt"]
    high = [l + (n - 1) * hh for l, hh, n in zip(low, h, npt)]
    return low, h, npt, high


def _log2den(q):
    den = F(q).denominator
    if den & (den - 1):
        return None
    return den.bit_length() - 1


def bit_budget(case):
    """Upper bound of (bits below the binary point + bits above) of every intermediate of the float computation;
    None if something is not dyadic. binary64 is exact when the result is <= 52."""
    d = case["d"]
    low, h, npt, high = _geom(case)
    g = []
    for l, hh in zip(low, h):
        a, b = _log2den(l), _log2den(hh)
        if a is None or b is None:
            return None
        g.append(max(a, b))
    A = [max(abs(l - hh), abs(hi + 2 * hh), 1) for l, hh, hi in zip(low, h, high)]
    q = [0] * d
    for call in case["calls"]:
        for p in call["pts"]:
            for i in range(d):
                x = F(p[i])
                A[i] = max(A[i], abs(x) + 2 * h[i])
                t = (x - low[i]) / h[i]
                b = _log2den(t)
                if b is None or _log2den(x) is None:
                    return None
                q[i] = max(q[i], b)
    L1, M1 = 0, F(1)
    for fn in case["fns"]:
        mag = F(0)
        for m, co in enumerate(fn["coefs"]):
            if co:
                ax = _mono_axes(m, d)
                L1 = max(L1, sum(g[i] for i in ax))
                t = F(abs(co))
                for i in ax:
                    t *= A[i]
                mag += t
        for ex in fn["extra"]:
            b = _log2den(F(ex["c"]))
            if b is None:
                return None
            L1 = max(L1, b + sum(e * g[i] for i, e in enumerate(ex["e"])))
            t = abs(F(ex["c"]))
            for i, e in enumerate(ex["e"]):
                t *= A[i] ** e
            mag += t
        M1 = max(M1, mag)
    # points themselves: g+q bits; weights: sum q; gradient divides by h (<= g bits more)
    L = L1 + sum(q) + max(g) + 1
    M = math.ceil(math.log2(float(M1))) + d + 2
    return L + M


# ----------------------------------------------------------------------------- generator
def _gen_fn(rng, d, kind):
    n = 1 << d
    if kind == "affine":
        coefs = [0] * n
        coefs[0] = rng.randint(-9, 9)
        for i in range(d):
            coefs[1 << (d - 1 - i)] = rng.randint(-9, 9)
    else:
        dens = rng.choice([1.0, 1.0, 0.6, 0.3])
        coefs = [rng.randint(-9, 9) if rng.random() < dens else 0 for _ in range(n)]
        if not any(coefs[1:]):
            coefs[rng.randrange(1, n)] = rng.choice([-3, -1, 2, 5])
    extra = []
    if kind == "general":
        for _ in range(rng.randint(1, 2)):
            e = [0] * d
            e[rng.randrange(d)] = 2
            if d > 1 and rng.random() < 0.5:
                e[rng.randrange(d)] += 1
            extra.append({"c": str(rng.choice([-2, -1, 1, 3])), "e": e})
    return {"coefs": coefs, "extra": extra}


def _gen_point(rng, d, low, h, npt, allow_danger, outside):
    p, kinds = [], []
    corner = rng.random() < 0.15  # all axes on the boundary / at nodes
    bad_axis = rng.randrange(d) if outside else -1
    for i in range(d):
        n = npt[i] - 1
        r = rng.random()
        if i == bad_axis:
            delta = rng.choice([F(1, 1024), F(1, 4), F(1), F(5, 2)])
            if rng.random() < 0.5:
                t, k = -delta, "below"
            else:
                t, k = n + delta, "above"
        elif corner:
            t, k = rng.choice([(F(0), "lower"), (F(n), "upper"), (F(rng.randint(0, n)), "node")])
        elif r < 0.40:
            q = rng.choice([1, 2, 2, 3, 4])
            t, k = rng.randrange(n) + F(rng.randrange(1, 1 << q), 1 << q), "interior"
        elif r < 0.55:
            t, k = F(rng.randint(0, n)), "node"
        elif r < 0.75:
            t, k = F(n), "upper"
        elif r < 0.90:
            t, k = F(0), "lower"
        elif allow_danger:
            t, k = rng.randrange(n) + 1 - F(1, 1024), "danger"
        else:
            t, k = rng.randrange(n) + F(1, 2), "interior"
        if k == "node":
            k = "lower" if t == 0 else "upper" if t == n else "node"
        p.append(frac(low[i] + t * h[i]))
        kinds.append(k)
    return p, kinds


def gen_case(rng, tier):
    for _ in range(200):
        d = rng.choice([1, 1, 2, 2, 2, 3, 3, 4])
        kind = rng.choice(["multilinear"] * 5 + ["affine"] * 2 + ["general"] * 3)
        dim = rng.choice([1, 1, 1, 2, 3])
        pow2 = kind == "general"
        maxpts = 260 if tier == "quick" else 700
        g = rng.choice([0, 1, 2, 3] if d <= 2 else [0, 1, 2])
        low, h, npt = [], [], []
        for i in range(d):
            gi = rng.randint(0, g)
            kh = rng.choice([1, 2, 4] if pow2 else [1, 1, 2, 3, 5, 6])
            h.append(F(kh, 1 << gi))
            low.append(F(rng.randint(-8, 8), 1 << gi))
            npt.append(rng.choice([2, 2, 3, 3, 4, 5, 6]))
        strata = []
        if rng.random() < 0.12:
            npt = [2] * d  # smallest admissible grid: one cell
            strata.append("min_grid")
        if d <= 2 and kind != "general" and rng.random() < 0.25:
            # extreme scale: a box far from the origin with a fine mesh
            low = [F(rng.choice([-1, 1]) * rng.randint(200, 1000)) for _ in range(d)]
            h = [F(rng.choice([1, 3]), 1 << rng.randint(3, 5)) for _ in range(d)]
            strata.append("extreme_scale")
        zero_low = "extreme_scale" not in strata and rng.random() < 0.15
        if zero_low:
            low = [F(0)] * d
        while math.prod(npt) > maxpts:
            j = max(range(d), key=lambda i: npt[i])
            npt[j] -= 1
        fns = [_gen_fn(rng, d, kind) for _ in range(dim)]
        allow_danger = d <= 2 and kind != "general"
        calls = []
        shared = rng.random() < 0.4  # one query array object, overwritten in place between the calls
        nshared = rng.randint(1, 4)
        if shared:
            strata.append("shared_array")
        for _ in range(rng.randint(3, 6) if shared else rng.randint(2, 6)):
            outside = rng.random() < 0.12
            pts, kinds = [], []
            for j in range(nshared if shared else rng.randint(1, 5)):
                p, k = _gen_point(rng, d, low, h, npt, allow_danger, outside and j == 0)
                pts.append(p)
                kinds.append(k)
            if rng.random() < 0.10:
                # all points at grid nodes
                pts = [[frac(low[i] + rng.randint(0, npt[i] - 1) * h[i]) for i in range(d)] for _ in pts]
                strata.append("nodes_only")
            if rng.random() < 0.2 and not (outside and len(pts) == 1) and not shared:
                pts.append(list(pts[-1]))  # the same point twice in one batch
                strata.append("dup_points")
            if rng.random() < 0.5:
                rng.shuffle(pts)
            if calls and rng.random() < 0.12:
                calls.append(dict(rng.choice(calls)))  # a previous call repeated verbatim
                strata.append("repeat_call")
                continue
            if rng.random() < 0.45:
                axis = rng.randrange(d)
                if rng.random() < 0.04:
                    axis = d  # malformed: axis out of range
                calls.append({"op": "grad", "pts": pts, "axis": axis})
            else:
                calls.append({"op": "interp", "pts": pts})
        case = {"d": d, "low": [frac(v) for v in low], "h": [frac(v) for v in h], "npt": npt, "fns": fns, "calls": calls,
                "rev": rng.random() < 0.5, "rot": rng.randrange(7),
                "adaptive": True, "shared": shared,
                # assign_values without the indices argument (indices recovered from the coordinates)
                "noidx": rng.random() < 0.3,
                # the call (if any) before which the outside-fed table is NOT given the new values
                "skip_assign": rng.randrange(len(calls)) if rng.random() < 0.15 else None,
                "strata": sorted(set(strata)),
                # construct the adaptive table without base_point (default = origin)
                "default_base": zero_low and rng.random() < 0.6}
        b = bit_budget(case)
        if b is not None and b <= 52:
            return case
    raise RuntimeError("generator could not satisfy the bit budget")


# ----------------------------------------------------------------------------- real code
def _arr(pts, d):
    return np.array([[float(F(p[i])) for p in pts] for i in range(d)], dtype=float)


class Buf:
    """Query arrays of one history. In the stratum `shared` ONE ndarray object is reused for consecutive calls with
    the same number of points and overwritten in place (x[:] = ...) between them, as a caller updating its state
    vector does; otherwise every call gets a fresh array."""

    def __init__(self, case):
        self.shared, self.x = bool(case.get("shared")), None

    def get(self, pts, d):
        new = _arr(pts, d)
        if self.shared and self.x is not None and self.x.shape == new.shape:
            self.x[:] = new
            return self.x
        self.x = new
        return new


def _res(v):
    v = np.atleast_2d(v)
    return {"vals": [[frac(x) for x in row] for row in v]}


def _tables(case):
    from porepy.utils.interpolation_tables import InterpolationTable, AdaptiveInterpolationTable
    low, h, npt, high = _geom(case)
    fl = lambda xs: np.array([float(v) for v in xs])
    return InterpolationTable, AdaptiveInterpolationTable, fl(low), fl(high), fl(h), np.array(npt)


def _perm(n, case):
    p = list(range(n))
    if n:
        r = case.get("rot", 0) % n
        p = p[r:] + p[:r]
    if case.get("rev"):
        p.reverse()
    return p


def _dump(a):
    return {"coords": [[int(x) for x in col] for col in a._table._coords.T],
            "pt": [[frac(x) for x in col] for col in a._pt.T],
            "values": [[frac(x) for x in row] for row in a._values]}


def _mk_adaptive(case, AT, h, low, fn):
    dim = len(case["fns"])
    if case.get("default_base"):
        assert all(F(v) == 0 for v in case["low"])
        return AT(h, function=fn, dim=dim)
    return AT(h, low, fn, dim=dim)


def _run_std(case, fn):
    IT, AT, low, high, h, npt = _tables(case)
    d, dim = case["d"], len(case["fns"])
    out = []
    try:
        t = IT(low, high, npt, fn, dim=dim)
    except Exception as e:
        return [{"ctor": err_kind(e)}]
    buf = Buf(case)
    for call in case["calls"]:
        x = buf.get(call["pts"], d)
        if len(call["pts"]) == 1 and case.get("rot", 0) % 2 == 0 and not case.get("shared"):
            x = x[:, 0]  # a single point may be passed as a 1-d array (standard table only)
        try:
            out.append(_res(t.interpolate(x) if call["op"] == "interp" else t.gradient(x, call["axis"])))
        except Exception as e:
            out.append(err_kind(e))
    return out


def _run_adp(case, fn):
    IT, AT, low, high, h, npt = _tables(case)
    d, dim = case["d"], len(case["fns"])
    a = _mk_adaptive(case, AT, h, low, fn)
    out = []
    buf = Buf(case)
    for call in case["calls"]:
        x = buf.get(call["pts"], d)
        try:
            out.append(_res(a.interpolate(x) if call["op"] == "interp" else a.gradient(x, call["axis"])))
        except Exception as e:
            out.append(err_kind(e))
    try:
        out.append(_dump(a))
    except Exception as e:
        out.append(err_kind(e))
    return out, a


def _run_asg(case):
    """adaptive table without a function: quadrature_points_from_coordinates -> external evaluation ->
    assign_values in permuted order -> interpolate / gradient"""
    IT, AT, low, high, h, npt = _tables(case)
    d, dim = case["d"], len(case["fns"])
    a = _mk_adaptive(case, AT, h, low, None)
    fn = Fn(case)
    out = []
    buf = Buf(case)
    for ci, call in enumerate(case["calls"]):
        x = buf.get(call["pts"], d)
        entry = {}
        try:
            ca, ia = a.quadrature_points_from_coordinates(x, remove_known_points=False)
            entry["all"] = {"inds": [[int(v) for v in col] for col in ia.T], "coord": [[frac(v) for v in col] for col in ca.T]}
        except Exception as e:
            entry["all"] = err_kind(e)
        try:
            coord, inds = a.quadrature_points_from_coordinates(x)
            entry["quad"] = {"inds": [[int(v) for v in col] for col in inds.T], "coord": [[frac(v) for v in col] for col in coord.T]}
            n = coord.shape[1]
            if n > 0 and case.get("skip_assign") != ci:
                p = _perm(n, case)
                vals = np.array([np.atleast_1d(fn(*coord[:, j])) for j in p]).T.reshape((dim, n))
                if case.get("noidx"):
                    a.assign_values(vals, coord[:, p])
                else:
                    a.assign_values(vals, coord[:, p], inds[:, p])
        except Exception as e:
            entry["quad"] = err_kind(e)
        try:
            entry["res"] = _res(a.interpolate(x) if call["op"] == "interp" else a.gradient(x, call["axis"]))
        except Exception as e:
            entry["res"] = err_kind(e)
            if case.get("skip_assign") == ci:
                # values were withheld: the code refuses with AssertionError, or with numpy's ValueError (ragged
                # np.ravel of the per-point hit lists, raised just before the assertion) when only SOME base vertices
                # are missing; the error class is an artefact, only the refusal is compared
                entry["res"] = {"err": "refused"}
        out.append(entry)
    try:
        out.append(_dump(a))
    except Exception as e:
        out.append(err_kind(e))
    return out


def _precond(case):
    """the decidable hypotheses of the theorems, evaluated independently of the Lean model"""
    low, h, npt, high = _geom(case)
    d = case["d"]
    return {"wf": all(n >= 2 and l < hi for n, l, hi in zip(npt, low, high)),
            "inbox": [all(len(p) == d and _in_box(case, p) for p in c["pts"]) for c in case["calls"]],
            "axisok": [c["op"] == "interp" or 0 <= c["axis"] < d for c in case["calls"]]}


def impl_run(case):
    dim = len(case["fns"])
    res = {"pre": _precond(case), "std": _run_std(case, Fn(case))}
    if case.get("adaptive", True):
        res["adp"] = _run_adp(case, Fn(case))[0]
        res["asg"] = _run_asg(case)
    return res


# ----------------------------------------------------------------------------- model
def model_ops(case):
    low, h, npt, high = _geom(case)
    dim = len(case["fns"])
    fns = [{"coefs": [str(c) for c in fn["coefs"]], "extra": fn["extra"]} for fn in case["fns"]]
    ops = [{"op": "table", "low": case["low"], "high": [frac(v) for v in high], "npt": npt, "fns": fns}]
    for call in case["calls"]:
        ops.append({k: v for k, v in call.items()})
    ops.append({"op": "precond", "calls": [{"pts": c["pts"], **({"axis": c["axis"]} if c["op"] == "grad" else {})} for c in case["calls"]]})
    if case.get("adaptive", True):
        # default_base: the origin, which is what the (repaired) constructor uses when base_point is omitted
        ops.append({"op": "atable", "dx": case["h"], "base": case["low"], "dim": dim, "fns": fns})
        for call in case["calls"]:
            ops.append(dict(call, op="a" + call["op"]))
        ops.append({"op": "adump"})
        ops.append({"op": "atable", "dx": case["h"], "base": case["low"], "dim": dim, "fns": fns})
        for ci, call in enumerate(case["calls"]):
            ops.append({"op": "aquad_all", "pts": call["pts"]})
            if case.get("skip_assign") == ci:
                ops.append({"op": "aquad", "pts": call["pts"]})
            else:
                ops.append({"op": "aquad_assign", "pts": call["pts"], "rev": bool(case.get("rev")), "rot": int(case.get("rot", 0)),
                            "noidx": bool(case.get("noidx"))})
            ops.append(dict(call, op="a" + call["op"] + "_stored"))
        ops.append({"op": "adump"})
    return ops


def model_decode(outs, case):
    n = len(case["calls"])
    res = {"pre": outs[1 + n], "std": outs[1:1 + n]}
    if case.get("adaptive", True):
        res["adp"] = outs[3 + n:4 + 2 * n]
        rest = outs[5 + 2 * n:]
        res["asg"] = [{"all": rest[3 * k], "quad": rest[3 * k + 1], "res": rest[3 * k + 2]} for k in range(n)] + [rest[3 * n]]
        sk = case.get("skip_assign")
        if sk is not None and "err" in res["asg"][sk]["res"]:
            res["asg"][sk]["res"] = {"err": "refused"}
    return res


def _approx(case):
    """exact comparison only when binary64 is provably exact on this case (bit budget); otherwise tolerance class T"""
    if case.get("approx"):
        return True
    b = bit_budget(case)
    return b is None or b > 52


def compare(impl, model, case):
    tolr = 1e-9 if _approx(case) else None
    if "harness_exc" in impl:
        return "impl_run crashed: " + impl["harness_exc"]
    for part in ("pre", "std", "adp", "asg"):
        if (part in impl) != (part in model):
            return f"{part}: present in only one of impl/model"
        if part in impl:
            r = deep_compare(impl[part], model[part], part, tolr)
            if r:
                return r
    return None


# ----------------------------------------------------------------------------- oracle
def _in_box(case, p):
    low, h, npt, high = _geom(case)
    return all(low[i] <= F(p[i]) <= high[i] for i in range(case["d"]))


def _on_upper(case, p):
    low, h, npt, high = _geom(case)
    return any(F(p[i]) == high[i] for i in range(case["d"]))


def _eq(case, got, want):
    if _approx(case):
        return abs(float(got) - float(want)) <= 1e-9 * max(1.0, abs(float(want)))
    return F(float(got)) == want


def oracle(case):
    """The property on the real code, independent of the Lean model:
    (1) standard table: interpolate = f exactly for multilinear f at every point of the closed box; gradient = exact partial
        derivative (affine and multilinear f); a point outside the box raises ValueError, a point inside does not raise;
    (2) adaptive table (owning f): same values as the standard table at every queried point of the box (gradient: for general f
        only off the upper faces, where the two tables legitimately use different cells), each needed vertex evaluated once."""
    d, dim = case["d"], len(case["fns"])
    ml, aff = is_multilinear(case), is_affine(case)
    IT, AT, low, high, h, npt = _tables(case)
    fn_s, fn_a = Fn(case), Fn(case)
    t = IT(low, high, npt, fn_s, dim=dim)
    a = _mk_adaptive(case, AT, h, low, fn_a)
    use_adp = case.get("adaptive", True)
    buf = Buf(case)  # in the stratum `shared` the SAME array object goes to both tables, call after call
    for ci, call in enumerate(case["calls"]):
        pts = call["pts"]
        x = buf.get(pts, d)
        inside = all(_in_box(case, p) for p in pts)
        bad_axis = call["op"] == "grad" and not (0 <= call["axis"] < d)
        std = None
        xs_ = x[:, 0] if (len(pts) == 1 and case.get("rot", 0) % 2 == 0 and not case.get("shared")) else x  # single point as a 1-d array
        try:
            std = np.atleast_2d(t.interpolate(xs_) if call["op"] == "interp" else t.gradient(xs_, call["axis"]))
        except ValueError as e:
            if inside:
                return {"what": f"call {ci} ({call['op']}) raised ValueError for points inside the closed box: {pts}", "key": "inbox-raises"}
        except IndexError as e:
            if not bad_axis:
                return {"what": f"call {ci} ({call['op']}) raised IndexError at {pts}", "key": "std-indexerror"}
        except AssertionError as e:
            return {"what": f"call {ci} ({call['op']}) failed an internal assertion at {pts}", "key": "std-assertion"}
        if std is not None and not inside:
            return {"what": f"call {ci} ({call['op']}): a point outside the box did not raise ValueError: {pts}", "key": "outside-no-error"}
        if std is not None and bad_axis:
            return {"what": f"call {ci}: gradient along axis {call['axis']} of a {d}-parameter table did not raise", "key": "bad-axis-no-error"}
        if std is not None and ml:
            for r in range(dim):
                for j, p in enumerate(pts):
                    xq = [F(v) for v in p]
                    if call["op"] == "interp":
                        want = f_exact(case["fns"][r], d, xq)
                        if not _eq(case, std[r, j], want):
                            return {"what": f"interpolate({p}) component {r} = {frac(std[r, j])}, exact multilinear function = {want} (box low={case['low']} h={case['h']} npt={case['npt']})", "key": "interp-not-exact"}
                    else:
                        want = d_exact(case["fns"][r], d, xq, call["axis"])
                        if not _eq(case, std[r, j], want):
                            key = "grad-linear-not-exact" if aff else "grad-multilinear-not-exact"
                            if _on_upper(case, p):
                                key += "-upper-face"
                            return {"what": f"gradient({p}, axis={call['axis']}) component {r} = {frac(std[r, j])}, exact derivative = {want} (box low={case['low']} h={case['h']} npt={case['npt']})", "key": key}
        # adaptive table
        adp = None
        if not use_adp:
            continue
        try:
            adp = np.atleast_2d(a.interpolate(x) if call["op"] == "interp" else a.gradient(x, call["axis"]))
        except Exception as e:
            if not bad_axis:
                return {"what": f"adaptive table: call {ci} ({call['op']}) raised {type(e).__name__}: {e} at {pts}", "key": "adaptive-raises"}
        if adp is not None and std is not None:
            for r in range(dim):
                for j, p in enumerate(pts):
                    if call["op"] == "grad" and not ml and _on_upper(case, p):
                        continue
                    if not _eq(case, adp[r, j], F(float(std[r, j]))):
                        return {"what": f"adaptive {call['op']}({p}) component {r} = {frac(adp[r, j])} but standard table gives {frac(std[r, j])}", "key": "adaptive-differs-" + call["op"]}
        if adp is not None and ml and not inside:
            # the adaptive table has no box: it must still be exact for multilinear functions
            for r in range(dim):
                for j, p in enumerate(pts):
                    xq = [F(v) for v in p]
                    want = f_exact(case["fns"][r], d, xq) if call["op"] == "interp" else d_exact(case["fns"][r], d, xq, call["axis"])
                    if not _eq(case, adp[r, j], want):
                        return {"what": f"adaptive {call['op']}({p}) = {frac(adp[r, j])}, exact = {want}", "key": "adaptive-not-exact"}
    if use_adp:
        # adaptive table fed through quadrature_points_from_coordinates / assign_values (permuted order)
        asg = _run_asg(case)
        std_all = _run_std(case, Fn(case))
        for ci, (call, e, sres) in enumerate(zip(case["calls"], asg, std_all)):
            if case.get("skip_assign") == ci and isinstance(e["quad"], dict) and e["quad"].get("inds"):
                # values were withheld: if a vertex of a queried hypercube is among them (safeguarding extras do not
                # count) the table must refuse (assertion), never answer from missing data
                import itertools
                lo, hh, _, _ = _geom(case)
                used = set()
                for p in call["pts"]:
                    b = [math.floor((F(p[i]) - lo[i]) / hh[i]) for i in range(d)]
                    used |= {tuple(bi + ii for bi, ii in zip(b, inc)) for inc in itertools.product(range(2), repeat=d)}
                if not used & {tuple(i) for i in e["quad"]["inds"]}:
                    continue
                if "vals" in e["res"]:
                    return {"what": f"adaptive table without function answered call {ci} although {len(e['quad']['inds'])} needed vertices were never assigned", "key": "assigned-missing-no-error"}
                continue
            if not all(_in_box(case, p) for p in call["pts"]) or "vals" not in sres:
                continue
            if "vals" not in e["res"]:
                return {"what": f"adaptive table with assigned values: call {ci} ({call['op']}) raised {e['res']} at {call['pts']}", "key": "assigned-raises"}
            for r in range(dim):
                for j, p in enumerate(call["pts"]):
                    if call["op"] == "grad" and not ml and _on_upper(case, p):
                        continue
                    if not _eq(case, float(F(e["res"]["vals"][r][j])), F(sres["vals"][r][j])):
                        return {"what": f"adaptive table with assigned values: {call['op']}({p}) = {e['res']['vals'][r][j]} but standard table gives {sres['vals'][r][j]}", "key": "assigned-differs-" + call["op"]}
    if use_adp:
        nst = a._table._coords.shape[1]
        if fn_a.calls != nst or a._pt.shape[1] != nst:
            return {"what": f"adaptive table evaluated the function {fn_a.calls} times for {nst} stored vertices ({a._pt.shape[1]} stored coordinates)", "key": "adaptive-recomputes"}
        if len({tuple(c) for c in a._table._coords.T}) != nst:
            return {"what": "adaptive table stores a vertex twice", "key": "adaptive-duplicate-vertex"}
    return None


# ----------------------------------------------------------------------------- bookkeeping
def nontrivial(case):
    return len(case["calls"]) >= 2 and any(_in_box(case, p) and _on_upper(case, p) for c in case["calls"] for p in c["pts"])


def shrink_candidates(case):
    calls = case["calls"]
    for i in range(len(calls)):
        if len(calls) > 1:
            yield dict(case, calls=calls[:i] + calls[i + 1:])
    for i, c in enumerate(calls):
        if len(c["pts"]) > 1:
            for j in range(len(c["pts"])):
                yield dict(case, calls=calls[:i] + [dict(c, pts=c["pts"][:j] + c["pts"][j + 1:])] + calls[i + 1:])
    if len(case["fns"]) > 1:
        for i in range(len(case["fns"])):
            yield dict(case, fns=case["fns"][:i] + case["fns"][i + 1:])
    for i, fn in enumerate(case["fns"]):
        for m, co in enumerate(fn["coefs"]):
            if co:
                cs = list(fn["coefs"])
                cs[m] = 0
                yield dict(case, fns=case["fns"][:i] + [dict(fn, coefs=cs)] + case["fns"][i + 1:])
        if fn["extra"]:
            yield dict(case, fns=case["fns"][:i] + [dict(fn, extra=fn["extra"][1:])] + case["fns"][i + 1:])
    for i in range(case["d"]):
        if case["npt"][i] > 2:
            npt = list(case["npt"])
            npt[i] -= 1
            c2 = dict(case, npt=npt)
            if all(_in_box(c2, p) == _in_box(case, p) for c in calls for p in c["pts"]):
                yield c2


def stats(cases, impl_outs):
    from collections import Counter
    dd, dims, kinds, ops, pk = Counter(), Counter(), Counter(), Counter(), Counter()
    nerr = 0
    for c in cases:
        dd[str(c["d"])] += 1
        dims[str(len(c["fns"]))] += 1
        kinds["affine" if is_affine(c) else "multilinear" if is_multilinear(c) else "general"] += 1
        low, h, npt, high = _geom(c)
        for call in c["calls"]:
            ops[call["op"]] += 1
            for p in call["pts"]:
                x = [F(v) for v in p]
                if not _in_box(c, p):
                    pk["outside"] += 1
                    continue
                nb = sum(1 for i in range(c["d"]) if x[i] in (low[i], high[i]))
                up = any(x[i] == high[i] for i in range(c["d"]))
                node = all(((x[i] - low[i]) / h[i]).denominator == 1 for i in range(c["d"]))
                pk["corner" if nb == c["d"] else "boundary-upper" if up else "boundary-lower" if nb else "interior"] += 1
                if node:
                    pk["grid-node"] += 1
    st = Counter()
    for c in cases:
        for t in c.get("strata", []):
            st[t] += 1
        if c.get("noidx"):
            st["assign_without_indices"] += 1
        if c.get("skip_assign") is not None:
            st["assign_withheld"] += 1
        if c.get("default_base"):
            st["default_base_point"] += 1
        if len(c["fns"]) > 1:
            st["vector_valued"] += 1
    for out in impl_outs:
        if isinstance(out, dict):
            for part in ("std", "adp", "asg"):
                nerr += sum(1 for o in out.get(part, []) if isinstance(o, dict) and "err" in o)
    return {"d": dict(dd), "components": dict(dims), "function_kind": dict(kinds), "calls": dict(ops), "point_kinds": dict(pk), "strata": dict(st), "error_answers": nerr}
