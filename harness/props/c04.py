"""C04 Flow and energy models conserve mass and energy discretely.

case = (configuration of the fractured domain, model, fluid, discretisation, state seed).  For every balance
equation of the model the harness
  (i)   extracts the signed incidence matrices D_i (sd.cell_faces.T), the integrated mortar projections and the
        boundary-discretisation matrices through which interface fluxes enter the face fluxes (upwind `rhs_neu`,
        Tpfa/Mpfa `bound_flux`) from the REAL model and sends them to the Lean driver, which evaluates the
        hypotheses H1/H2/targets/Neumann-consistency and `upwindNeu` (the coded sign handling) exactly;
  (ii)  evaluates the named sub-operators of the real model separately (accumulation now/previous, total face flux,
        interface fluxes, source) and lets the Lean model combine them as `balance_equation` does; the result
        is compared with the real residual (H3), the leftovers (own flux on boundary faces, external source,
        net creation per interface) must vanish (H4);
  (iii) oracle: sum of the real residuals == sum of accumulation change / dt on the real code.
"""
from __future__ import annotations

import json
import os
import pathlib
import shutil
import tempfile
from fractions import Fraction

import numpy as np

from harness.common import frac

PID = "C04"
THEOREMS = [
    "PorepyVerif.C04.total_residual_balance",
    "PorepyVerif.C04.coupling_cancels",
    "PorepyVerif.C04.total_residual_eq_total_accumulation",
    "PorepyVerif.C04.upwind_neumann_consistent",
    "PorepyVerif.C04.total_residual_eq_total_accumulation_upwind",
    "PorepyVerif.C04.tpfa_neumann_consistent",
    "PorepyVerif.C04.adtpfa_neumann_consistent",
    "PorepyVerif.C04.adtpfa_shipped_gain_zero",
    "PorepyVerif.C04.total_residual_eq_total_accumulation_coded",
    "PorepyVerif.C04.closed_no_source_conservation",
    "PorepyVerif.C04.divergence_sum_is_boundary_flux",
    "PorepyVerif.C04.intercell_fluxes_cancel",
    "PorepyVerif.C04.divergence_sum_signed_boundary",
    "PorepyVerif.C04.rowStochastic_matMul",
    "PorepyVerif.C04.rowStochastic_applyUpdates",
    "PorepyVerif.C04.h2_of_set_projections",
    "PorepyVerif.C04.checkH1_sound",
    "PorepyVerif.C04.checkH2_sound",
    "PorepyVerif.C04.checkNC_sound",
    "PorepyVerif.C04.checkClosed_sound",
    "PorepyVerif.C04.checked_conservation",
    "PorepyVerif.C04.converged_step_conserves",
]
LEAN_MODULES = ["PorepyVerif.C04.Props"]
AUDIT = "PorepyVerif/C04/Audit.lean"
DRIVER = "PorepyVerif/C04/Driver.lean"
N = {"quick": 12, "thorough": 400}

RULE = ("case = configuration (2-D, 0-3 fractures incl. crossing / T / immersed / through-going; Cartesian, gmsh simplex, "
        "non-matching Cartesian with refined fracture and mortar grids; thorough tier also 3-D Cartesian cubes with 1-2 fracture planes) "
        "x flux laws (standard, or the differentiable DarcysLawAd / FouriersLawAd variants) x model (SinglePhaseFlow: mass balance; "
        "MassAndEnergyBalance: mass and energy balance) x fluid (compressible + thermal expansion / incompressible) x flux "
        "discretisation (Mpfa default / Tpfa) x state (seeded random pressure, temperature and interface fluxes at the iterate "
        "AND at the previous time step, amplitude 0.01-5, dt dyadic 1/4-8, upwind directions consistent with the state or "
        "stale; amplitudes 1e-8..40, dt 2^-20..2^20). Default closed domain without sources; strata: external sources (super()+array, as the "
        "docstrings advise: the -sum(src) term) and an open Dirichlet west boundary (the boundary-outflow term of total_residual_balance). "
        "Per case also the construction of the integrated projections (transposed averaged maps, row sums) is sent to the driver. quick tier: 4 prepared "
        "models (always one non-matching, one simplex, one Cartesian with crossing fractures) x 3 states; non-trivial = "
        "at least one fracture (interface fluxes present); distinct = distinct (configuration, model, fluid, discretisation, state)")
TRUSTED = [
    "modelled, not verified: that the constitutive flux expressions (Darcy/Fourier flux by Mpfa/Tpfa, upwinded advective flux, "
    "interface upwinding) have the form H3 'own flux + B P_pm lambda' with own flux vanishing on closed boundary faces - checked per sample "
    "only (leftover flux on boundary faces, external source and net creation per interface are computed exactly by the Lean "
    "model from the real sub-operator values and must vanish to 1e-9 relative)",
    "Neumann consistency (1^T D B = 1 on fracture faces) of the Mpfa bound_flux is a hypothesis of the theorem, checked numerically "
    "per sample on the real matrices; for the upwind rhs_neu, the Tpfa bound_flux and the (repaired) differentiable-Tpfa boundary matrix it is "
    "PROVED from H1 for the matrices as coded, and the coded matrices are compared entry by entry with the real ones (upwind, Tpfa)",
    "porepy's AD machinery (operator parsing, Divergence / projection block assembly) is used to evaluate the sub-operators; the block "
    "matrices sent to Lean are taken from the grids (sd.cell_faces, intf.mortar_to_*_int) and the data dictionaries, not from the AD wrappers",
    "binary64 rounding: the Lean model combines the float values of the sub-operators exactly; comparison with the real residual "
    "uses 1e-9 relative to the magnitude of the terms",
]
EXPLANATION = ("CORE: theorem total_residual_eq_total_accumulation over Q for any md-graph (any number of subdomains and interface "
               "fluxes): H2 + Neumann consistency + closed boundary => sum of residuals = sum of accumulation rate - sources; "
               "total_residual_eq_total_accumulation_coded needs only H1+H2+H4 when every boundary matrix is one of the coded ones (upwind "
               "rhs_neu, Tpfa bound_flux, repaired differentiable Tpfa); adtpfa_shipped_gain_zero shows why FouriersLawAd as shipped is not "
               "conservative (open finding). Clause map: 'sum of residuals = accumulation rate for every state' -> "
               "total_residual_eq_total_accumulation(_coded/_upwind), closed_no_source_conservation, checked_conservation (all hypotheses as the "
               "Boolean checkAll evaluated by the driver per case); 'inter-cell fluxes cancel' -> divergence_sum_is_boundary_flux, "
               "intercell_fluxes_cancel, divergence_sum_signed_boundary; 'interface fluxes cancel' -> coupling_cancels with H2 derived from the "
               "projection construction (rowStochastic_matMul, rowStochastic_applyUpdates, h2_of_set_projections); 'nothing created or lost' -> "
               "converged_step_conserves; sources / open boundary -> total_residual_balance. Tie: hypotheses evaluated exactly on "
               "the real matrices by the Lean driver, residual recombined by the Lean model from real sub-operator values and "
               "compared with the real residual, conclusion checked directly on EquationSystem.evaluate (oracle). Partial: the flux "
               "constitutive laws are not modelled, only their decomposition is checked per sample.")
ASSUMPTIONS = ["closed boundaries (zero Neumann data on all external boundary faces) and no external sources, as in the property statement",
               "states are kept where exp() of the compressible density law does not overflow (|p|,|T| <= 5)"]

RTOL = 1e-9

# ------------------------------------------------------------------------------------------------ configurations
_M = {"cell_size_x": 0.5, "cell_size_y": 0.5}
_MF = {"cell_size_x": 0.5, "cell_size_y": 0.25}
_S = {"cell_size": 0.5, "cell_size_fracture": 0.5, "cell_size_boundary": 0.5, "cell_size_min": 0.2}
_SQ = {"cell_size": 0.7, "cell_size_fracture": 0.7, "cell_size_boundary": 0.7, "cell_size_min": 0.3}
H1F = [[0.0, 2.0], [0.5, 0.5]]      # through-going horizontal fracture
IMM = [[0.5, 1.5], [0.5, 0.5]]      # immersed horizontal fracture
V1 = [[1.0, 1.0], [0.25, 0.75]]     # short vertical fracture crossing H1F
V2 = [[0.5, 0.5], [0.0, 1.0]]       # through-going vertical fracture crossing H1F
TJ = [[1.5, 1.5], [0.5, 1.0]]       # vertical fracture ending on H1F (T) and on the boundary
TILT = [[0.3, 0.7], [0.3, 0.7]]     # tilted fracture through the crossing of H1F and V2
CONFIGS = {
    "cart_f0": {"geo": "free", "grid": "cartesian", "mesh": _M, "fracs": []},
    "cart_f1_through": {"geo": "free", "grid": "cartesian", "mesh": _M, "fracs": [H1F]},
    "cart_f1_immersed": {"geo": "free", "grid": "cartesian", "mesh": _M, "fracs": [IMM]},
    "cart_f2_cross": {"geo": "free", "grid": "cartesian", "mesh": _MF, "fracs": [H1F, V1]},
    "cart_f3": {"geo": "free", "grid": "cartesian", "mesh": _M, "fracs": [H1F, V2, TJ]},
    # fracture grid refined x frac_ratio, mortar grids refined x intf_ratio: neither projection is a permutation
    "nonmatch_f1": {"geo": "nonmatching", "grid": "cartesian", "fracture_indices": [1], "frac_ratio": 3, "intf_ratio": 2},
    "nonmatch_f2": {"geo": "nonmatching", "grid": "cartesian", "fracture_indices": [0, 1], "frac_ratio": 2, "intf_ratio": 3},
    "nonmatch_f1_coarse": {"geo": "nonmatching", "grid": "cartesian", "fracture_indices": [0], "frac_ratio": 2, "intf_ratio": 1},
    "simplex_f0": {"geo": "free", "grid": "simplex", "mesh": _SQ, "fracs": []},
    "simplex_f1": {"geo": "free", "grid": "simplex", "mesh": _SQ, "fracs": [IMM]},
    "simplex_f2_cross": {"geo": "free", "grid": "simplex", "mesh": _SQ, "fracs": [H1F, V2]},
    "simplex_f3": {"geo": "free", "grid": "simplex", "mesh": _S, "fracs": [H1F, V2, TILT]},
}
CONFIGS.update({
    # 3-D Cartesian 2x2x2 (test-suite mixin CubeDomainOrthogonalFractures): one fracture plane / two crossing planes (1-D intersection line)
    "cube_f1": {"geo": "cube", "grid": "cartesian", "fracture_indices": [0]},
    "cube_f2_cross": {"geo": "cube", "grid": "cartesian", "fracture_indices": [0, 1]},
})
THREE_D = ["cube_f1", "cube_f2_cross"]
CARTESIAN_FRACTURED = ["cart_f1_through", "cart_f1_immersed", "cart_f2_cross", "cart_f3"]
NONMATCHING = ["nonmatch_f1", "nonmatch_f2", "nonmatch_f1_coarse"]
SIMPLEX_QUICK = ["simplex_f1", "simplex_f2_cross"]
SIMPLEX = ["simplex_f0", "simplex_f1", "simplex_f2_cross", "simplex_f3"]

FLUID_COMP = dict(compressibility=0.3, density=1.1, viscosity=1.3, specific_heat_capacity=0.8, thermal_conductivity=0.6, thermal_expansion=0.2)
FLUID_INCOMP = dict(compressibility=0.0, density=1.1, viscosity=1.3, specific_heat_capacity=0.8, thermal_conductivity=0.6, thermal_expansion=0.0)
SOLID = dict(porosity=0.3, permeability=0.7, normal_permeability=0.9, residual_aperture=0.05, density=2.1, specific_heat_capacity=0.7,
             thermal_conductivity=1.4)

_MODELS: dict = {}
_EVAL: dict = {}


def _ext_source_values(sds, which):
    """Deterministic, sign-changing external source per cell (integrated over the cell), distinct per equation."""
    n = sum(sd.num_cells for sd in sds)
    k = np.arange(n)
    return (0.25 if which == "mass" else -0.5) * (((k * 7 + 3) % 5) - 1.5) / 4.0


def _build_model(config, kind, compressible, tpfa, ad_flux=False, ext_source=False, open_bc=False):
    key = (config, kind, bool(compressible), bool(tpfa), bool(ad_flux), bool(ext_source), bool(open_bc))
    if key in _MODELS:
        return _MODELS[key]
    import porepy as pp
    from porepy.applications.md_grids.model_geometries import (CubeDomainOrthogonalFractures,
                                                                NonMatchingSquareDomainOrthogonalFractures)

    cfg = CONFIGS[config]
    tmp = tempfile.mkdtemp(prefix="c04_gmsh_")

    class FreeGeometry(pp.PorePyModel):
        def set_domain(self):
            self._domain = pp.Domain({"xmin": 0, "xmax": 2.0, "ymin": 0, "ymax": 1.0})

        def set_fractures(self):
            self._fractures = [pp.LineFracture(np.array(f, dtype=float)) for f in cfg["fracs"]]

        def grid_type(self):
            return cfg["grid"]

        def meshing_arguments(self):
            return dict(cfg["mesh"])

        def meshing_kwargs(self):
            return {"file_name": pathlib.Path(tmp) / "mesh"}

    class ClosedBoundary(pp.PorePyModel):
        """No-flow (zero Neumann) conditions on every external boundary face, for all fluxes."""

        def _neu(self, sd):
            return pp.BoundaryCondition(sd, self.domain_boundary_sides(sd).all_bf, "neu")

        def bc_type_darcy_flux(self, sd):
            return self._neu(sd)

        def bc_type_fluid_flux(self, sd):
            return self._neu(sd)

        def bc_type_fourier_flux(self, sd):
            return self._neu(sd)

        def bc_type_enthalpy_flux(self, sd):
            return self._neu(sd)

    class OpenWestBoundary(ClosedBoundary):
        """Dirichlet data (pressure 0.7, temperature 0.4) on the west side, no-flow elsewhere: in/outflow through the boundary."""

        def _neu(self, sd):
            return pp.BoundaryCondition(sd, self.domain_boundary_sides(sd).west, "dir")

        def bc_values_pressure(self, bg):
            return 0.7 * np.ones(bg.num_cells)

        def bc_values_temperature(self, bg):
            return 0.4 * np.ones(bg.num_cells)

    class ExternalSource(pp.PorePyModel):
        """External sources added the way the docstrings of fluid_source / energy_source advise (super() + extra term)."""

        def fluid_source(self, subdomains):
            return super().fluid_source(subdomains) + pp.ad.DenseArray(_ext_source_values(subdomains, "mass"), "c04_mass_source")

        def energy_source(self, subdomains):
            return super().energy_source(subdomains) + pp.ad.DenseArray(_ext_source_values(subdomains, "energy"), "c04_energy_source")

    class TpfaFluxes(pp.PorePyModel):
        def darcy_flux_discretization(self, subdomains):
            return pp.ad.TpfaAd(self.darcy_keyword, subdomains)

        def fourier_flux_discretization(self, subdomains):
            return pp.ad.TpfaAd(self.fourier_keyword, subdomains)

    physics = pp.SinglePhaseFlow if kind == "flow" else pp.MassAndEnergyBalance
    geo = {"free": FreeGeometry, "nonmatching": NonMatchingSquareDomainOrthogonalFractures, "cube": CubeDomainOrthogonalFractures}[cfg["geo"]]
    # differentiable flux laws (AdTpfaFlux): DarcysLawAd, and FouriersLawAd for the energy balance
    ad = ()
    if ad_flux:
        ad = (pp.constitutive_laws.DarcysLawAd,) + ((pp.constitutive_laws.FouriersLawAd,) if kind == "thermal" else ())
    bases = (geo, OpenWestBoundary if open_bc else ClosedBoundary) + ((ExternalSource,) if ext_source else ()) \
        + ((TpfaFluxes,) if tpfa else ()) + ad + (physics,)
    Model = type("C04Model", bases, {})
    params = {
        "times_to_export": [],
        "material_constants": {"fluid": pp.FluidComponent(**(FLUID_COMP if compressible else FLUID_INCOMP)),
                               "solid": pp.SolidConstants(**SOLID)},
        "reference_variable_values": pp.ReferenceVariableValues(pressure=0.1, temperature=0.2),
    }
    if cfg["geo"] == "cube":
        params.update({"fracture_indices": cfg["fracture_indices"], "grid_type": "cartesian", "meshing_arguments": {"cell_size": 0.5}})
    if cfg["geo"] == "nonmatching":
        params.update({"fracture_indices": cfg["fracture_indices"], "grid_type": "cartesian",
                       "meshing_arguments": {"cell_size": 0.5},
                       "fracture_refinement_ratio": cfg["frac_ratio"], "interface_refinement_ratio": cfg["intf_ratio"]})
    cwd = os.getcwd()
    try:
        os.chdir(tmp)  # any file a mesher writes with a default name lands in the scratch directory
        m = Model(params)
        m.prepare_simulation()
    finally:
        os.chdir(cwd)
        shutil.rmtree(tmp, ignore_errors=True)
    _MODELS[key] = m
    return m


# ------------------------------------------------------------------------------------------------ generator
_PLAN: dict = {}


def _state(rng):
    return {"state_seed": rng.randrange(1 << 30), "amp": rng.choice([1e-8, 0.01, 1.0, 1.0, 5.0, 40.0]),
            "dt": rng.choice([2.0 ** -20, 0.25, 0.5, 1.0, 2.0, 8.0, 2.0 ** 20]),
            "consistent_upwind": rng.random() < 0.6,
            "special": rng.choice(["none", "none", "none", "zero_interface_flux", "uniform_previous", "steady"])}


def gen_case(rng, tier):
    if tier == "quick":
        # a small plan of prepared models (model preparation dominates the cost), several states each
        if tier not in _PLAN:
            plan = [
                {"config": rng.choice(NONMATCHING[:2]), "kind": "thermal"},
                {"config": rng.choice(SIMPLEX_QUICK), "kind": rng.choice(["flow", "thermal"])},
                {"config": rng.choice(["cart_f2_cross", "cart_f3"]), "kind": "thermal"},
                {"config": rng.choice(CARTESIAN_FRACTURED + ["cart_f0"]), "kind": "flow"},
            ]
            flip = rng.randrange(2)  # both fluids occur in every quick run
            for k, p in enumerate(plan):
                p["compressible"] = (k + flip) % 2 == 0
                p["tpfa"] = rng.random() < 0.3
                p["ad_flux"] = (k == 3)  # DarcysLawAd in the flow model; FouriersLawAd is covered by the replayed finding / corpus case
                p["ext_source"] = (k == 2)  # external sources: the -sum(src) term of the balance
                p["open_bc"] = (k == 3)     # open (Dirichlet) west boundary: the boundary-outflow term of the general balance
            _PLAN[tier] = {"plan": plan, "k": 0}
        st = _PLAN[tier]
        base = st["plan"][st["k"] % len(st["plan"])]
        st["k"] += 1
    else:
        base = {"config": rng.choice(list(CONFIGS)), "kind": rng.choice(["flow", "thermal"]),
                "compressible": rng.random() < 0.5, "tpfa": rng.random() < 0.3, "ad_flux": rng.random() < 0.25,
                "ext_source": rng.random() < 0.25, "open_bc": rng.random() < 0.25}
    c = dict(base)
    c.update(_state(rng))
    return c


# ------------------------------------------------------------------------------------------------ real code
def _set_state(m, case):
    """Random non-converged state: all primary variables (pressure, temperature, interface Darcy / Fourier / enthalpy
    fluxes) at the current iterate and at the previous time step; upwind discretisation consistent or stale."""
    es = m.equation_system
    n = es.num_dofs()
    rs = np.random.RandomState(case["state_seed"])
    amp = float(case["amp"])
    prev = rs.uniform(-amp, amp, n)
    cur = rs.uniform(-amp, amp, n)
    other = rs.uniform(-amp, amp, n)
    sp = case.get("special", "none")
    if sp == "uniform_previous":
        prev = np.full(n, 0.25 * amp)
    if sp == "steady":
        prev = cur.copy()
    if sp == "zero_interface_flux":
        import porepy as pp
        intf_vars = [v for v in es.variables if isinstance(v.domain, pp.MortarGrid)]
        if intf_vars:
            cur[es.dofs_of(intf_vars)] = 0.0
    m.ad_time_step.set_value(float(case["dt"]))
    es.set_variable_values(prev, time_step_index=0)
    # upwind directions from `cur` (consistent) or from an unrelated state (stale), deterministic either way
    es.set_variable_values(cur if case["consistent_upwind"] else other, iterate_index=0)
    m.update_derived_quantities()
    m.update_flux_values()
    m.rediscretize()
    es.set_variable_values(cur, iterate_index=0)
    m.update_derived_quantities()


def _operators(m, fourier_chan="bound_flux"):
    """The named sub-operators of every balance equation of the model (built once per model)."""
    if hasattr(m, "_c04_ops"):
        return m._c04_ops
    sds = m.mdg.subdomains()
    intfs = m.mdg.interfaces(codim=1)
    ops = {}
    acc = m.fluid_mass(sds)
    ops["mass"] = {"name": "mass_balance_equation", "acc": acc, "acc_prev": acc.previous_timestep(), "flux": m.fluid_flux(sds),
                   "source": m.fluid_source(sds),
                   "lams": [("upwind", m.mobility_keyword, m.interface_fluid_flux(intfs))] if intfs else [],
                   "upwind_kw": m.mobility_keyword}
    if hasattr(m, "energy_balance_equation"):
        acc = m.volume_integral(m.total_internal_energy(sds), sds, dim=1)
        ops["energy"] = {"name": "energy_balance_equation", "acc": acc, "acc_prev": acc.previous_timestep(),
                         "flux": m.energy_flux(sds), "source": m.energy_source(sds),
                         "lams": [(fourier_chan, m.fourier_keyword, m.interface_fourier_flux(intfs)),
                                  ("upwind", m.enthalpy_keyword, m.interface_enthalpy_flux(intfs))] if intfs else [],
                         "upwind_kw": m.enthalpy_keyword}
    m._c04_ops = ops
    return ops


def _split(v, sizes):
    off = np.cumsum([0] + list(sizes))
    return [np.asarray(v[off[i]:off[i + 1]], dtype=float) for i in range(len(sizes))]


def _evaluate(case):
    """Everything the three hooks need, evaluated once per case on the real model."""
    key = json.dumps(case, sort_keys=True)
    if key in _EVAL:
        return _EVAL[key]
    import porepy as pp
    import scipy.sparse as sps

    ad_flux = bool(case.get("ad_flux", False))
    m = _build_model(case["config"], case["kind"], case["compressible"], case["tpfa"], ad_flux,
                     bool(case.get("ext_source", False)), bool(case.get("open_bc", False)))
    _set_state(m, case)
    # how the interface Fourier flux enters the face fluxes: differentiable Tpfa (repaired form, see finding), Tpfa as coded, or Mpfa
    fourier_chan = "adtpfa" if ad_flux else ("tpfa" if case["tpfa"] else "bound_flux")
    es = m.equation_system
    mdg = m.mdg
    sds = mdg.subdomains()
    intfs = mdg.interfaces(codim=1)
    ev = lambda op: np.atleast_1d(np.asarray(es.evaluate(op), dtype=float))
    dt = float(ev(m.ad_time_step)[0])
    ncs = [sd.num_cells for sd in sds]
    nfs = [sd.num_faces for sd in sds]
    nms = [int(i.num_cells) for i in intfs]
    out = {"eqs": {}, "sizes": {"cells": ncs, "faces": nfs, "mortar": nms, "dims": [sd.dim for sd in sds]}}
    Ds = [sps.csr_matrix(sd.cell_faces.T, dtype=float) if sd.dim > 0 else sps.csr_matrix((sd.num_cells, 0)) for sd in sds]
    for eq, o in _operators(m, fourier_chan).items():
        r = _split(ev(es.equations[o["name"]]), ncs)
        a1 = _split(ev(o["acc"]), ncs)
        a0 = _split(ev(o["acc_prev"]), ncs)
        flux = _split(ev(o["flux"]), nfs)
        source = _split(ev(o["source"]), ncs)
        F = [f.copy() for f in flux]
        src = [s.copy() for s in source]
        cps = []
        neu = []
        upw_real = []
        for i, sd in enumerate(sds):
            if sd.dim == 0:
                neu.append(np.zeros(0, dtype=bool)); upw_real.append(np.zeros(0)); continue
            data = mdg.subdomain_data(sd)
            neu.append(np.asarray(data[pp.PARAMETERS][o["upwind_kw"]]["bc"].is_neu, dtype=bool))
            Bn = sps.csr_matrix(data[pp.DISCRETIZATION_MATRICES][o["upwind_kw"]]["rhs_neu"])
            offdiag = Bn - sps.diags(Bn.diagonal())
            upw_real.append(Bn.diagonal() if abs(offdiag).sum() == 0 else np.full(sd.num_faces, np.nan))
        for chan, kw, lam_op in o["lams"]:
            lam = _split(ev(lam_op), nms)
            for j, intf in enumerate(intfs):
                sd_p, sd_s = mdg.interface_to_subdomain_pair(intf)
                ip, isec = sds.index(sd_p), sds.index(sd_s)
                Ppm = sps.csr_matrix(intf.mortar_to_primary_int())
                Psm = sps.csr_matrix(intf.mortar_to_secondary_int())
                dp = mdg.subdomain_data(sd_p)
                mats = dp[pp.DISCRETIZATION_MATRICES][kw]
                colsum = np.asarray(Ds[ip].sum(axis=0)).ravel()
                coded = {}
                real_diag = None
                if chan == "upwind":
                    B = sps.csc_matrix(mats["rhs_neu"])
                    coded = {"coded": "upwind"}
                    real_diag = B.diagonal() if abs(B - sps.diags(B.diagonal())).sum() == 0 else np.full(B.shape[0], np.nan)
                elif chan == "tpfa":
                    B = sps.csc_matrix(mats["bound_flux"])
                    bc = dp[pp.PARAMETERS][kw]["bc"]
                    bnd = np.zeros(sd_p.num_faces, dtype=bool); bnd[sd_p.get_all_boundary_faces()] = True
                    neu_eff = np.logical_or(bc.is_neu, bc.is_internal)
                    real_diag = B.diagonal() if abs(B - sps.diags(B.diagonal())).sum() == 0 else np.full(B.shape[0], np.nan)
                    tdir = np.zeros(sd_p.num_faces)
                    dirf = bnd & ~neu_eff & (colsum != 0)
                    tdir[dirf] = -real_diag[dirf] / colsum[dirf]
                    coded = {"coded": "tpfa", "bnd": bnd, "neu": neu_eff, "tdir": tdir}
                elif chan == "adtpfa":
                    # AdTpfaFlux.diffusive_flux: t_bnd = (external_neu_filter + internal_boundary_filter) * bnd_sgn (+ Dirichlet part);
                    # the shipped code omits internal_boundary_filter (finding FouriersLawAd); the model follows the property
                    bc = dp[pp.PARAMETERS][kw]["bc"]
                    ext = np.asarray(sd_p.tags["domain_boundary_faces"], dtype=bool)
                    intb = np.asarray(sd_p.tags["fracture_faces"], dtype=bool)
                    ext_neu, ext_dir = ext & bc.is_neu, ext & bc.is_dir
                    B = sps.csc_matrix(sps.diags(colsum * (ext_neu.astype(float) + intb.astype(float))))
                    coded = {"coded": "adtpfa", "extNeu": ext_neu, "extDir": ext_dir, "intb": intb, "tf": np.ones(sd_p.num_faces)}
                else:
                    B = sps.csc_matrix(mats["bound_flux"])
                y = Ppm @ lam[j]
                F[ip] -= B @ y
                src[isec] -= Psm @ lam[j]
                targets = np.unique(Ppm.nonzero()[0])
                mask = np.zeros(B.shape[1]); mask[targets] = 1.0
                cps.append({"chan": chan, "prim": ip, "sec": isec, "nm": nms[j], "Ppm": Ppm.tocoo(), "Psm": Psm.tocoo(),
                            "B": (B @ sps.diags(mask)).tocoo(), "lam": lam[j], "intf": j, "coded": coded, "real_diag": real_diag})
        # magnitude of the terms (for tolerances)
        terms = sum(float(np.abs((a1[i] - a0[i]) / dt).sum() + (abs(Ds[i]) @ np.abs(flux[i])).sum() + np.abs(source[i]).sum())
                    for i in range(len(sds)))
        # what the configuration prescribes: external source per cell, and the own flux through EXTERNAL boundary faces
        src_known = _split(_ext_source_values(sds, eq) if case.get("ext_source") else np.zeros(sum(ncs)), ncs)
        ext_out = 0.0
        if case.get("open_bc"):
            for i, sd in enumerate(sds):
                if sd.dim > 0:
                    ext = np.asarray(sd.tags["domain_boundary_faces"], dtype=bool)
                    cs = np.asarray(Ds[i].sum(axis=0)).ravel()
                    ext_out += float((cs[ext] * flux[i][ext]).sum())
        ext_masks = [np.asarray(sd.tags["domain_boundary_faces"], dtype=bool) if sd.dim > 0 else np.zeros(0, dtype=bool) for sd in sds]
        out["eqs"][eq] = {"src_known": src_known, "ext_out": ext_out, "ext_masks": ext_masks, "open_bc": bool(case.get("open_bc")), "r": r, "a1": a1, "a0": a0, "flux": flux, "source": source, "F": F, "src": src, "cps": cps, "neu": neu,
                          "upw_real": upw_real, "D": Ds, "dt": dt, "scale": max(terms, 1e-300)}
    # construction of the integrated projections: averaged maps (after all grid replacements) and their transposes
    out["proj"] = []
    for j, intf in enumerate(intfs):
        for side, avg, pint in (("primary", intf.primary_to_mortar_avg(), intf.mortar_to_primary_int()),
                                ("secondary", intf.secondary_to_mortar_avg(), intf.mortar_to_secondary_int())):
            out["proj"].append({"intf": j, "side": side, "avg": sps.coo_matrix(avg), "int": sps.coo_matrix(pint)})
    if len(_EVAL) > 400:
        _EVAL.clear()
    _EVAL[key] = out
    return out


def _trip(coo, exact_int=False):
    return [[int(r), int(c), frac(int(v)) if exact_int else frac(float(v))] for r, c, v in zip(coo.row, coo.col, coo.data) if v != 0]


def impl_run(case):
    """Real residual and real totals per balance equation; hypotheses evaluated with numpy on the real matrices;
    what the property assumes (closed, no sources) is stated as such (outflow / src / net = 0)."""
    E = _evaluate(case)
    res = {}
    for eq, e in E["eqs"].items():
        nsd = len(e["r"])
        colsums = [np.asarray(e["D"][i].sum(axis=0)).ravel() for i in range(nsd)]
        h1 = [bool(np.all(np.isin(cs, [-1.0, 0.0, 1.0]))) for cs in colsums]
        h2dev, targets, gaindev = [], [], []
        for cp in e["cps"]:
            Ppm, Psm, B = cp["Ppm"].tocsr(), cp["Psm"].tocsr(), cp["B"].tocsr()
            cp_dev = 0.0
            if cp["nm"]:
                cp_dev = max(float(np.abs(np.asarray(Ppm.sum(axis=0)).ravel() - 1).max()), float(np.abs(np.asarray(Psm.sum(axis=0)).ravel() - 1).max()))
            h2dev.append(cp_dev)
            tg = np.unique(Ppm.nonzero()[0])
            cs = colsums[cp["prim"]]
            targets.append(bool(np.all(cs[tg] != 0)))
            gain = np.asarray(cs @ B).ravel()
            gaindev.append(float(np.abs(gain[tg] - 1).max()) if tg.size else 0.0)
        res[eq] = {
            "res": [[float(x) for x in ri] for ri in e["r"]],
            "total": float(sum(ri.sum() for ri in e["r"])),
            "acc": float(sum(((e["a1"][i] - e["a0"][i]) / e["dt"]).sum() for i in range(nsd))),
            "src": float(sum(x.sum() for x in e["src_known"])), "outflow": e["ext_out"], "net": [0.0] * len(e["cps"]),
            "h1": h1, "h2dev": h2dev, "targets": targets, "gaindev": gaindev,
            "upwindB": [[float(x) for x in u] for u in e["upw_real"]],
            "Bdiag": [None if cp["real_diag"] is None else [float(x) for x in cp["real_diag"]] for cp in e["cps"]],
            "scale": e["scale"],
        }
    res["proj"] = []
    for p in E["proj"]:
        a = p["avg"].tocsr()
        rows = np.asarray(a.sum(axis=1)).ravel()
        res["proj"].append({"rowdev": float(np.abs(rows - 1).max()) if rows.size else 0.0,
                            "int": sorted([int(r), int(c), frac(float(v))] for r, c, v in zip(p["int"].row, p["int"].col, p["int"].data) if v != 0)})
    return res


def model_ops(case):
    E = _evaluate(case)
    ops = []
    for eq, e in E["eqs"].items():
        sds = []
        for i in range(len(e["r"])):
            sds.append({"nc": len(e["r"][i]), "nf": len(e["flux"][i]), "D": _trip(e["D"][i].tocoo(), exact_int=True),
                        "accNow": [frac(x) for x in e["a1"][i]], "accPrev": [frac(x) for x in e["a0"][i]],
                        "F": [frac(x) for x in e["F"][i]], "src": [frac(x) for x in e["src"][i]],
                        "neu": [int(b) for b in e["neu"][i]]})
        cps = []
        for cp in e["cps"]:
            d = {"prim": cp["prim"], "sec": cp["sec"], "nm": cp["nm"], "Ppm": _trip(cp["Ppm"]), "Psm": _trip(cp["Psm"]),
                 "lam": [frac(x) for x in cp["lam"]]}
            if cp["coded"]:
                # the driver builds the boundary matrix AS CODED (upwindNeu / tpfaBoundFlux / adTpfaBound) from D and the flags
                for k, v in cp["coded"].items():
                    d[k] = v if isinstance(v, str) else ([frac(x) for x in v] if v.dtype == float else [int(x) for x in v])
            else:
                d["B"] = _trip(cp["B"])
            cps.append(d)
        ops.append({"op": "mdg", "eq": eq, "dt": frac(e["dt"]), "sds": sds, "cps": cps})
    for p in E["proj"]:
        ops.append({"op": "setproj", "n": int(p["avg"].shape[0]), "ncols": int(p["avg"].shape[1]), "avg": _trip(p["avg"])})
    return ops


def model_decode(outs, case):
    eqs = ["mass"] + (["energy"] if case["kind"] == "thermal" else [])
    d = {eq: o for eq, o in zip(eqs, outs)}
    d["proj"] = outs[len(eqs):]
    return d


def compare(impl, model, case):
    if "harness_exc" in impl:
        return "implementation run failed: " + impl["harness_exc"]
    if set(impl) != set(model):
        return f"equations {sorted(impl)} vs {sorted(model)}"
    if len(impl["proj"]) != len(model["proj"]):
        return "number of projection ops differs"
    for k, (pa, pb) in enumerate(zip(impl["proj"], model["proj"])):
        if "err" in pb:
            return f"projection {k}: driver answered {pb}"
        fr = lambda x: float(Fraction(x))
        if fr(pb["rowdev"]) > 1e-12 or abs(pa["rowdev"] - fr(pb["rowdev"])) > 1e-12:
            return f"projection {k}: averaged map is not row-stochastic: numpy {pa['rowdev']} Lean {pb['rowdev']}"
        if any(abs(fr(c) - 1) > 1e-12 for c in pb["colsums"]):
            return f"projection {k}: transposed averaged map does not have unit column sums"
        if sorted([int(r), int(c), str(v)] for r, c, v in pb["int"] if Fraction(v) != 0) != [[r, c, str(v)] for r, c, v in pa["int"]]:
            return f"projection {k}: real integrated projection is not the transpose of the averaged map (_set_projections)"
    for eq in impl:
        if eq == "proj":
            continue
        a, b = impl[eq], model[eq]
        if "err" in b:
            return f"{eq}: driver answered {b}"
        tol = RTOL * a["scale"]
        f = lambda x: float(Fraction(x))
        if len(a["res"]) != len(b["res"]):
            return f"{eq}: number of subdomains differs"
        for i, (ra, rb) in enumerate(zip(a["res"], b["res"])):
            if len(ra) != len(rb):
                return f"{eq}: residual length differs on subdomain {i}"
            for c, (x, y) in enumerate(zip(ra, rb)):
                if abs(x - f(y)) > tol:
                    return (f"{eq}: H3 broken: real residual {x} vs balance_equation combination of the real sub-operators {f(y)} "
                            f"(subdomain {i}, cell {c}, tol {tol:.3g})")
        for k in ("total", "acc", "src", "outflow"):
            if abs(a[k] - f(b[k])) > tol:
                return f"{eq}: {k}: implementation {a[k]} vs model {f(b[k])} (tol {tol:.3g}); closed-boundary / no-source / H3 decomposition violated"
        for j, (x, y) in enumerate(zip(a["net"], b["net"])):
            if abs(x - f(y)) > tol:
                return f"{eq}: interface flux {j} creates {f(y)} between primary and secondary (tol {tol:.3g})"
        if b.get("exact") and Fraction(b["total"]) != Fraction(b["acc"]) - Fraction(b["src"]):
            return f"{eq}: all Boolean hypotheses hold exactly but the model's totals differ: theorem checked_conservation contradicted"
        if a["h1"] != b["h1"] or not all(b["h1"]):
            return f"{eq}: H1 (column sums of the divergence in {{0,1,-1}}): numpy {a['h1']} Lean {b['h1']}"
        if a["targets"] != b["targets"] or not all(b["targets"]):
            return f"{eq}: mortar_to_primary_int hits non-boundary faces: numpy {a['targets']} Lean {b['targets']}"
        for k, lim in (("h2dev", 1e-12), ("gaindev", 1e-9)):
            for j, (x, y) in enumerate(zip(a[k], b[k])):
                if abs(x - f(y)) > 1e-12 or f(y) > lim:
                    return f"{eq}: {k} of coupling {j}: numpy {x} Lean {f(y)} (limit {lim})"
        for j, (da, db) in enumerate(zip(a["Bdiag"], b["Bdiag"])):
            if da is not None and (len(da) != len(db) or any(not (x == f(y)) for x, y in zip(da, db))):
                return f"{eq}: boundary matrix of coupling {j} (rhs_neu / Tpfa bound_flux) differs from the coded model: real {da} model {[str(y) for y in db]}"
        if len(a["upwindB"]) != len(b["upwindB"]):
            return f"{eq}: upwindB length"
        for i, (ua, ub) in enumerate(zip(a["upwindB"], b["upwindB"])):
            if len(ua) != len(ub) or any(not (x == f(y)) for x, y in zip(ua, ub)):
                return f"{eq}: bound_transport_neu of subdomain {i} differs from diag(sgn_div[neumann]): real {ua} model {[str(y) for y in ub]}"
    return None


# ------------------------------------------------------------------------------------------------ oracle
def oracle(case):
    """The property on the real code: sum of the residuals of each balance equation over all cells of all subdomains
    equals the total accumulation change / dt (closed domain, no sources), relative to the magnitude of the terms."""
    E = _evaluate(case)
    for eq, e in E["eqs"].items():
        total = sum(float(ri.sum()) for ri in e["r"])
        acc = sum(float(((e["a1"][i] - e["a0"][i]) / e["dt"]).sum()) for i in range(len(e["r"])))
        # prescribed external sources leave, prescribed open-boundary flux leaves (both zero in the closed, source-free case)
        acc = acc - float(sum(x.sum() for x in e["src_known"])) + e["ext_out"]
        if not (abs(total - acc) <= RTOL * e["scale"]):
            if eq == "energy" and case.get("ad_flux") and _adtpfa_signature(e, total - acc):
                return {"what": (f"energy balance with FouriersLawAd not conservative on {case['config']}: sum of residuals {total!r} vs total "
                                 f"accumulation rate {acc!r}; the difference {total - acc:.6g} is exactly the interface Fourier flux that is "
                                 f"missing on the fracture faces of the higher-dimensional subdomains"),
                        "key": "energy-not-conserved:FouriersLawAd:interface-fourier-flux-missing-on-fracture-faces"}
            nfr = len(CONFIGS[case["config"]].get("fracs", CONFIGS[case["config"]].get("fracture_indices", [])))
            return {"what": (f"{eq} balance not conservative on {case['config']} ({case['kind']}, compressible={case['compressible']}, "
                             f"tpfa={case['tpfa']}, state_seed={case['state_seed']}): sum of residuals {total!r} vs total accumulation rate "
                             f"{acc!r} (difference {total - acc:.6g}, magnitude of terms {e['scale']:.6g})"),
                    "key": f"{eq}-not-conserved:{case['kind']}{'-adflux' if case.get('ad_flux') else ''}:{case['config']}:fractures={nfr}"}
    return None


def _adtpfa_signature(e, diff):
    """Diagnosed cause of the FouriersLawAd finding, checked face by face: on every boundary face the flux left over after
    subtracting the interface contributions (with the REPAIRED boundary matrix) is either zero or exactly minus the Fourier
    interface contribution of that face (i.e. that contribution is entirely absent from the real flux), at least one is
    absent, and the absent ones account for the whole conservation defect."""
    tol = RTOL * e["scale"]
    leak, absent = 0.0, 0
    for i, F in enumerate(e["F"]):
        miss = np.zeros_like(F)
        for cp in e["cps"]:
            if cp["chan"] == "adtpfa" and cp["prim"] == i:
                miss += cp["B"].tocsr() @ (cp["Ppm"].tocsr() @ cp["lam"])
        cs = np.asarray(e["D"][i].sum(axis=0)).ravel()
        for f in np.nonzero(cs)[0]:
            if abs(F[f]) <= tol or (e["open_bc"] and e["ext_masks"][i][f]):
                continue
            if abs(F[f] + miss[f]) > tol:
                return False
            absent += 1
            leak += cs[f] * F[f]
    src_left = sum(float(np.abs(s - k).sum()) for s, k in zip(e["src"], e["src_known"]))
    return absent > 0 and abs(diff - leak) <= tol and src_left <= tol


def nontrivial(case):
    cfg = CONFIGS[case["config"]]
    return bool(cfg.get("fracs") or cfg.get("fracture_indices"))


def signature(case):
    return json.dumps(case, sort_keys=True)


def shrink_candidates(case):
    order = ["cart_f0", "cart_f1_through", "cart_f1_immersed", "nonmatch_f1", "cart_f2_cross", "nonmatch_f2", "cart_f3"]
    for c in order:
        if c != case["config"] and (case["config"] not in order or order.index(c) < order.index(case["config"])):
            yield dict(case, config=c)
    if case["kind"] == "thermal":
        yield dict(case, kind="flow")
    if case.get("special", "none") != "none":
        yield dict(case, special="none")
    if not case["consistent_upwind"]:
        yield dict(case, consistent_upwind=True)
    if case["dt"] != 1.0:
        yield dict(case, dt=1.0)
    if case["amp"] != 1.0:
        yield dict(case, amp=1.0)
    if case["tpfa"] is False:
        yield dict(case, tpfa=True)
    if case.get("ad_flux"):
        yield dict(case, ad_flux=False)
    if case.get("ext_source"):
        yield dict(case, ext_source=False)
    if case.get("open_bc"):
        yield dict(case, open_bc=False)


def stats(cases, impl_outs):
    from collections import Counter
    c = Counter()
    for k in cases:
        c["config:" + k["config"]] += 1
        c["kind:" + k["kind"]] += 1
        c["compressible" if k["compressible"] else "incompressible"] += 1
        c["tpfa" if k["tpfa"] else "mpfa"] += 1
        c["ad_flux" if k.get("ad_flux") else "standard_flux"] += 1
        c["external_source" if k.get("ext_source") else "no_source"] += 1
        c["open_west_boundary" if k.get("open_bc") else "closed_boundary"] += 1
        c[f"dt:{k['dt']:.3g}"] += 1
        c["upwind_consistent" if k["consistent_upwind"] else "upwind_stale"] += 1
        c["special:" + k.get("special", "none")] += 1
        c[f"amp:{k['amp']}"] += 1
    good = [o for o in impl_outs if isinstance(o, dict) and "harness_exc" not in o]
    n_eq = sum(len(o) - 1 for o in good)
    n_cp = sum(len(e["net"]) for o in good for k, e in o.items() if k != "proj")
    sizes = Counter()
    for o in good:
        for k, e in o.items():
            if k == "proj":
                sizes["projection_pairs_checked"] += len(e)
                continue
            for r in e["res"]:
                sizes["subdomain_blocks"] += 1
                sizes["subdomains_with_1_cell(0-D)"] += int(len(r) == 1)
            sizes["equations_without_interfaces"] += int(len(e["net"]) == 0)
            sizes["non_dyadic_projection_weights"] += int(any(x > 0 for x in e["h2dev"]))
    return {"counts": dict(sorted(c.items())), "balance_equations_evaluated": n_eq, "interface_flux_couplings": n_cp,
            "sizes": dict(sizes), "prepared_models": len(_MODELS)}
