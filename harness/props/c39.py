"""C39 Boundary condition objects partition the boundary faces (scalar and vectorial, constructor + set_bc)."""
import functools
import os
import tempfile
import warnings

import numpy as np

from harness.common import err_kind, deep_compare

PID = "C39"
THEOREMS = [
    "PorepyVerif.C39.bc_exactly_one_on_boundary",
    "PorepyVerif.C39.bc_none_on_interior",
    "PorepyVerif.C39.bc_type_is_last_assignment",
    "PorepyVerif.C39.bc_default_neumann_no_faces",
    "PorepyVerif.C39.bc_default_neumann",
    "PorepyVerif.C39.bc_last_assignment_wins",
    "PorepyVerif.C39.neu_does_not_override",
    "PorepyVerif.C39.bcv_componentwise",
    "PorepyVerif.C39.set_bc_type_is_last_assignment",
    "PorepyVerif.C39.bcv_history_last_assignment",
    "PorepyVerif.C39.bcv_internal_boundary_default",
    "PorepyVerif.C39.internal_to_dirichlet_spec",
    "PorepyVerif.C39.bc_rejects_wrong_mask",
    "PorepyVerif.C39.bc_rejects_non_boundary",
    "PorepyVerif.C39.bc_rejects_length_mismatch",
    "PorepyVerif.C39.bc_rejects_unknown_keyword",
]
LEAN_MODULES = ["PorepyVerif.C39.Props"]
AUDIT = "PorepyVerif/C39/Audit.lean"
DRIVER = "PorepyVerif/C39/Driver.lean"
N = {"quick": 400, "thorough": 12000}
RULE = ("grid drawn from: Cartesian 1d/2d/3d, structured triangle/tetrahedral grids, every subdomain (3d..0d) of split fractured grids "
        "(meshing.cart_grid with 1-2 fractures in 2d/3d, mdg_library square/cube with orthogonal fractures, Cartesian and gmsh simplex), "
        "and Cartesian grids with extra synthetic fracture/tip tags on interior faces; variant scalar (one constructor call) or vectorial "
        "(constructor + 0-4 set_bc / internal_to_dirichlet calls); a quarter of the calls is stratified to list the SAME face with 'dir' and with 'rob' "
        "(both orders, other pairs in between) in one call; each call assigns 0-7 faces, mostly boundary faces, repeated faces with different keywords are "
        "frequent, faces given as index array (any order, repeats) or boolean mask, keywords as one string or a list, random letter case; "
        "about 25% of the calls are malformed (interior face, negative / too large index, wrong mask size, wrong number of keywords, "
        "unknown keyword at a random position, cond=None); non-trivial = some face gets two different keywords, or the grid has "
        "fracture/tip faces, or a call is malformed; distinct = distinct cases")
TRUSTED = [
    "modelled, not verified: numpy glue of the constructors (np.argwhere on the mask, np.isin membership test, fancy-index writes "
    "is_x[:, f]); grid abstraction (num_faces and the three face tags are read from the real grid and handed to the model)",
    "python str.lower() vs Lean String.toLower agree on the ASCII keywords generated",
]
EXPLANATION = ("FULL: model = the three boolean arrays (per component for the vectorial class) written by the assignment loop exactly as coded, "
               "with the argument validation in the order of the code. Theorems hold for every grid abstraction (face count + three arbitrary tag sets) "
               "and every face/keyword list: exactly one type on boundary faces, none elsewhere, unassigned boundary faces Neumann, the type of a face "
               "is the last dir/rob given for it ('neu' is a no-op in the code: 'neu' after 'dir' leaves the face Dirichlet - stated as theorem "
               "neu_does_not_override), vectorial per component after any history of set_bc / internal_to_dirichlet calls including failing ones "
               "(bcv_history_last_assignment: the arrays depend only on the last dir/rob written per (component, face); fracture faces default to Neumann). "
               "internal_to_dirichlet is modelled as the property requires (Robin flag cleared); the code leaves it set - open finding. "
               "Correspondence compares the three arrays exactly after every call, the warning flag and the exception class.")
ASSUMPTIONS = ["index arrays are 1-d integer arrays, masks 1-d boolean arrays (what the generator produces)"]

KEYWORDS = ["dir", "neu", "rob"]


# ----------------------------------------------------------------------------- grids
@functools.lru_cache(maxsize=256)
def _base_grids(spec_key):
    """All subdomains of the grid family named by the hashable spec (cached: grids are never modified)."""
    import porepy as pp
    kind = spec_key[0]
    if kind == "cart":
        n = list(spec_key[1])
        return [pp.CartGrid(np.array(n))]
    if kind == "tri":
        return [pp.StructuredTriangleGrid(list(spec_key[1]))]
    if kind == "tet":
        return [pp.StructuredTetrahedralGrid(list(spec_key[1]))]
    if kind == "fraccart":
        n, fracs = spec_key[1], spec_key[2]
        mdg = pp.meshing.cart_grid([np.array(f, dtype=float) for f in fracs], list(n))
        return list(mdg.subdomains())
    if kind == "lib":
        name, gridtype, cs, idx = spec_key[1:]
        fn = getattr(pp.mdg_library, name)
        cwd = os.getcwd()
        with tempfile.TemporaryDirectory() as tmp:  # gmsh writes its .geo/.msh files into the working directory
            os.chdir(tmp)
            try:
                mdg, _ = fn(gridtype, {"cell_size": cs}, list(idx))
            finally:
                os.chdir(cwd)
        return list(mdg.subdomains())
    raise ValueError(kind)


def _tup(x):
    return tuple(_tup(y) for y in x) if isinstance(x, (list, tuple)) else x


def _spec_key(spec):
    k = spec["kind"]
    if k in ("cart", "tri", "tet"):
        return (k, _tup(spec["n"]))
    if k == "fraccart":
        return (k, _tup(spec["n"]), _tup(spec["fracs"]))
    return (k, spec["name"], spec["gridtype"], spec["cell_size"], _tup(spec["fracs"]))


def build_grid(spec):
    """The real porepy grid of a case. Synthetic retagging works on a fresh copy."""
    gs = _base_grids(_spec_key(spec))
    g = gs[spec.get("sd", 0)]
    rt = spec.get("retag")
    if rt:
        g = g.copy()
        g.tags = {k: (v.copy() if isinstance(v, np.ndarray) else v) for k, v in g.tags.items()}
        for f in rt.get("frac", []):
            g.tags["fracture_faces"][f] = True
        for f in rt.get("tip", []):
            g.tags["tip_faces"][f] = True
    return g


def tags_of(g):
    return (np.asarray(g.tags["domain_boundary_faces"], bool), np.asarray(g.tags["fracture_faces"], bool),
            np.asarray(g.tags["tip_faces"], bool))


GRID_POOL = [
    {"kind": "cart", "n": [1]}, {"kind": "cart", "n": [3]}, {"kind": "cart", "n": [1, 1]}, {"kind": "cart", "n": [2, 3]},
    {"kind": "cart", "n": [3, 2]}, {"kind": "cart", "n": [1, 1, 1]}, {"kind": "cart", "n": [2, 2, 2]}, {"kind": "cart", "n": [3, 1, 2]},
    {"kind": "tri", "n": [1, 1]}, {"kind": "tri", "n": [2, 2]}, {"kind": "tri", "n": [3, 2]},
    {"kind": "tet", "n": [1, 1, 1]}, {"kind": "tet", "n": [1, 2, 1]},
    {"kind": "fraccart", "n": [4, 4], "fracs": [[[1, 3], [2, 2]]]},
    {"kind": "fraccart", "n": [4, 4], "fracs": [[[1, 3], [2, 2]], [[2, 2], [1, 3]]]},
    {"kind": "fraccart", "n": [3, 2], "fracs": [[[0, 3], [1, 1]]]},
    {"kind": "fraccart", "n": [3, 2, 2], "fracs": [[[1, 2, 2, 1], [1, 1, 1, 1], [0, 0, 2, 2]]]},
    {"kind": "fraccart", "n": [2, 2, 2], "fracs": [[[0, 2, 2, 0], [1, 1, 1, 1], [0, 0, 2, 2]], [[1, 1, 1, 1], [0, 2, 2, 0], [0, 0, 2, 2]]]},
    {"kind": "lib", "name": "square_with_orthogonal_fractures", "gridtype": "cartesian", "cell_size": 0.5, "fracs": [1]},
    {"kind": "lib", "name": "square_with_orthogonal_fractures", "gridtype": "cartesian", "cell_size": 0.5, "fracs": [0, 1]},
    {"kind": "lib", "name": "square_with_orthogonal_fractures", "gridtype": "simplex", "cell_size": 0.5, "fracs": [0, 1]},
    {"kind": "lib", "name": "square_with_orthogonal_fractures", "gridtype": "simplex", "cell_size": 0.5, "fracs": [0]},
    {"kind": "lib", "name": "cube_with_orthogonal_fractures", "gridtype": "cartesian", "cell_size": 0.5, "fracs": [0, 1]},
]


# ----------------------------------------------------------------------------- generator
def _kw(rng, bad_ok=False):
    k = rng.choice(KEYWORDS)
    r = rng.random()
    if r < 0.1:
        k = k.upper()
    elif r < 0.2:
        k = k.capitalize()
    return k


def _gen_call(rng, g, allow_none_faces):
    nf = g.num_faces
    dom, frac, tip = tags_of(g)
    bf = np.flatnonzero(dom | frac | tip).tolist()
    interior = sorted(set(range(nf)) - set(bf))
    if allow_none_faces and rng.random() < 0.08:
        return {"faces": None, "cond": rng.choice([None, "dir", ["rob"]])}, None
    k = rng.randint(0, 7)
    faces = []
    for _ in range(k):
        if faces and rng.random() < 0.45:
            faces.append(rng.choice(faces))  # repeated face
        elif bf:
            faces.append(rng.choice(bf))
    malformed = None
    r = rng.random()
    if bf and rng.random() < 0.25:
        # stratum: one face listed with two different types in the same call (index array, keyword list)
        f = rng.choice(bf)
        a, b = rng.sample(KEYWORDS, 2) if rng.random() < 0.4 else rng.sample(["dir", "rob"], 2)
        i = rng.randint(0, len(faces))
        faces.insert(i, f)
        j = rng.randint(i + 1, len(faces))
        faces.insert(j, f)
        cond = [_kw(rng) for _ in faces]
        cond[i], cond[j] = a, b
        return {"faces": {"idx": faces}, "cond": cond}, None
    as_mask = rng.random() < 0.35
    if as_mask:
        faces = sorted(set(faces))
    if rng.random() < 0.4:
        cond = _kw(rng)
    else:
        cond = [_kw(rng) for _ in faces]
    if r < 0.25:
        m = rng.choice(["interior", "negative", "too-large", "mask-size", "cond-length", "unknown", "cond-none"])
        if m == "interior" and interior:
            faces.insert(rng.randint(0, len(faces)), rng.choice(interior))
            if as_mask:
                faces = sorted(set(faces))
            if isinstance(cond, list):
                cond = [_kw(rng) for _ in faces]
            malformed = m
        elif m == "negative" and not as_mask and nf > 0:
            faces.insert(rng.randint(0, len(faces)), -rng.randint(1, nf))
            if isinstance(cond, list):
                cond = [_kw(rng) for _ in faces]
            malformed = m
        elif m == "too-large" and not as_mask:
            faces.insert(rng.randint(0, len(faces)), nf + rng.randint(0, 2))
            if isinstance(cond, list):
                cond = [_kw(rng) for _ in faces]
            malformed = m
        elif m == "mask-size" and as_mask:
            malformed = m
        elif m == "cond-length" and isinstance(cond, list):
            if cond and rng.random() < 0.5:
                cond = cond[:-1]
            else:
                cond = cond + [_kw(rng)]
            malformed = m
        elif m == "unknown" and faces:
            bad = rng.choice(["dirichlet", "", "d", "neumann", "robin ", "xyz"])
            if isinstance(cond, list):
                cond[rng.randrange(len(cond))] = bad
            else:
                cond = bad
            malformed = m
        elif m == "cond-none":
            cond = None
            malformed = m
    if as_mask:
        size = nf
        if malformed == "mask-size":
            size = max(0, nf + rng.choice([-1, 1, 2]))
        mask = [False] * size
        for f in faces:
            if 0 <= f < size:
                mask[f] = True
        fj = {"mask": mask}
    else:
        fj = {"idx": faces}
    return {"faces": fj, "cond": cond}, malformed


def gen_case(rng, tier):
    spec = dict(rng.choice(GRID_POOL))
    gs = _base_grids(_spec_key(spec))
    spec["sd"] = rng.randrange(len(gs))
    g0 = gs[spec["sd"]]
    if spec["kind"] in ("cart", "tri", "tet") and rng.random() < 0.5:
        dom, _, _ = tags_of(g0)
        interior = np.flatnonzero(~dom).tolist()
        if interior:
            pick = rng.sample(interior, min(len(interior), rng.randint(1, 3)))
            cut = rng.randint(0, len(pick))
            spec["retag"] = {"frac": sorted(pick[:cut]), "tip": sorted(pick[cut:])}
    g = build_grid(spec)
    variant = rng.choice(["scalar", "vector"])
    calls, mal = [], []
    ncalls = 1 if variant == "scalar" else 1 + rng.randint(0, 4 if tier == "quick" else 7)
    for k in range(ncalls):
        if k > 0 and rng.random() < 0.15:
            calls.append({"itd": True})  # internal_to_dirichlet(sd)
            mal.append(None)
            continue
        c, m = _gen_call(rng, g, True)
        calls.append(c)
        mal.append(m)
    return {"grid": spec, "variant": variant, "calls": calls, "malformed": mal}


# ----------------------------------------------------------------------------- real code
def _faces_arg(fj):
    if fj is None:
        return None
    if "mask" in fj:
        return np.array(fj["mask"], dtype=bool)
    return np.array(fj["idx"], dtype=int)


def _bc_json(neu, dir_, rob):
    return {"neu": [bool(x) for x in neu], "dir": [bool(x) for x in dir_], "rob": [bool(x) for x in rob]}


def _comps(bc):
    return [_bc_json(bc.is_neu[d], bc.is_dir[d], bc.is_rob[d]) for d in range(bc.is_neu.shape[0])]


def _call_real(fn, *a):
    """Run fn, return (result, exception, warned-about-internal-boundaries)."""
    with warnings.catch_warnings(record=True) as w:
        warnings.simplefilter("always")
        try:
            res, exc = fn(*a), None
        except Exception as e:  # noqa: BLE001 - every exception class is an output
            res, exc = None, e
    warned = any("internal" in str(x.message) for x in w)
    return res, exc, warned


def impl_run(case):
    import porepy as pp
    g = build_grid(case["grid"])
    calls = case["calls"]
    out = []
    if case["variant"] == "scalar":
        c = calls[0]
        bc, exc, warned = _call_real(pp.BoundaryCondition, g, _faces_arg(c["faces"]), c["cond"])
        out.append(err_kind(exc) if exc else {"bc": _bc_json(bc.is_neu, bc.is_dir, bc.is_rob), "warn": warned})
        return out
    c = calls[0]
    bc, exc, _ = _call_real(pp.BoundaryConditionVectorial, g, _faces_arg(c["faces"]), c["cond"])
    out.append(err_kind(exc) if exc else {"comps": _comps(bc)})
    for c in calls[1:]:
        if bc is None:
            out.append({"err": "no-object"})
            continue
        if c.get("itd"):
            _, exc, _ = _call_real(bc.internal_to_dirichlet, g)
            out.append({"comps": _comps(bc), "raised": type(exc).__name__ if exc else None})
            continue
        _, exc, _ = _call_real(bc.set_bc, _faces_arg(c["faces"]), c["cond"])
        out.append({"comps": _comps(bc), "raised": type(exc).__name__ if exc else None})
    return out


# ----------------------------------------------------------------------------- model
def model_ops(case):
    g = build_grid(case["grid"])
    dom, frac, tip = tags_of(g)
    ops = [{"op": "grid", "nf": int(g.num_faces), "dom": dom.tolist(), "frac": frac.tolist(), "tip": tip.tolist()}]
    calls = case["calls"]
    if case["variant"] == "scalar":
        ops.append({"op": "scalar", "faces": calls[0]["faces"], "cond": calls[0]["cond"]})
    else:
        ops.append({"op": "vector", "dim": int(g.dim), "faces": calls[0]["faces"], "cond": calls[0]["cond"]})
        for c in calls[1:]:
            ops.append({"op": "internal_to_dirichlet"} if c.get("itd") else {"op": "set_bc", "faces": c["faces"], "cond": c["cond"]})
    return ops


def model_decode(outs, case):
    return outs[1:]


def compare(impl, model, case):
    return deep_compare(impl, model)


# ----------------------------------------------------------------------------- oracle
def _expected_error(g, bf_mask, call):
    """Class of input defect the call has (None = valid), from the documented contract of the constructors."""
    fj, cond = call["faces"], call["cond"]
    if fj is None:
        return None
    if cond is None:
        return "cond-none"
    if "mask" in fj:
        if len(fj["mask"]) != g.num_faces:
            return "mask-size"
        faces = [i for i, b in enumerate(fj["mask"]) if b]
    else:
        faces = fj["idx"]
    if any(f < 0 or f >= g.num_faces or not bf_mask[f] for f in faces):
        return "non-boundary-face"
    cl = [cond] * len(faces) if isinstance(cond, str) else cond
    if len(cl) != len(faces):
        return "cond-length"
    if any(s.lower() not in KEYWORDS for s in cl):
        return "unknown-keyword"
    return None


def _pairs(call):
    fj, cond = call["faces"], call["cond"]
    if fj is None:
        return []
    faces = [i for i, b in enumerate(fj["mask"]) if b] if "mask" in fj else fj["idx"]
    cl = [cond] * len(faces) if isinstance(cond, str) else cond
    return [(f, s.lower()) for f, s in zip(faces, cl)]


def _check_partition(rows, bf_mask, where):
    """rows: list of (is_neu, is_dir, is_rob) 1-d arrays, one per component."""
    for d, (neu, di, rob) in enumerate(rows):
        cnt = neu.astype(int) + di.astype(int) + rob.astype(int)
        if neu.shape != bf_mask.shape or di.shape != bf_mask.shape or rob.shape != bf_mask.shape:
            return {"what": f"{where}: component {d}: arrays do not have num_faces entries", "key": "array-shape"}
        bad = np.flatnonzero(bf_mask & (cnt != 1))
        if bad.size:
            f = int(bad[0])
            return {"what": f"{where}: component {d}: boundary face {f} carries {int(cnt[f])} types (neu={bool(neu[f])}, dir={bool(di[f])}, rob={bool(rob[f])})",
                    "key": "boundary-face-two-types" if cnt[f] > 1 else "boundary-face-no-type"}
        bad = np.flatnonzero(~bf_mask & (cnt != 0))
        if bad.size:
            return {"what": f"{where}: component {d}: non-boundary face {int(bad[0])} carries a condition", "key": "interior-face-has-type"}
    return None


def _check_types(rows, bf_mask, history, where):
    """history: executed (face, keyword) pairs in order. Demands only what is undisputed:
    never-assigned boundary faces and faces only ever given 'neu' are Neumann; a face whose LAST keyword is dir/rob has that type."""
    last, seen_nonneu = {}, set()
    for f, s in history:
        last[f] = s
        if s != "neu":
            seen_nonneu.add(f)
    for d, (neu, di, rob) in enumerate(rows):
        for f in np.flatnonzero(bf_mask):
            f = int(f)
            if f not in seen_nonneu:
                if not (neu[f] and not di[f] and not rob[f]):
                    return {"what": f"{where}: component {d}: boundary face {f} was never given dir/rob but is not Neumann", "key": "unassigned-not-neumann"}
            elif last[f] == "dir":
                if not (di[f] and not neu[f] and not rob[f]):
                    return {"what": f"{where}: component {d}: face {f} last assigned 'dir' is not Dirichlet only", "key": "last-dir-not-dirichlet"}
            elif last[f] == "rob":
                if not (rob[f] and not neu[f] and not di[f]):
                    return {"what": f"{where}: component {d}: face {f} last assigned 'rob' is not Robin only", "key": "last-rob-not-robin"}
    return None


def oracle(case):
    import porepy as pp
    g = build_grid(case["grid"])
    dom, frac, tip = tags_of(g)
    bf_mask = dom | frac | tip
    if not case["grid"].get("retag") and g.num_faces > 0:
        # on real grids the tagged boundary is the topological one: faces with exactly one neighbouring cell
        ncell = np.asarray(abs(g.cell_faces).sum(axis=1)).ravel()
        if not np.array_equal(ncell == 1, bf_mask):
            # not a C39 matter (tags are C-grid territory); use the union so that no boundary face escapes the check
            bf_mask = bf_mask | (ncell == 1)
    calls = case["calls"]
    scalar = case["variant"] == "scalar"
    cls = pp.BoundaryCondition if scalar else pp.BoundaryConditionVectorial
    c0 = calls[0]
    want = _expected_error(g, bf_mask, c0)
    bc, exc, _ = _call_real(cls, g, _faces_arg(c0["faces"]), c0["cond"])
    tag = "scalar" if scalar else "vectorial"
    if exc is not None:
        if want is None:
            return {"what": f"{tag} constructor raised {type(exc).__name__} on valid input", "key": f"{tag}-valid-input-raised"}
        return None
    if want is not None:
        return {"what": f"{tag} constructor accepted malformed input ({want})", "key": f"{tag}-no-error-{want}"}
    rows = (lambda: [(bc.is_neu, bc.is_dir, bc.is_rob)]) if scalar else (lambda: [(bc.is_neu[d], bc.is_dir[d], bc.is_rob[d]) for d in range(bc.is_neu.shape[0])])
    if not scalar and bc.is_neu.shape[0] != g.dim:
        return {"what": "vectorial object does not have sd.dim components", "key": "vectorial-components"}
    # robin_weight / basis take no part in the partition; their defaults are checked for shape and value only
    if scalar:
        if bc.robin_weight.shape != (g.num_faces,) or not np.all(bc.robin_weight == 1) or not np.all(bc.basis == 1):
            return {"what": "scalar robin_weight / basis are not arrays of ones per face", "key": "scalar-robin-weight-default"}
    else:
        eye = np.repeat(np.eye(g.dim)[:, :, None], g.num_faces, axis=2)
        if not np.array_equal(bc.robin_weight, eye) or not np.array_equal(bc.basis, eye):
            return {"what": "vectorial robin_weight / basis are not the identity per face", "key": "vectorial-robin-weight-default"}
    history = _pairs(c0)
    r = _check_partition(rows(), bf_mask, f"{tag} constructor") or _check_types(rows(), bf_mask, history, f"{tag} constructor")
    if r:
        return r
    for k, c in enumerate(calls[1:], 1):
        if c.get("itd"):
            _, exc, _ = _call_real(bc.internal_to_dirichlet, g)
            if exc is not None:
                return {"what": f"internal_to_dirichlet (call {k}) raised {type(exc).__name__}", "key": "internal_to_dirichlet-raised"}
            for d, (neu, di, rob) in enumerate(rows()):
                for f in np.flatnonzero(frac):
                    f = int(f)
                    if rob[f] and di[f]:
                        return {"what": f"internal_to_dirichlet (call {k}): component {d}: fracture face {f} had a Robin condition and is now Dirichlet AND Robin (is_rob not cleared)",
                                "key": "internal_to_dirichlet-robin-not-cleared"}
                    if not di[f] or neu[f] or rob[f]:
                        return {"what": f"internal_to_dirichlet (call {k}): component {d}: fracture face {f} is not Dirichlet only", "key": "internal_to_dirichlet-not-dirichlet"}
            history += [(int(f), "dir") for f in np.flatnonzero(frac)]
            r = _check_partition(rows(), bf_mask, f"after internal_to_dirichlet call {k}") or _check_types(rows(), bf_mask, history, f"after internal_to_dirichlet call {k}")
            if r:
                return r
            continue
        want = _expected_error(g, bf_mask, c)
        _, exc, _ = _call_real(bc.set_bc, _faces_arg(c["faces"]), c["cond"])
        if exc is not None and want is None:
            return {"what": f"set_bc (call {k}) raised {type(exc).__name__} on valid input", "key": "set_bc-valid-input-raised"}
        if exc is None and want is not None:
            return {"what": f"set_bc (call {k}) accepted malformed input ({want})", "key": f"set_bc-no-error-{want}"}
        r = _check_partition(rows(), bf_mask, f"after set_bc call {k}")
        if r:
            return r
        if exc is None:
            history += _pairs(c)
            r = _check_types(rows(), bf_mask, history, f"after set_bc call {k}")
            if r:
                return r
        elif want == "unknown-keyword":
            # pairs before the unknown keyword may or may not have been written (the code writes them; validating first
            # would be equally acceptable): those faces are only required to satisfy the partition until reassigned
            ps = _pairs(c)
            cut = next(i for i, (_, s) in enumerate(ps) if s not in KEYWORDS)
            history += [(f, "?") for f, _ in ps[:cut]]
            r = _check_types(rows(), bf_mask, history, f"after failing set_bc call {k}")
            if r:
                return r
        else:
            r = _check_types(rows(), bf_mask, history, f"after rejected set_bc call {k}")
            if r:
                return r
    return None


# ----------------------------------------------------------------------------- evidence helpers
def nontrivial(case):
    g = case["grid"]
    if any(case.get("malformed", [])) or g["kind"] in ("fraccart", "lib") or g.get("retag"):
        return True
    seen = {}
    for c in case["calls"]:
        if c.get("itd") or c["faces"] is None or c["cond"] is None:
            continue
        try:
            for f, s in _pairs(c):
                if seen.setdefault(f, s) != s:
                    return True
        except Exception:  # noqa: BLE001
            pass
    return False


def shrink_candidates(case):
    calls = case["calls"]
    mal = case.get("malformed", [None] * len(calls))
    for i in range(1, len(calls)):
        yield dict(case, calls=calls[:i] + calls[i + 1:], malformed=mal[:i] + mal[i + 1:])
    for i, c in enumerate(calls):
        fj = c.get("faces")
        if fj and "idx" in fj and len(fj["idx"]) > 1:
            for j in range(len(fj["idx"])):
                c2 = dict(c, faces={"idx": fj["idx"][:j] + fj["idx"][j + 1:]})
                if isinstance(c["cond"], list) and len(c["cond"]) == len(fj["idx"]):
                    c2["cond"] = c["cond"][:j] + c["cond"][j + 1:]
                yield dict(case, calls=calls[:i] + [c2] + calls[i + 1:])


def _has_dir_rob_conflict(call):
    try:
        seen = {}
        for f, kw in _pairs(call) if call.get("cond") is not None else []:
            seen.setdefault(f, set()).add(kw)
        return any({"dir", "rob"} <= v for v in seen.values())
    except Exception:  # noqa: BLE001
        return False


def stats(cases, impl_outs):
    from collections import Counter
    kinds = Counter(c["grid"]["kind"] + ("+retag" if c["grid"].get("retag") else "") for c in cases)
    mal = Counter(m for c in cases for m in c.get("malformed", []) if m)
    return {
        "grid_kinds": dict(kinds),
        "variants": dict(Counter(c["variant"] for c in cases)),
        "calls": sum(len(c["calls"]) for c in cases),
        "mask_calls": sum(1 for c in cases for k in c["calls"] if k.get("faces") and "mask" in k["faces"]),
        "faces_none_calls": sum(1 for c in cases for k in c["calls"] if not k.get("itd") and k["faces"] is None),
        "internal_to_dirichlet_calls": sum(1 for c in cases for k in c["calls"] if k.get("itd")),
        "same_face_dir_and_rob_in_one_call": sum(1 for c in cases for k in c["calls"] if not k.get("itd") and _has_dir_rob_conflict(k)),
        "malformed_calls": dict(mal),
        "constructor_errors": sum(1 for o in impl_outs if isinstance(o, list) and o and "err" in o[0]),
        "set_bc_raised": sum(1 for o in impl_outs if isinstance(o, list) for x in o[1:] if x.get("raised")),
        "warned": sum(1 for o in impl_outs if isinstance(o, list) and o and o[0].get("warn")),
        "conflicting_repeats": sum(1 for c in cases if c["grid"]["kind"] in ("cart", "tri", "tet") and not c["grid"].get("retag") and not any(c.get("malformed", [])) and nontrivial(c)),
        "zero_face_grids": sum(1 for c in cases if build_grid(c["grid"]).num_faces == 0),
    }
