"""C03 Model Jacobians are the derivative of the model residual.

CORE level.  Three parts (see DESIGN.md section 6, C03):

* Lean (lean/PorepyVerif/C03): abstract theorem `assemble_jac_is_derivative` — forward-mode evaluation of an
  expression tree whose node rules are sound (chain rule with the true partial derivatives at the children's
  values), whose variable leaves carry identity-block Jacobians and whose constant leaves carry zero Jacobians,
  returns the Frechet derivative; stacking the equations gives the directional-derivative statement for
  `EquationSystem.assemble`.  Soundness lemmas for the node kinds that occur in the shipped models.
* TREE AUDITOR (correspondence): every operator tree of every equation of the configured model is walked with a
  recording subclass of the real AdParser; every node is classified (operation, operand types, wrapped python
  function); the census is sent to the Lean driver which answers the kinds that are outside the vocabulary the
  theorems cover; for a sample of arithmetic nodes (+ - * / @ maximum, scalar powers) the driver recomputes value and
  Jacobian row of the node from the children's (value, Jacobian row) with the rule formula the soundness lemma
  is about, and that is compared with what the real forward mode produced.
* ORACLE (decides code changes): J*delta against a Richardson-extrapolated central difference of
  `assemble(evaluate_jacobian=False, state=x +- h*delta)` at random admissible states in the smooth region.
"""
from __future__ import annotations

import functools
import math
import random
from fractions import Fraction

import numpy as np

from harness.common import frac, deep_compare

PID = "C03"
THEOREMS = [
    "PorepyVerif.C03.tree_jac_is_fderiv",
    "PorepyVerif.C03.tree_jac_directional",
    "PorepyVerif.C03.assemble_jac_is_derivative",
]
LEAN_MODULES = ["PorepyVerif.C03.Props"]
AUDIT = "PorepyVerif/C03/Audit.lean"
DRIVER = "PorepyVerif/C03/Driver.lean"
N = {"quick": 18, "thorough": 240}
DISABLED = True

# ------------------------------------------------------------------------------------------------ configurations
FAMILIES = ["spf", "meb", "mom", "poro", "thm"]
# quick tier: six configurations, every family, 0/1/2 fractures, both grid types
QUICK_CONFIGS = [
    ("spf", 2, "cartesian"),
    ("meb", 1, "simplex"),
    ("mom", 1, "cartesian"),
    ("poro", 1, "cartesian"),
    ("thm", 2, "cartesian"),
    ("thm", 0, "simplex"),
]
ALL_CONFIGS = [(f, k, g) for f in FAMILIES for k in (0, 1, 2) for g in ("cartesian", "simplex")]

FLUID = dict(compressibility=0.3, thermal_expansion=0.2, density=1.3, viscosity=0.7, specific_heat_capacity=1.1,
             thermal_conductivity=0.9, normal_thermal_conductivity=0.8)
SOLID = dict(biot_coefficient=0.8, density=1.5, dilation_angle=0.2, fracture_gap=0.05, fracture_normal_stiffness=1.2,
             fracture_tangential_stiffness=0.9, friction_coefficient=0.7, lame_lambda=1.4,
             maximum_elastic_fracture_opening=0.1, normal_permeability=0.6, permeability=0.5, porosity=0.2,
             residual_aperture=0.1, shear_modulus=1.1, specific_heat_capacity=0.9, specific_storage=0.4,
             thermal_conductivity=1.2, thermal_expansion=0.15)
REFERENCE = dict(pressure=0.1, temperature=0.2)

_MODELS: dict = {}


def _family_class(name):
    import porepy as pp
    return {"spf": pp.SinglePhaseFlow, "meb": pp.MassAndEnergyBalance, "mom": pp.MomentumBalance,
            "poro": pp.Poromechanics, "thm": pp.Thermoporomechanics}[name]


def _model(cfg):
    """Build (once per process) the model of a configuration: family, number of fractures, grid type."""
    key = (cfg["family"], cfg["fractures"], cfg["grid"], cfg.get("dim", 2))
    if key in _MODELS:
        return _MODELS[key]
    import porepy as pp
    from porepy.applications.md_grids.model_geometries import SquareDomainOrthogonalFractures, CubeDomainOrthogonalFractures
    geo = SquareDomainOrthogonalFractures if cfg.get("dim", 2) == 2 else CubeDomainOrthogonalFractures

    class Model(geo, _family_class(cfg["family"])):
        pass

    params = {
        "times_to_export": [],
        "fracture_indices": list(range(cfg["fractures"])),
        "grid_type": cfg["grid"],
        "meshing_arguments": {"cell_size": 0.5},
        "material_constants": {"fluid": pp.FluidComponent(**FLUID), "solid": pp.SolidConstants(**SOLID)},
        "reference_variable_values": pp.ReferenceVariableValues(**REFERENCE),
    }
    m = Model(params)
    m.prepare_simulation()
    _MODELS[key] = m
    return m


# ------------------------------------------------------------------------------------------------ tree auditor
KINK_FUNCS = ("maximum", "abs", "l2_norm", "characteristic_function", "heaviside", "safe_power")


def _tag(v):
    """Type tag of a parsed value: S scalar, V dense vector, M sparse matrix, L slicer, LL list of slicers,
    A AdArray, F operator function, ? anything else."""
    import scipy.sparse as sps
    import porepy as pp
    from porepy.numerics.linalg.matrix_operations import ArraySlicer
    if isinstance(v, pp.ad.AdArray):
        return "A"
    if isinstance(v, (bool, int, float, np.floating, np.integer)):
        return "S"
    if isinstance(v, np.ndarray):
        return "S" if v.ndim == 0 else ("V" if v.ndim == 1 else "?ndarray%d" % v.ndim)
    if isinstance(v, (sps.spmatrix, sps.sparray)):
        return "M"
    if isinstance(v, ArraySlicer):
        return "L"
    if isinstance(v, list) and all(isinstance(c, ArraySlicer) for c in v):
        return "LL"
    if isinstance(v, pp.ad.AbstractFunction):
        return "F"
    return "?" + type(v).__name__


def _func_name(op):
    """Identify the python function wrapped by an `evaluate` node: ('lib', name) for functions of
    porepy.numerics.ad.functions reached through pp.ad.Function (possibly via functools.partial), else ('opaque', qualified name)."""
    import porepy as pp
    f = getattr(op, "func", None)
    owner = getattr(f, "__self__", None)
    if type(owner) is not pp.ad.Function:
        return "opaque", type(owner).__name__ if owner is not None else getattr(f, "__qualname__", "unknown")
    inner = owner._func
    nbound = 0
    while isinstance(inner, functools.partial):
        nbound += len(inner.args) + len(inner.keywords)
        inner = inner.func
    name = getattr(inner, "__name__", None)
    if name is not None and getattr(pp.ad.functions, name, None) is inner:
        return "lib", name
    return "opaque", (getattr(inner, "__module__", "?") or "?") + "." + getattr(inner, "__qualname__", repr(inner))


def _recorder(model):
    """A recording subclass of the REAL parser: `_evaluate_single` is the real one, every call's result is kept."""
    from porepy.numerics.ad._ad_parser import AdParser

    class Recorder(AdParser):
        def __init__(self, mdg):
            super().__init__(mdg)
            self.results = {}
            self.ops = {}

        def _evaluate_single(self, op, ad_base, equation_system):
            res = super()._evaluate_single(op, ad_base, equation_system)
            self.results[id(op)] = res
            self.ops[id(op)] = op
            return res

    return Recorder(model.mdg)


def _kind(op, rec):
    """Node kind string of one operator-tree node, from the operation and the parsed types of node and children."""
    import porepy as pp
    res = rec.results[id(op)]
    rt = _tag(res)
    if op.is_leaf():
        if isinstance(op, pp.ad.Variable):
            if op.is_previous_time or op.is_previous_iterate:
                return "leaf:const:prev" if rt == "V" else "leaf:anomalous:prev->" + rt
            return "leaf:var" if rt == "A" else "leaf:anomalous:var->" + rt
        return "leaf:const:" + rt if rt in ("S", "V", "M", "L", "F") else "leaf:anomalous:" + type(op).__name__ + "->" + rt
    if isinstance(op, pp.ad.ProjectionList):
        return "leaf:const:LL" if rt == "LL" else "leaf:anomalous:ProjectionList->" + rt
    cts = [_tag(rec.results[id(c)]) for c in op.children]
    name = op.operation.value
    if name == "evaluate":
        where, fn = _func_name(op)
        name = "fn:" + fn if where == "lib" else "fn:opaque:" + fn
    if "A" not in cts:
        # a sub-tree without current-iterate variables: a constant, whatever the operation is
        return "const:" + ("fn" if name.startswith("fn:") else name) if rt != "A" else "anomalous:" + name + "(" + ",".join(cts) + ")->A"
    if rt != "A":
        return "anomalous:" + name + "(" + ",".join(cts) + ")->" + rt
    return name + "(" + ",".join(cts) + ")"


def _walk(eqs):
    seen, order = set(), []

    def go(op):
        if id(op) in seen:
            return
        seen.add(id(op))
        for c in op.children:
            go(c)
        order.append(op)

    for e in eqs:
        go(e)
    return order


def audit_trees(model, x):
    """Walk all equations at state x with the recording parser. Returns (census dict kind->count, recorder, nodes)."""
    es = model.equation_system
    rec = _recorder(model)
    eqs = list(es.equations.values())
    # the real `evaluate` clears nothing of ours; derivative=True gives AdArrays for variable-dependent nodes
    rec.evaluate(eqs, es, True, x)
    nodes = _walk(eqs)
    census = {}
    for op in nodes:
        if id(op) not in rec.results:  # children of ProjectionList and function objects are parsed, not evaluated
            continue
        k = _kind(op, rec)
        census[k] = census.get(k, 0) + 1
    return census, rec, nodes
