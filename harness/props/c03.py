"""C03 Model Jacobians are the derivative of the model residual.

CORE level.  Three parts (see DESIGN.md section 6, C03):

* Lean (lean/PorepyVerif/C03): abstract theorem `assemble_jac_is_derivative` — forward-mode evaluation of an
  expression tree whose node rules are sound (chain rule with the true partial derivatives at the children's
  values), whose variable leaves carry identity-block Jacobians and whose constant leaves carry zero Jacobians,
  returns the Frechet derivative; stacking the equations gives the directional-derivative statement for
  `EquationSystem.assemble`.  Soundness lemmas for the node kinds that occur in the shipped models.
* TREE AUDITOR (correspondence): every operator tree of every equation of the configured model is walked with a
  recording subclass of the real AdParser; every node is classified (operation, operand types, wrapped python
  function); the census is sent to the Lean driver which answers the kinds that are outside the vocabulary the
  theorems cover; for a sample of arithmetic nodes (+ - * / @ maximum, scalar powers) the driver recomputes value and
  Jacobian row of the node from the children's (value, Jacobian row) with the rule formula the soundness lemma
  is about, and that is compared with what the real forward mode produced.
* ORACLE (decides code changes): J*delta against a Richardson-extrapolated central difference of
  `assemble(evaluate_jacobian=False, state=x +- h*delta)` at random admissible states in the smooth region.
"""
from __future__ import annotations

import functools
import random

import numpy as np

from harness.common import frac, deep_compare

PID = "C03"
_THM = ["tree_jac_is_fderiv", "tree_jac_directional", "assemble_jac_is_fderiv", "assemble_jac_is_derivative",
        "var_leaf_sound", "const_leaf_sound", "add_sound", "sub_sound", "mul_sound", "div_sound", "pow_const_sound",
        "pow_int_sound", "matmul_sound", "maximum_sound", "exp_sound", "log_sound", "sin_sound", "cos_sound", "tan_sound",
        "sinh_sound", "cosh_sound", "tanh_sound", "arctan_sound", "abs_sound", "l2_norm_sound", "characteristic_sound",
        "heaviside_sound", "pow_sound", "l2_norm_rows_sound", "l2_norm_dim_one_is_abs", "arcsin_sound", "arccos_sound", "arcsinh_sound",
        "arccosh_sound", "arctanh_sound", "safe_power_sound", "heaviside_smooth_sound", "vocab_tree_smooth",
        "vocab_assemble_jac_is_derivative", "newton_step_exact_linearization", "assemble_subsystem_jac_is_derivative"]
THEOREMS = ["PorepyVerif.C03." + t for t in _THM]
LEAN_MODULES = ["PorepyVerif.C03.Props"]
AUDIT = "PorepyVerif/C03/Audit.lean"
DRIVER = "PorepyVerif/C03/Driver.lean"
N = {"quick": 26, "thorough": 200}

# ------------------------------------------------------------------------------------------------ configurations
FAMILIES = ["spf", "meb", "mom", "poro", "thm"]
# two more families: "cm" = pp.ContactMechanics (only the normal / tangential fracture deformation equations, the interface
# displacement is a parameter), "lib" = a SYNTHETIC single-phase flow model with one extra equation that applies every
# function of porepy.numerics.ad.functions to the pressure (exercises the vocabulary beyond what the shipped models use)
MECHANICS = ("mom", "poro", "thm", "cm")
STRATA = ["closed_stick", "open", "closed_slip", "mixed", "random"]
# quick tier plan: (family, fractures, grid, dim, contact stratum).  Every shipped family, 0/1/2 fractures, both grid
# types, one 3d model (only there is the tangential jump a vector, i.e. l2_norm is not abs); every fractured mechanics
# model is visited with closed (negative normal jump) and open fracture states.
QUICK_PLAN = [
    ("spf", 2, "cartesian", 2, "random"), ("spf", 2, "cartesian", 2, "random"),
    ("meb", 1, "simplex", 2, "random"), ("meb", 1, "simplex", 2, "random"),
    ("mom", 1, "cartesian", 3, "closed_stick"), ("mom", 1, "cartesian", 3, "open"), ("mom", 1, "cartesian", 3, "closed_slip"),
    ("poro", 1, "cartesian", 2, "closed_stick"), ("poro", 1, "cartesian", 2, "open"), ("poro", 1, "cartesian", 2, "mixed"),
    ("thm", 2, "cartesian", 2, "closed_slip"), ("thm", 2, "cartesian", 2, "open"), ("thm", 2, "cartesian", 2, "closed_stick"),
    ("thm", 0, "simplex", 2, "random"),
    ("cm", 2, "cartesian", 2, "closed_stick"), ("cm", 2, "cartesian", 2, "closed_slip"),
    ("lib", 0, "cartesian", 2, "random"), ("lib", 0, "cartesian", 2, "random"),
    # cheap extras (tiny systems, models already built or built in < 1.5 s)
    ("cm", 2, "cartesian", 2, "open"), ("cm", 2, "cartesian", 2, "mixed"), ("mom", 1, "cartesian", 2, "open"),
    ("mom", 1, "cartesian", 2, "closed_stick"), ("spf", 2, "cartesian", 2, "random"), ("lib", 0, "cartesian", 2, "random"),
    ("meb", 1, "simplex", 2, "random"), ("mom", 1, "cartesian", 2, "mixed"),
]
SUBSYSTEMS = ["none", "eqs", "vars", "both", "grid"]
QUICK_CONFIGS = sorted({c[:4] for c in QUICK_PLAN})
ALL_CONFIGS = [(f, k, g, 2) for f in FAMILIES for k in (0, 1, 2) for g in ("cartesian", "simplex")] + [
    ("mom", 1, "cartesian", 3), ("mom", 2, "cartesian", 3), ("thm", 1, "cartesian", 3), ("spf", 2, "cartesian", 3), ("poro", 1, "simplex", 3),
    ("cm", 1, "cartesian", 2), ("cm", 2, "simplex", 2), ("cm", 1, "cartesian", 3), ("lib", 0, "cartesian", 2), ("lib", 0, "simplex", 2)]

FLUID = dict(compressibility=0.3, thermal_expansion=0.2, density=1.3, viscosity=0.7, specific_heat_capacity=1.1,
             thermal_conductivity=0.9, normal_thermal_conductivity=0.8)
SOLID = dict(biot_coefficient=0.8, density=1.5, dilation_angle=0.2, fracture_gap=0.05, fracture_normal_stiffness=1.2,
             fracture_tangential_stiffness=0.9, friction_coefficient=0.7, lame_lambda=1.4,
             maximum_elastic_fracture_opening=0.1, normal_permeability=0.6, permeability=0.5, porosity=0.2,
             residual_aperture=0.1, shear_modulus=1.1, specific_heat_capacity=0.9, specific_storage=0.4,
             thermal_conductivity=1.2, thermal_expansion=0.15)
REFERENCE = dict(pressure=0.1, temperature=0.2)

_MODELS: dict = {}


def _library_model():
    """SYNTHETIC: single-phase flow plus one extra equation per function on the matrix cells, sending the pressure through every function of
    porepy.numerics.ad.functions (inner maps keep each argument inside the function's smooth domain, except abs / heaviside /
    maximum / characteristic_function whose kinks are handled by the margin rule like in the shipped models)."""
    import porepy as pp
    from functools import partial
    F = pp.ad.functions

    class LibraryFunctions(pp.SinglePhaseFlow):
        def set_equations(self):
            super().set_equations()
            sds = self.mdg.subdomains(dim=self.nd)
            p = self.pressure(sds)
            fn = lambda f, name: pp.ad.Function(f, name)
            S = pp.ad.Scalar
            small = S(0.5) * fn(F.tanh, "tanh")(p)                      # in (-0.5, 0.5)
            terms = {
                "arcsin": fn(F.arcsin, "arcsin")(small),
                "arccos": fn(F.arccos, "arccos")(S(0.6) * fn(F.cos, "cos")(p)),
                "arctanh": fn(F.arctanh, "arctanh")(S(0.7) * fn(F.sin, "sin")(p)),
                "arcsinh": fn(F.arcsinh, "arcsinh")(p),
                "arccosh": fn(F.arccosh, "arccosh")(S(2.0) + p ** 2.0),
                "arctan": fn(F.arctan, "arctan")(p),
                "log_exp": fn(F.log, "log")(S(1.0) + fn(F.exp, "exp")(p)),
                "sinh_cosh": fn(F.sinh, "sinh")(p) * fn(F.cosh, "cosh")(small),
                "tan": fn(F.tan, "tan")(small),
                "abs_heaviside": fn(F.abs, "abs")(p) * fn(partial(F.heaviside, 0.5), "heaviside")(p - S(0.05)) + fn(F.abs, "abs")(p),
                "heaviside_smooth": fn(partial(F.heaviside_smooth, eps=0.25), "heaviside_smooth_kw")(p) + fn(F.heaviside_smooth, "heaviside_smooth")(S(0.01) * p),
                "safe_power": fn(partial(F.safe_power, -1.5, 0.0, 1e-3), "safe_power")(S(0.3) + fn(F.exp, "exp")(small)),
                "characteristic": fn(partial(F.characteristic_function, 0.2), "characteristic")(p) * p + p,
                "maximum": fn(F.maximum, "maximum")(p, small),
                "pow": (S(1.5) + small) ** 2.5 + (S(2.0) + small) ** p + S(1.7) ** p,
                "norm1": fn(partial(F.l2_norm, 1), "norm1")(p - S(0.01)),
            }
            for name, eq in terms.items():
                eq.set_name("library_" + name)
                self.equation_system.set_equation(eq, sds, {"cells": 1})

    return LibraryFunctions


def _contact_model():
    import porepy as pp

    class ContactMechanics(pp.ContactMechanics):
        def interface_displacement_parameter_values(self, interface):
            # deterministic, non-trivial interface displacement (the pure contact model has no displacement unknown)
            c = interface.cell_centers
            k = np.arange(self.nd)[:, None]
            return 0.3 * np.sin(7.0 * c[0] + 3.0 * c[1] + 5.0 * c[2] + 1.3 * k + 0.7 * np.arange(interface.num_cells)[None, :])

    return ContactMechanics


def _family_class(name):
    import porepy as pp
    if name == "lib":
        return _library_model()
    if name == "cm":
        return _contact_model()
    return {"spf": pp.SinglePhaseFlow, "meb": pp.MassAndEnergyBalance, "mom": pp.MomentumBalance,
            "poro": pp.Poromechanics, "thm": pp.Thermoporomechanics}[name]


def _model(cfg):
    """Build (once per process) the model of a configuration: family, number of fractures, grid type."""
    key = (cfg["family"], cfg["fractures"], cfg["grid"], cfg.get("dim", 2))
    if key in _MODELS:
        return _MODELS[key]
    import porepy as pp
    from porepy.applications.md_grids.model_geometries import SquareDomainOrthogonalFractures, CubeDomainOrthogonalFractures
    geo = SquareDomainOrthogonalFractures if cfg.get("dim", 2) == 2 else CubeDomainOrthogonalFractures

    class Model(geo, _family_class(cfg["family"])):
        pass

    params = {
        "times_to_export": [],
        "fracture_indices": list(range(cfg["fractures"])),
        "grid_type": cfg["grid"],
        "meshing_arguments": {"cell_size": 0.5},
        "material_constants": {"fluid": pp.FluidComponent(**FLUID), "solid": pp.SolidConstants(**SOLID)},
        "reference_variable_values": pp.ReferenceVariableValues(**REFERENCE),
    }
    m = Model(params)
    m.prepare_simulation()
    _MODELS[key] = m
    return m


# ------------------------------------------------------------------------------------------------ tree auditor
KINK_FUNCS = ("maximum", "abs", "l2_norm", "characteristic_function", "heaviside", "safe_power")


def _tag(v):
    """Type tag of a parsed value: S scalar, V dense vector, M sparse matrix, L slicer, LL list of slicers,
    A AdArray, F operator function, ? anything else."""
    import scipy.sparse as sps
    import porepy as pp
    from porepy.numerics.linalg.matrix_operations import ArraySlicer
    if isinstance(v, pp.ad.AdArray):
        return "A"
    if isinstance(v, (bool, int, float, np.floating, np.integer)):
        return "S"
    if isinstance(v, np.ndarray):
        return "S" if v.ndim == 0 else ("V" if v.ndim == 1 else "?ndarray%d" % v.ndim)
    if isinstance(v, (sps.spmatrix, sps.sparray)):
        return "M"
    if isinstance(v, ArraySlicer):
        return "L"
    if isinstance(v, list) and all(isinstance(c, ArraySlicer) for c in v):
        return "LL"
    if isinstance(v, pp.ad.AbstractFunction):
        return "F"
    return "?" + type(v).__name__


def _func_name(op):
    """Identify the python function wrapped by an `evaluate` node: ('lib', name) for functions of
    porepy.numerics.ad.functions reached through pp.ad.Function (possibly via functools.partial), else ('opaque', qualified name)."""
    import porepy as pp
    f = getattr(op, "func", None)
    owner = getattr(f, "__self__", None)
    if type(owner) is not pp.ad.Function:
        return "opaque", type(owner).__name__ if owner is not None else getattr(f, "__qualname__", "unknown")
    inner = owner._func
    nbound = 0
    while isinstance(inner, functools.partial):
        nbound += len(inner.args) + len(inner.keywords)
        inner = inner.func
    name = getattr(inner, "__name__", None)
    if name is not None and getattr(pp.ad.functions, name, None) is inner:
        return "lib", name
    return "opaque", (getattr(inner, "__module__", "?") or "?") + "." + getattr(inner, "__qualname__", repr(inner))


def _recorder(model):
    """A recording subclass of the REAL parser: `_evaluate_single` is the real one, every call's result is kept."""
    from porepy.numerics.ad._ad_parser import AdParser

    class Recorder(AdParser):
        def __init__(self, mdg):
            super().__init__(mdg)
            self.results = {}
            self.ops = {}

        def _evaluate_single(self, op, ad_base, equation_system):
            res = super()._evaluate_single(op, ad_base, equation_system)
            self.results[id(op)] = res
            self.ops[id(op)] = op
            return res

    return Recorder(model.mdg)


def _kind(op, rec):
    """Node kind string of one operator-tree node, from the operation and the parsed types of node and children."""
    import porepy as pp
    res = rec.results[id(op)]
    rt = _tag(res)
    if op.is_leaf():
        if isinstance(op, pp.ad.Variable):
            if op.is_previous_time or op.is_previous_iterate:
                return "leaf:const:prev" if rt == "V" else "leaf:anomalous:prev->" + rt
            return "leaf:var" if rt == "A" else "leaf:anomalous:var->" + rt
        return "leaf:const:" + rt if rt in ("S", "V", "M", "L", "F") else "leaf:anomalous:" + type(op).__name__ + "->" + rt
    if isinstance(op, pp.ad.ProjectionList):
        return "leaf:const:LL" if rt == "LL" else "leaf:anomalous:ProjectionList->" + rt
    cts = [_tag(rec.results[id(c)]) for c in op.children]
    name = op.operation.value
    if name == "evaluate":
        where, fn = _func_name(op)
        name = "fn:" + fn if where == "lib" else "fn:opaque:" + fn
    if "A" not in cts:
        # a sub-tree without current-iterate variables: a constant, whatever the operation is
        return "const:" + ("fn" if name.startswith("fn:") else name) if rt != "A" else "anomalous:" + name + "(" + ",".join(cts) + ")->A"
    if rt != "A":
        return "anomalous:" + name + "(" + ",".join(cts) + ")->" + rt
    return name + "(" + ",".join(cts) + ")"


def _walk(eqs):
    seen, order = set(), []

    def go(op):
        if id(op) in seen:
            return
        seen.add(id(op))
        for c in op.children:
            go(c)
        order.append(op)

    for e in eqs:
        go(e)
    return order


def audit_trees(model, x):
    """Walk all equations at state x with the recording parser. Returns (census dict kind->count, recorder, nodes)."""
    es = model.equation_system
    rec = _recorder(model)
    eqs = list(es.equations.values())
    # the real `evaluate` clears nothing of ours; derivative=True gives AdArrays for variable-dependent nodes
    rec.evaluate(eqs, es, True, x)
    nodes = _walk(eqs)
    census = {}
    for op in nodes:
        if id(op) not in rec.results:  # children of ProjectionList and function objects are parsed, not evaluated
            continue
        k = _kind(op, rec)
        census[k] = census.get(k, 0) + 1
    return census, rec, nodes


# ------------------------------------------------------------------------------------------------ states and directions
H = 1e-3          # finite-difference step (Richardson on H, H/2; consistency against H/2, H/4)
RTOL = 1e-6       # relative tolerance of the oracle (per row, relative to |J||delta| + |fd|)
ATOL = 1e-9
MAX_ATTEMPTS = 6  # re-draws of the state when it is too close to a kink of max/abs/norm/characteristic

_STATS = {"kink_redraws": 0, "fd_inconclusive": 0, "max_rel_err": 0.0, "checks": 0, "rows": 0}


def _draw(model, case, attempt):
    """Deterministic (state, previous time step state, direction) of a case: everything derives from the integers
    stored in the case, so a replay does not depend on the seed of the run."""
    es = model.equation_system
    n = es.num_dofs()
    r = random.Random(f"C03-state-{case['state_seed']}-{attempt}")
    base = _base_state(model)
    x = base + case["amp"] * np.array([r.uniform(-1, 1) for _ in range(n)])
    xprev = case["prev_amp"] * np.array([r.uniform(-1, 1) for _ in range(n)])
    x = _apply_stratum(model, x, case.get("contact", "random"), r)
    return x, xprev, _draw_dir(model, case)


def _draw_dir(model, case):
    es = model.equation_system
    n = es.num_dofs()
    rd = random.Random(f"C03-dir-{case['dir_seed']}")
    kind = case["dir_kind"]
    if kind == "dense" or n == 0:
        d = np.array([rd.uniform(-1, 1) for _ in range(n)])
    elif kind == "block":
        vars_ = [v for v in es.variables if len(es.dofs_of([v])) > 0]
        v = vars_[rd.randrange(len(vars_))]
        d = np.zeros(n)
        dofs = es.dofs_of([v])
        d[dofs] = [rd.uniform(-1, 1) for _ in dofs]
    else:  # unit
        d = np.zeros(n)
        d[rd.randrange(n)] = rd.choice([1.0, -1.0])
    return d


def _contact_ops(model):
    """(normal displacement jump, normal contact traction) operators on all fractures of a mechanics model, or None."""
    if not hasattr(model, "_c03_contact"):
        fracs = model.mdg.subdomains(dim=model.nd - 1)
        ops = None
        if fracs and sum(sd.num_cells for sd in fracs) > 0 and hasattr(model, "contact_traction") and hasattr(model, "displacement_jump"):
            nc = model.normal_component(fracs)
            ops = (nc @ model.displacement_jump(fracs), nc @ model.contact_traction(fracs))
        model._c03_contact = ops
    return model._c03_contact


def _steer(model, x, op, target):
    """Minimum-norm change of the state that gives the (linear) operator `op` the values `target`."""
    es = model.equation_system
    ad = es.evaluate(op, True, state=x)
    L = np.asarray(ad.jac.todense())
    if L.size == 0 or not np.any(L):
        return x  # not a function of the unknowns (pure contact mechanics: the jump is a parameter)
    w = np.linalg.lstsq(L, target - ad.val, rcond=None)[0]
    return x + w


def _apply_stratum(model, x, stratum, r):
    """Put the fracture cells of a mechanics model into a prescribed contact state, away from the kinks:
    closed = negative normal jump (aperture max picks the residual aperture), open = positive normal jump;
    stick = strongly compressive normal traction (large friction bound), slip = weakly compressive; `mixed` draws
    one of the three per cell.  Everything else of the random state is left as drawn."""
    ops = _contact_ops(model)
    if ops is None or stratum == "random":
        return x
    jump_n, t_n = ops
    ncell = sum(sd.num_cells for sd in model.mdg.subdomains(dim=model.nd - 1))
    kinds = [stratum if stratum != "mixed" else ("closed_stick", "open", "closed_slip")[(c + r.randrange(3)) % 3] for c in range(ncell)]
    jt = np.array([r.uniform(0.1, 0.5) * (1.0 if k == "open" else -1.0) for k in kinds])
    tt = np.array([r.uniform(-0.3, 0.3) if k == "open" else (-r.uniform(2.0, 4.0) if k == "closed_stick" else -r.uniform(0.03, 0.15)) for k in kinds])
    x = _steer(model, x, jump_n, jt)
    return _steer(model, x, t_n, tt)


def _base_state(model):
    if not hasattr(model, "_c03_base"):
        model._c03_base = model.equation_system.get_variable_values(iterate_index=0).copy()
    return model._c03_base


def _kink_functions(model, ids, x):
    """Arguments g of the kink conditions (g = 0 is the kink) of the given evaluate-nodes at state x."""
    es = model.equation_system
    rec = _recorder(model)
    rec.evaluate(list(es.equations.values()), es, False, x)
    out = {}
    for i, (op, fn, pargs) in ids.items():
        cv = [np.atleast_1d(np.asarray(rec.results[id(c)], dtype=float)) for c in op.children]
        if fn == "maximum":
            g = cv[0] - cv[1]
        elif fn in ("abs", "heaviside"):
            g = cv[0]
        elif fn == "l2_norm":
            dim = int(pargs[0])
            g = cv[0] if dim == 1 else np.linalg.norm(np.reshape(cv[0], (dim, -1), order="F"), axis=0)
        elif fn == "characteristic_function":
            g = np.abs(cv[0]) - float(pargs[0])
        elif fn == "safe_power":
            g = np.abs(cv[0]) - float(pargs[2])
        else:
            continue
        out[i] = (fn, g)
    return out


def _kink_nodes(rec, nodes):
    """evaluate-nodes of kinked library functions whose arguments depend on the state"""
    import porepy as pp
    ids = {}
    for op in nodes:
        if op.is_leaf() or op.operation.value != "evaluate" or id(op) not in rec.results:
            continue
        where, fn = _func_name(op)
        if where != "lib" or fn not in KINK_FUNCS:
            continue
        if not any(_tag(rec.results[id(c)]) == "A" for c in op.children):
            continue
        inner = op.func.__self__._func
        pargs = []
        while isinstance(inner, functools.partial):
            pargs = list(inner.args) + pargs
            inner = inner.func
        ids[id(op)] = (op, fn, pargs)
    return ids


def _branches(model, ids, x):
    """{node name: [rows with g > 0, rows with g < 0]} for the kink nodes at x (max: first / second argument larger;
    abs, heaviside: sign; characteristic_function, safe_power: outside / inside the tolerance)."""
    out = {}
    if not ids:
        return out
    for i, (fn, g) in _kink_functions(model, ids, x).items():
        name = fn + ":" + str(getattr(ids[i][0], "name", "?"))[:60]
        c = out.setdefault(name, [0, 0])
        c[0] += int(np.sum(g > 0))
        c[1] += int(np.sum(g < 0))
    return out


def _smooth_enough(model, ids, x, d):
    """True iff no kink condition changes sign on the segment x +- 2H d and every margin dominates its variation."""
    if not ids:
        return True
    g0 = _kink_functions(model, ids, x)
    gp = _kink_functions(model, ids, x + 2 * H * d)
    gm = _kink_functions(model, ids, x - 2 * H * d)
    for i, (fn, a) in g0.items():
        p, m = gp[i][1], gm[i][1]
        if a.size == 0:
            continue
        var = np.maximum(np.abs(p - a), np.abs(m - a))
        # a kink argument that does not move at all over the stencil (e.g. characteristic_function of max(b, 0) = 0 on an open
        # fracture: g = -tol exactly) is on one side of its kink throughout, however small the margin
        if (np.any(np.sign(p) != np.sign(a)) or np.any(np.sign(m) != np.sign(a)) or np.any(np.abs(a) <= 4 * var)
                or np.any((var > 0) & (np.abs(a) <= 1e-7))):
            return False
        if fn == "l2_norm" and np.any(np.abs(a) < 1e-2):
            return False
    return True


_PREP_CACHE: dict = {}


def _case_key(case):
    return repr(sorted((k, repr(v)) for k, v in case.items()))


def _prepare(case):
    """Cached for the most recent case: `run` calls impl_run, oracle and model_ops for the same case in a row."""
    key = _case_key(case)
    if key not in _PREP_CACHE:
        res = _prepare_uncached(case)
        _PREP_CACHE.clear()
        _PREP_CACHE[key] = res
    else:  # the shared model may have been used for another case in between: restore this case's previous time step
        model, x, d, census, rec, nodes, attempt, smooth = _PREP_CACHE[key]
        model.equation_system.set_variable_values(_draw(model, case, attempt)[1], time_step_index=0)
    return _PREP_CACHE[key]


def _prepare_uncached(case):
    """Model, audited trees and a smooth (state, direction) of the case (the first attempt that passes the margin test)."""
    cfg = case["config"]
    model = _model(cfg)
    es = model.equation_system
    last = None
    for attempt in range(MAX_ATTEMPTS):
        x, xprev, d = _draw(model, case, attempt)
        es.set_variable_values(xprev, time_step_index=0)
        census, rec, nodes = audit_trees(model, x)
        ids = _kink_nodes(rec, nodes)
        last = (model, x, d, census, rec, nodes, attempt)
        model._c03_branches = _branches(model, ids, x)
        if _smooth_enough(model, ids, x, d):
            return last + (True,)
        _STATS["kink_redraws"] += 1
    return last + (False,)


# ------------------------------------------------------------------------------------------------ sub-systems
def _subsystem(model, case):
    """(equations argument, variables argument, selected global rows, selected global columns) of the sub-system
    stratum of a case, or None: `eqs` = a subset of the equations (requested in reverse order: the result must come in
    storage order), `vars` = a subset of the variables, `both`, `grid` = one equation restricted to some of its grids.
    Rows / columns are computed here from the block structure, not with the code under test."""
    kind = case.get("subsystem", "none")
    es = model.equation_system
    names = list(es.equations)
    if kind == "none" or not names:
        return None
    r = random.Random(f"C03-sub-{case['node_seed']}")
    A_rows, start = {}, 0
    for name in names:  # rows of the full system: equations in storage order, each block grid by grid
        comp = es._equation_image_space_composition[name]
        size = sum(len(ix) for ix in comp.values())
        A_rows[name] = (start, comp)
        start += size
    eq_arg, rows = None, list(range(start))
    var_arg, cols = None, list(range(es.num_dofs()))
    if kind in ("eqs", "both"):
        pick = [nm for nm in names if r.random() < 0.5] or [names[r.randrange(len(names))]]
        eq_arg = pick[::-1]
        rows = [A_rows[nm][0] + int(q) for nm in names if nm in pick for ix in A_rows[nm][1].values() for q in ix]
    if kind in ("vars", "both"):
        vnames = sorted({v.name for v in es.variables})
        pickv = [nm for nm in vnames if r.random() < 0.5] or [vnames[r.randrange(len(vnames))]]
        var_arg = pickv
        cols = sorted(int(q) for v in es.variables if v.name in pickv for q in es.dofs_of([v]))
    if kind == "grid":
        cands = [nm for nm in names if len(A_rows[nm][1]) >= 1]
        nm = cands[r.randrange(len(cands))]
        grids = list(A_rows[nm][1])
        keep = [g for g in grids if r.random() < 0.6] or [grids[r.randrange(len(grids))]]
        eq_arg = {nm: keep}
        rows = [A_rows[nm][0] + int(q) for g in grids if g in keep for q in A_rows[nm][1][g]]
    return eq_arg, var_arg, rows, cols


def _check_subsystem(model, case, x, A, b, tag):
    sub = _subsystem(model, case)
    if sub is None:
        return None
    es = model.equation_system
    eq_arg, var_arg, rows, cols = sub
    keep = dict(es.assembled_equation_indices)
    try:
        As, bs = es.assemble(equations=eq_arg, variables=var_arg, state=x)
        rs = es.assemble(evaluate_jacobian=False, equations=eq_arg, state=x)
    finally:
        es.assembled_equation_indices = keep
    want = A.tocsr()[rows][:, cols]
    fam = case["config"]["family"]
    if As.shape != want.shape or np.asarray(bs).shape != (len(rows),):
        return {"what": f"{tag}: assemble({case['subsystem']} sub-system) has shape {As.shape} / rhs {np.asarray(bs).shape}, the slice of the full "
                        f"system has {want.shape}", "key": f"subsystem-shape:{fam}:{case['subsystem']}"}
    dA = abs(As - want).max() if want.shape[0] * want.shape[1] else 0.0
    db = np.max(np.abs(np.asarray(bs) - b[rows]), initial=0.0)
    dr = np.max(np.abs(np.asarray(rs) - b[rows]), initial=0.0)
    if max(dA, db, dr) > 1e-12 * (1 + abs(A).max()):
        return {"what": f"{tag}: assemble(equations={_short(eq_arg)}, variables={var_arg}) is not the corresponding slice of the full system "
                        f"(max |dJ|={dA:.3g}, |d rhs|={db:.3g}, |d residual-only|={dr:.3g}); state_seed={case['state_seed']}",
                "key": f"subsystem-slice:{fam}:{case['subsystem']}"}
    return None


def _short(eq_arg):
    if isinstance(eq_arg, dict):
        return {k: [f"{type(g).__name__}{g.id}" for g in v] for k, v in eq_arg.items()}
    return eq_arg


# ------------------------------------------------------------------------------------------------ oracle
def _res(es, x):
    return np.asarray(es.assemble(evaluate_jacobian=False, state=x), dtype=float)


def _row_owner(es, i):
    for name, idx in es.assembled_equation_indices.items():
        if len(idx) and idx[0] <= i <= idx[-1]:
            return name, int(i - idx[0])
    return "?", int(i)


def _cfg_str(cfg):
    return f"{cfg['family']}/{cfg['fractures']}frac/{cfg['grid']}/{cfg.get('dim', 2)}d"


def _raised_in_porepy(exc):
    """True iff the innermost frame of the exception's traceback is porepy code (not this harness, not numpy/scipy called
    directly by the harness)."""
    import os
    import porepy
    tb, last = exc.__traceback__, None
    while tb is not None:
        last = tb.tb_frame.f_code.co_filename
        tb = tb.tb_next
    root = os.path.dirname(os.path.realpath(porepy.__file__)) + os.sep
    return last is not None and os.path.realpath(last).startswith(root)


def oracle(case):
    """The property on the real code; an exception raised by porepy itself while building or assembling a shipped
    model means there is no Jacobian to speak of and is reported as a failure (harness errors propagate)."""
    try:
        return _oracle(case)
    except Exception as e:
        if not _raised_in_porepy(e):
            raise
        cfg = case["config"]
        return {"what": f"{_cfg_str(cfg)}: building / assembling the model raises {type(e).__name__}: {str(e)[:300]}",
                "key": f"assemble-raises:{cfg['family']}:{type(e).__name__}"}


def _check_direction(es, case, tag, cfg, x, d, A, attempt, q):
    def D(h):  # derivative of the residual (= -b) along d, central difference
        return -(_res(es, x + h * d) - _res(es, x - h * d)) / (2 * h)

    D1, D2, D4 = D(H), D(H / 2), D(H / 4)
    R1, R2 = (4 * D2 - D1) / 3, (4 * D4 - D2) / 3
    Jd = np.asarray(A @ d).ravel()
    S = np.asarray(abs(A) @ np.abs(d)).ravel() + np.abs(R1)
    tol = RTOL * S + ATOL
    if np.any(np.abs(R1 - R2) > 0.1 * tol):
        # the finite differences do not agree among themselves: not a statement about the Jacobian
        _STATS["fd_inconclusive"] += 1
        return None
    err = np.abs(Jd - R1)
    _STATS["checks"] += 1
    _STATS["rows"] += int(err.size)
    if err.size:
        _STATS["max_rel_err"] = max(_STATS["max_rel_err"], float(np.max(err / (S + ATOL / RTOL))))
    bad = np.nonzero(err > tol)[0]
    if bad.size:
        i = int(bad[np.argmax(err[bad] / tol[bad])])
        eq, loc = _row_owner(es, i)
        cols = [v.name for v in es.variables if np.any(d[es.dofs_of([v])] != 0)]
        return {"what": f"{tag}: J*delta = {Jd[i]:.12g} but d/de residual = {R1[i]:.12g} (Richardson h={H}, |diff|={err[i]:.3g}, "
                        f"allowed {tol[i]:.3g}) in row {i} = {eq}[{loc}]; {bad.size} of {err.size} rows differ; "
                        f"state_seed={case['state_seed']} attempt={attempt} amp={case['amp']} contact={case.get('contact', 'random')} "
                        f"dir#{q}={case['dir_kind']}/{case['dir_seed']} (direction touches {sorted(set(cols))[:6]})",
                "key": f"jacobian-vs-fd:{cfg['family']}:{eq}"}
    return None


def _oracle(case):
    """J(x) d == d/de residual(x + e d) at e = 0 (discretisation matrices fixed),
    J, -residual from `assemble(state=x)`, the residual from `assemble(evaluate_jacobian=False, state=...)`."""
    model, x, d, census, rec, nodes, attempt, smooth = _prepare(case)
    es = model.equation_system
    cfg = case["config"]
    tag = _cfg_str(cfg)
    if not smooth:
        _STATS["fd_inconclusive"] += 1
        return None
    A, b = es.assemble(state=x)
    n = es.num_dofs()
    b = np.asarray(b, dtype=float)
    if A.shape != (b.size, n):
        return {"what": f"{tag}: assembled Jacobian has shape {A.shape}, residual has {b.size} rows, {n} dofs", "key": f"shape:{cfg['family']}"}
    b0 = _res(es, x)
    scale = 1.0 + np.abs(b)
    if b0.shape != b.shape or np.any(np.abs(b0 - b) > 1e-12 * scale):
        i = int(np.argmax(np.abs(b0 - b) / scale)) if b0.shape == b.shape else 0
        eq, loc = _row_owner(es, i)
        return {"what": f"{tag}: residual of assemble(evaluate_jacobian=False) differs from the one returned with the Jacobian "
                        f"(row {i} = {eq}[{loc}]) at state_seed={case['state_seed']}", "key": f"residual-mismatch:{cfg['family']}:{eq}"}

    sub_fail = _check_subsystem(model, case, x, A, b, tag)
    if sub_fail is not None:
        return sub_fail
    for q in range(int(case.get("n_dirs", 1))):
        if q > 0:  # further directions at the same state: cheap (the Jacobian is already there); must pass the margin test too
            d = _draw_dir(model, dict(case, dir_seed=case["dir_seed"] + q, dir_kind=("dense", "block", "unit")[(q + case["dir_seed"]) % 3]))
            if not _smooth_enough(model, _kink_nodes(rec, nodes), x, d):
                continue
        fail = _check_direction(es, case, tag, cfg, x, d, A, attempt, q)
        if fail is not None:
            return fail
    # `state=x` must mean the same as storing x as the current iterate
    if case.get("check_state_arg"):
        old = es.get_variable_values(iterate_index=0).copy()
        es.set_variable_values(x, iterate_index=0)
        try:
            A2, b2 = es.assemble()
        finally:
            es.set_variable_values(old, iterate_index=0)
        if abs(A2 - A).max() > 1e-12 * (1 + abs(A).max()) or np.max(np.abs(np.asarray(b2) - b), initial=0.0) > 1e-12 * (1 + np.max(np.abs(b), initial=0.0)):
            return {"what": f"{tag}: assemble(state=x) differs from assemble() with x stored as the current iterate (state_seed={case['state_seed']})",
                    "key": f"state-argument:{cfg['family']}"}
    return None


# ------------------------------------------------------------------------------------------------ generator
_COUNTER = {"quick": 0, "thorough": 0}


def gen_case(rng, tier):
    k = _COUNTER[tier]
    _COUNTER[tier] += 1
    if tier == "quick":
        fam, nf, grid, dim, stratum = QUICK_PLAN[k % len(QUICK_PLAN)]
    else:
        fam, nf, grid, dim = ALL_CONFIGS[k % len(ALL_CONFIGS)]
        stratum = STRATA[(k // len(ALL_CONFIGS)) % len(STRATA)] if fam in MECHANICS and nf > 0 else "random"
    return {
        "config": {"family": fam, "fractures": nf, "grid": grid, "dim": dim},
        "contact": stratum,
        "subsystem": SUBSYSTEMS[(k + k // len(SUBSYSTEMS)) % len(SUBSYSTEMS)],
        "n_dirs": 2,
        "state_seed": rng.randrange(10**9),
        "amp": rng.choice([0.5, 0.5, 0.2, 1.0]),
        "prev_amp": rng.choice([0.0, 0.3, 0.3]),
        "dir_kind": rng.choice(["dense", "dense", "dense", "block", "block", "unit"]),
        "dir_seed": rng.randrange(10**9),
        "node_seed": rng.randrange(10**9),
        "check_state_arg": rng.random() < 0.34,
    }


# ------------------------------------------------------------------------------------------------ correspondence
N_NODES = 14  # sampled nodes per case that the driver recomputes (spread over the kinds present)
_UNARY_FN = ("exp", "log", "sin", "cos", "tan", "sinh", "cosh", "tanh", "arctan", "arcsin", "arccos", "arcsinh", "arccosh",
             "arctanh", "abs", "characteristic_function", "heaviside", "heaviside_smooth", "safe_power")
_ARITH = {"add": "add", "sub": "sub", "mul": "mul", "div": "div", "fn:maximum": "maximum"}


def _as_matrix(v):
    """Constant left factor of a matmul node as a scipy csr matrix (slicers act like their projection matrix)."""
    import scipy.sparse as sps
    t = _tag(v)
    if t == "M":
        return sps.csr_matrix(v)
    if t == "L":
        return sps.csr_matrix(v @ sps.identity(v.domain_size, format="csr"))
    if t == "LL":
        out = None
        for s in v:
            m = sps.csr_matrix(s @ sps.identity(s.domain_size, format="csr"))
            out = m if out is None else out + m
        return sps.csr_matrix(out)
    raise ValueError(t)


def _operand_row(v, i, width):
    """(value, Jacobian row) of row i of an operand: AdArray, ndarray (zero row) or float (broadcast, zero row)."""
    t = _tag(v)
    if t == "A":
        return float(v.val[i]), np.asarray(v.jac[[i], :].todense()).ravel()
    if t == "V":
        a = np.atleast_1d(v)
        return float(a[i] if a.size > 1 else a[0]), np.zeros(width)
    if t == "S":
        return float(v), np.zeros(width)
    raise ValueError(t)


def _partial_args(op):
    """positional and keyword arguments bound by functools.partial around the library function of an evaluate node,
    in the order of the function's signature (`heaviside_smooth(var, eps=...)` -> [eps])"""
    inner = op.func.__self__._func
    args, kw = [], {}
    while isinstance(inner, functools.partial):
        args = list(inner.args) + args
        kw = {**inner.keywords, **kw}
        inner = inner.func
    if getattr(inner, "__name__", "") == "heaviside_smooth":
        return [kw.get("eps", 1e-3)] if not args else args
    return args + list(kw.values())


def _sample_nodes(case, rec, nodes, width, model, x_state):
    def model_dofs(op):
        return model.equation_system.dofs_of([op])

    """Pick nodes of arithmetic kinds and one row each; return (driver ops, what the real forward mode produced)."""
    r = random.Random(f"C03-nodes-{case['node_seed']}")
    cand = []
    for op in nodes:
        if id(op) not in rec.results or _tag(rec.results[id(op)]) != "A" or rec.results[id(op)].val.size == 0:
            continue
        k = _kind(op, rec)
        if k == "leaf:var":
            cand.append((op, k, k))
            continue
        if op.is_leaf():
            continue
        head = k.split("(")[0]
        if head in _ARITH or head in ("matmul", "pow", "fn:l2_norm") or (head.startswith("fn:") and head[3:] in _UNARY_FN):
            cand.append((op, k, head))
    r.shuffle(cand)
    by_kind = {}
    for c in cand:
        by_kind.setdefault(c[1], []).append(c)
    picked = []
    kinds = sorted(by_kind)
    r.shuffle(kinds)
    while len(picked) < N_NODES and any(by_kind.values()):
        for kd in kinds:
            if by_kind[kd] and len(picked) < N_NODES:
                picked.append(by_kind[kd].pop())
    ops, real = [], []
    for op, k, head in picked:
        res = rec.results[id(op)]
        if res.val.size == 0:
            continue
        i = r.randrange(res.val.size)
        cv = [rec.results[id(c)] for c in op.children]
        try:
            if head in _ARITH:
                a, ja = _operand_row(cv[0], i, width)
                b, jb = _operand_row(cv[1], i, width)
                o = {"op": "node", "kind": _ARITH[head], "a": frac(a), "ja": [frac(t) for t in ja], "b": frac(b), "jb": [frac(t) for t in jb]}
            elif head == "leaf:var":
                dofs = model_dofs(op)
                o = {"op": "var", "width": width, "dof": int(dofs[i]), "x": frac(float(x_state[dofs[i]]))}
            elif head == "pow":
                c = cv[1]
                a, ja = _operand_row(cv[0], i, width)
                if _tag(c) == "S" and float(c).is_integer() and abs(float(c)) <= 8:
                    o = {"op": "pow", "c": int(float(c)), "a": frac(a), "ja": [frac(t) for t in ja]}
                else:  # real exponents, AdArray / ndarray exponents, constant bases: a ** b in binary64
                    b, jb = _operand_row(c, i, width)
                    o = {"op": "pow2", "a": frac(a), "ja": [frac(t) for t in ja], "b": frac(b), "jb": [frac(t) for t in jb]}
            elif head == "fn:l2_norm":
                dim = int(_partial_args(op)[0])
                if dim == 1:
                    a, ja = _operand_row(cv[0], i, width)
                    o = {"op": "fn", "name": "abs", "params": [], "a": frac(a), "ja": [frac(t) for t in ja]}
                else:
                    rows = [i * dim + q for q in range(dim)]
                    jr = np.asarray(cv[0].jac[rows, :].todense())
                    o = {"op": "norm", "width": width, "vals": [frac(float(cv[0].val[q])) for q in rows],
                         "jacs": [[frac(t) for t in jr[q]] for q in range(dim)]}
            elif head.startswith("fn:"):
                pa = _partial_args(op)
                if not all(isinstance(t, (int, float, np.floating, np.integer)) for t in pa):
                    continue
                a, ja = _operand_row(cv[0], i, width)
                o = {"op": "fn", "name": head[3:], "params": [frac(float(t)) for t in pa], "a": frac(a), "ja": [frac(t) for t in ja]}
            else:  # matmul
                M = _as_matrix(cv[0])
                row = M.getrow(i)
                cols = [int(c) for c in row.indices]
                x = cv[1]
                jr = np.asarray(x.jac[cols, :].todense()) if cols else np.zeros((0, width))
                o = {"op": "lin", "width": width, "coef": [frac(t) for t in row.data], "vals": [frac(float(x.val[c])) for c in cols],
                     "jacs": [[frac(t) for t in jr[q]] for q in range(len(cols))]}
        except (ValueError, IndexError):
            continue
        o["_kind"] = k
        ops.append(o)
        real.append({"kind": k, "v": float(res.val[i]), "j": [float(t) for t in np.asarray(res.jac[[i], :].todense()).ravel()]})
    return ops, real


_IMPL_CACHE: dict = {}


def _impl(case):
    key = _case_key(case)
    if key not in _IMPL_CACHE:
        model, x, d, census, rec, nodes, attempt, smooth = _prepare(case)
        ops, real = _sample_nodes(case, rec, nodes, model.equation_system.num_dofs(), model, x)
        sub = _subsystem(model, case)
        if sub is not None and model.equation_system.num_dofs() <= 150:
            es = model.equation_system
            eq_arg, var_arg, rows, cols = sub
            keep = dict(getattr(es, "assembled_equation_indices", {}))
            A, _b = es.assemble(state=x)
            As, _bs = es.assemble(equations=eq_arg, variables=var_arg, state=x)
            es.assembled_equation_indices = keep
            trip = lambda M: sorted((int(i), int(j), frac(v)) for i, j, v in zip(*(lambda c: (c.row, c.col, c.data))(M.tocoo())) if v != 0)
            ops.append({"op": "slice", "trip": [list(t) for t in trip(A)], "rows": [int(q) for q in rows], "cols": [int(q) for q in cols],
                        "_kind": "subsystem:" + case["subsystem"]})
            real.append({"kind": "subsystem:" + case["subsystem"], "trip": [list(t) for t in trip(As)]})
        _IMPL_CACHE.clear()
        _IMPL_CACHE[key] = (census, ops, real, model.equation_system.num_dofs(), attempt, smooth, dict(getattr(model, "_c03_branches", {})))
    return _IMPL_CACHE[key]


def impl_run(case):
    census, ops, real, ndof, attempt, smooth, branches = _impl(case)
    return {"census": dict(sorted(census.items())), "nodes": real, "dofs": ndof, "attempt": attempt, "smooth": smooth, "kink_branches": branches}


def model_ops(case):
    census, ops, real, ndof, attempt, smooth, branches = _impl(case)
    return [{"op": "census", "kinds": sorted(census)}] + [{k: v for k, v in o.items() if k != "_kind"} for o in ops]


def model_decode(outs, case):
    return {"uncovered": outs[0].get("uncovered"), "covered": outs[0].get("covered"), "nodes": outs[1:]}


def compare(impl, model, case):
    if "harness_exc" in impl:
        return "the tree auditor crashed on the real trees: " + impl["harness_exc"]
    if model["uncovered"] is None or model["uncovered"]:
        return f"{_cfg_str(case['config'])}: node kinds outside the vocabulary covered by the theorems: {model['uncovered']}"
    for kind, thm in model["covered"]:
        if "PorepyVerif.C03." + thm not in THEOREMS:
            return f"kind {kind} is attributed to {thm}, which is not an audited theorem"
    if len(model["nodes"]) != len(impl["nodes"]):
        return f"{len(impl['nodes'])} sampled nodes, {len(model['nodes'])} driver answers"
    for q, (a, b) in enumerate(zip(impl["nodes"], model["nodes"])):
        if "err" in b:
            return f"node {q} ({a['kind']}): driver answered {b}"
        if "trip" in a:
            dcmp = deep_compare(a["trip"], sorted(b["trip"]), f"<{a['kind']}>", tol=1e-12)
            if dcmp:
                return f"{_cfg_str(case['config'])}: assemble(equations, variables) is not the slice the model computes: {dcmp}"
            continue
        dcmp = deep_compare({"v": a["v"], "j": a["j"]}, {"v": b["v"], "j": b["j"]}, f"node[{q}]<{a['kind']}>", tol=1e-9)
        if dcmp:
            return f"{_cfg_str(case['config'])}: forward-mode result of a real node differs from the rule formula: {dcmp}"
    return None


def nontrivial(case):
    return True


def signature(case):
    c = case["config"]
    return (c["family"], c["fractures"], c["grid"], c.get("dim", 2), case.get("contact", "random"), case.get("subsystem", "none"), case["state_seed"], case["dir_seed"], case["dir_kind"])


def shrink_candidates(case):
    # simpler directions first, then smaller amplitudes / no previous-time-step perturbation
    if case["dir_kind"] == "dense":
        for s in range(6):
            yield dict(case, dir_kind="block", dir_seed=s)
    if case["dir_kind"] in ("dense", "block"):
        for s in range(24):
            yield dict(case, dir_kind="unit", dir_seed=s)
    if case["prev_amp"] != 0.0:
        yield dict(case, prev_amp=0.0)
    if case.get("check_state_arg"):
        yield dict(case, check_state_arg=False)
    if case.get("n_dirs", 1) > 1:
        yield dict(case, n_dirs=1)


def stats(cases, impl_outs):
    per_model, kinds_total = {}, {}
    for c, o in zip(cases, impl_outs):
        if not isinstance(o, dict) or "census" not in o:
            continue
        t = _cfg_str(c["config"])
        pm = per_model.setdefault(t, {"cases": 0, "dofs": o["dofs"], "nodes": sum(o["census"].values()), "kinds": len(o["census"]),
                                      "opaque_or_anomalous": sorted(k for k in o["census"] if "opaque" in k or "anomalous" in k),
                                      "function_nodes": {k: v for k, v in o["census"].items() if k.startswith("fn:")}})
        pm["cases"] += 1
        pm["contact_strata"] = sorted(set(pm.get("contact_strata", [])) | {c.get("contact", "random")})
        kb = pm.setdefault("kink_branch_rows[g>0,g<0]", {})
        for name, (pos, neg) in o.get("kink_branches", {}).items():
            t2 = kb.setdefault(name, [0, 0])
            t2[0] += pos
            t2[1] += neg
        for k, v in o["census"].items():
            kinds_total[k] = max(kinds_total.get(k, 0), v)
    dk = {}
    for c in cases:
        dk[c["dir_kind"]] = dk.get(c["dir_kind"], 0) + 1
    strata = {}
    for c in cases:
        strata[c.get("contact", "random")] = strata.get(c.get("contact", "random"), 0) + 1
    rk = {}
    for o in impl_outs:
        for nd in (o.get("nodes", []) if isinstance(o, dict) else []):
            h = nd["kind"].split("(")[0]
            rk[h] = rk.get(h, 0) + 1
    subs = {}
    for c in cases:
        subs[c.get("subsystem", "none")] = subs.get(c.get("subsystem", "none"), 0) + 1
    return {"per_model": per_model, "contact_strata": strata, "subsystem_strata": subs,
            "amplitudes": {str(a): sum(1 for c in cases if c["amp"] == a) for a in (0.2, 0.5, 1.0)},
            "previous_step_zero": sum(1 for c in cases if c["prev_amp"] == 0.0),
            "directions_per_case": sorted({int(c.get("n_dirs", 1)) for c in cases}), "recomputed_nodes_by_kind": dict(sorted(rk.items())), "node_kinds_max_count_per_model": dict(sorted(kinds_total.items())),
            "directions": dk, "recomputed_nodes": sum(len(o.get("nodes", [])) for o in impl_outs if isinstance(o, dict)),
            "oracle": dict(_STATS, fd_step=H, rtol=RTOL)}


RULE = ("case = (model family x number of fractures x grid type x dimension, contact stratum, state seed, direction); the model is built on a "
        "2x2(x2) Cartesian or gmsh simplex grid (cell size 0.5) with non-trivial O(1) material constants (compressibility, thermal expansion, "
        "Biot, dilation, friction ...); state = initial state + U(-amp,amp) on every dof, previous time step = U(-0.3,0.3) or 0; for fractured "
        "mechanics models the fracture cells are then steered (minimum-norm change of the interface displacement / contact traction) into a "
        "stratum: closed = NEGATIVE normal jump (-0.1..-0.5) with sticking (t_n -2..-4) or sliding (t_n -0.03..-0.15) traction, open = positive "
        "normal jump, mixed = per cell; states closer to a kink of maximum/abs/l2_norm/characteristic_function/heaviside/safe_power than 4x the "
        "variation over the stencil are re-drawn; direction dense / one variable block / one dof, two directions per state; sub-system stratum "
        "(none / equation subset requested in reverse order / variable subset / both / one equation restricted to some of its grids): "
        "assemble(equations, variables) must be the slice of the full system; quick: fixed plan of 26 cases over 9 models "
        "(five shipped families, 0/1/2 fractures, Cartesian and simplex, one 3d momentum balance, pp.ContactMechanics, every fractured "
        "mechanics model in closed and open states, and a synthetic model applying every pp.ad.functions function); thorough: 30 family x "
        "fractures x grid combinations in 2d + five 3d models + three contact-mechanics models + two synthetic ones, strata cycled; "
        "distinct = distinct (configuration, stratum, state, direction)")
TRUSTED = [
    "CORE: the theorems are about abstract expression trees whose node rules are the formulas of Model.lean/Lemmas.lean; that the real "
    "operator trees consist of such nodes is checked per run by the tree auditor (census of every node of every equation against the "
    "Lean vocabulary, plus re-computation by the Lean driver of sampled nodes of EVERY kind that occurs: variable leaves, + - * / @, "
    "maximum and integer powers over exact rationals; exp/log/tan/..., real powers, l2_norm, characteristic_function in binary64 to 1e-9), not proved",
    "the binary64 function rules of the driver (fnRuleF, powRuleF, normRowF) are transcriptions of the real-number rules the theorems are about "
    "(expRule, powRule, normRule ...), not the same terms; Lean's Float functions are libm",
    "modelled, not verified: the 4800 lines of constitutive-law Python that build the trees; scipy sparse algebra; ArraySlicer (its action "
    "is taken as that of its projection matrix); opaque function nodes (none in the shipped models) are only covered by the oracle",
    "the `lib` model is synthetic (not shipped): it exists to run every function of porepy.numerics.ad.functions through census, driver and oracle",
    "oracle: central differences with Richardson extrapolation (h=1e-3 and h/2, cross-checked against h/2 and h/4), per-row tolerance "
    "1e-6*(|J||delta| + |fd|) + 1e-9; discretisation matrices (incl. upwind directions) are held fixed as the property says",
]
EXPLANATION = ("CORE/partial: assemble_jac_is_derivative is proved for every expression tree whose node rules are sound at the state "
               "(chain-rule induction, Frechet and directional form, stacked system with b = -residual); soundness is proved for every node kind "
               "that occurs in the five shipped model families and pp.ContactMechanics and for every function of porepy.numerics.ad.functions "
               "(incl. arcsin/arccos/arcsinh/arccosh/arctanh, safe_power, heaviside_smooth, AdArray**AdArray, l2_norm in the code's row layout); the "
               "tree auditor finds no node outside that vocabulary; the identification of the Python trees with the abstract trees is by census + "
               "sampled re-evaluation of every occurring node kind by the Lean driver, and the property itself is checked on the real models by the "
               "directional-derivative oracle at stratified contact states (closed/open, stick/slip), relative error observed ~1e-9. "
               "vocab_assemble_jac_is_derivative replaces the abstract smoothness hypothesis by explicit inequalities on node values; "
               "newton_step_exact_linearization states the Newton clause; assemble_subsystem_jac_is_derivative covers assemble(equations=, variables=).")
ASSUMPTIONS = ["states are sampled in the smooth region (no max/abs/norm/characteristic kink within the finite-difference stencil)",
               "discretisation matrices are constants of the residual map (no rediscretisation between evaluations)"]
