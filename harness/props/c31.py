"""C31 Geometric predicates and point orderings agree with exact oracles
(porepy.geometry.geometry_property_checks / point_in_polyhedron / half_space / sort_points)."""
import functools
import math
import warnings
from fractions import Fraction as F

import numpy as np

from harness.common import frac, err_kind, deep_compare

PID = "C31"
THEOREMS = [
    "PorepyVerif.C31.ccw_eq_exact_outside_band",
    "PorepyVerif.C31.ccw_in_band_default",
    "PorepyVerif.C31.ccw_int_exact",
    "PorepyVerif.C31.ccw_polygon_iff_area_pos",
    "PorepyVerif.C31.point_in_polygon_kernel_inside",
    "PorepyVerif.C31.point_in_polygon_separated_outside",
    "PorepyVerif.C31.point_in_convex_polygon_outside",
    "PorepyVerif.C31.point_in_convex_polygon_spec",
    "PorepyVerif.C31.point_in_polygon_eq_signed_crossings",
    "PorepyVerif.C31.point_in_polygon_crossing_odd",
    "PorepyVerif.C31.point_in_polygon_crossing_parity_spec",
    "PorepyVerif.C31.pip_proved_answer_sound",
    "PorepyVerif.C31.collinear_spec",
    "PorepyVerif.C31.planar_exact",
    "PorepyVerif.C31.planar_spec",
    "PorepyVerif.C31.collinear_proved_answer_sound",
    "PorepyVerif.C31.planar_proved_answer_sound",
    "PorepyVerif.C31.half_space_spec",
    "PorepyVerif.C31.sort_point_pairs_chain",
    "PorepyVerif.C31.sort_point_pairs_cycle_complete",
    "PorepyVerif.C31.sort_point_pairs_chain_complete",
    "PorepyVerif.C31.sort_points_on_line_perm",
    "PorepyVerif.C31.sort_points_on_line_monotone",
    "PorepyVerif.C31.sort_point_plane_xy_perm",
    "PorepyVerif.C31.sort_point_plane_xy_sorted",
    "PorepyVerif.C31.ang_sorted_clockwise",
]
LEAN_MODULES = ["PorepyVerif.C31.Props"]
AUDIT = "PorepyVerif/C31/Audit.lean"
DRIVER = "PorepyVerif/C31/Driver.lean"
N = {"quick": 700, "thorough": 20000}
RULE = ("one call per case of is_ccw_polyline / is_ccw_polygon / point_in_polygon / point_in_cell / points_are_collinear / points_are_planar / "
        "point_inside_half_space_intersection / polygon_hanging_nodes / sort_point_pairs / sort_multiple_point_pairs / sort_points_on_line / sort_point_plane in a plane z = const (compared with the Lean model "
        "AND checked by the exact oracle) or of point_in_polyhedron / PointInPolyhedron.winding_number / sort_point_plane / "
        "sort_triangle_edges / half_space_interior_point (exact oracle only). Coordinates are small integers or dyadics (exact in binary64). "
        "Polygons: convex hulls, star-shaped, rectilinear non-convex templates (L, U, comb, stairs, C, plus) and a dented quad, both orientations, "
        "random start vertex; query points: vertices, points on edges, points on the EXTENSION of edges, half-integer lattice points. "
        "Polyhedra: tetrahedra, boxes (quadrilateral faces, Delaunay path), boxes with a pyramidal dent (re-entrant vertex) or roof, triangular prisms, "
        "prisms over the non-convex polygons (ear-clipped, conforming), optionally sheared by an invertible integer matrix, faces in random order/orientation; query points: vertices, points on faces/edges, "
        "points on the LINE through two vertices of a face beyond its ends and in the PLANE of a face (inside and outside the body), convex combinations, half-integer lattice points. Point sets: exactly collinear/planar, one point off (first, middle, LAST), duplicates, "
        "first two points equal, random; tolerances 0, 1e-8, 1e-5 (is_ccw_polyline also 1/2, 3, 40 so that the band is hit). Half spaces: 0-6 planes, "
        "points on the boundary, malformed shapes. Line pairs: simple cycles and paths over distinct node ids with random column order and flips, "
        "both modes, with/without check_circular, an extra data row (colliding or not with node ids), malformed: two components, branching, wrong mode, "
        "repeated lines. non-trivial = not (convex polygon with one query point / fewer than 3 lines / tetrahedron / fewer than 3 points); "
        "distinct = distinct cases")
TRUSTED = [
    "oracle-only (no Lean model): point_in_polyhedron and PointInPolyhedron (solid angles via arctan2, scipy Delaunay, uniquify_point_set, "
    "sort_triangle_edges), half_space_interior_point (scipy linprog), sort_point_plane in planes other than z = const (rotation by an irrational matrix before arctan2; planes z = const are modelled exactly), "
    "sort_triangle_edges; their oracle is exact rational geometry (ray casting with exact intersection tests, exact angular order)",
    "oracle-only additions of this round: point_in_cell(if_make_planar=True) on polygons embedded in a skew plane; point_in_polyhedron with a single 1-d test point",
    "modelled, not verified (correspondence only): point_in_polygon where the vertical line through the point meets >= 4 edges and the crossing number is even "
    "(needs: a simple polygon has signed crossing number in {-1,0,1}) and in non-generic positions (a vertex exactly above/below the point) -- the theorems cover "
    "kernel points, separated points, the convex case, every polygon in generic position with <= 2 edges met, and 'odd crossing number => True' in general; "
    "point_in_cell, polygon_hanging_nodes, sort_multiple_point_pairs (numba), compute_normal's argmax selection",
    "modelled, not verified: sort_points_on_line's rotation (project_line_matrix) is modelled as the dot product with the tangent that the rotation aligns with e_z "
    "(sign -1 in the degenerate case tangent = -e_z, where the code uses the identity); np.argmax ties between equally distant end points may reverse the order "
    "(accepted by the comparison only in that exact tie)",
    "modelled, not verified: numpy masking/broadcasting glue, np.roll/np.sign/np.bincount/np.isin/np.argsort, norms compared as squares (sqrt monotone), np.isclose/np.allclose with rtol=0",
]
EXPLANATION = ("CORE (partial): the predicates are modelled branch for branch over exact rationals and proved equal to the exact geometric answer outside the "
               "tolerance band: is_ccw_polyline (orientation sign; integer inputs: any tol<1), is_ccw_polygon (= sign of shoelace area), point_in_polygon "
               "(True on the kernel, False when separated by a line, exact for convex polygons; for EVERY polygon in generic position the coded winding sum is the "
               "signed crossing number of the upward ray, hence odd crossing number => True, and the exact even-odd rule whenever the vertical line meets <= 2 edges), "
               "points_are_collinear / points_are_planar (integer inputs: True iff exactly collinear / in the plane, under an explicit bound tol^2*scale<1), "
               "half-space membership (iff all inequalities), sort_point_pairs (every returned result is a valid chain; simple cycles AND simple open chains in any "
               "column order / flips are never rejected and come out as the walk from the first column / from an end point), sort_points_on_line (permutation; "
               "monotone in the line parameter), sort_point_plane in planes z = const (permutation; ordered by the exact arctan2 comparison, i.e. clockwise about the centre). Everything involving arctan2 / LP / Delaunay (polyhedron, plane sorting) and the Jordan-curve part of non-convex "
               "point_in_polygon is tied by correspondence and an exact rational oracle only. The hypotheses of the point_in_polygon / collinear / planar theorems are decidable input conditions that the driver evaluates on every case (pip_proved_answer_sound, collinear_proved_answer_sound, planar_proved_answer_sound: the theorem-backed answer is compared with the real code; the evidence counts these cases). Five defects found by this check were repaired in /repo (no open finding).")
ASSUMPTIONS = ["inputs are small integers / dyadics, so the rational model and binary64 agree exactly on every compared (discrete) output",
               "query points of point_in_cell / polyhedra are either exactly on the boundary (documented answer) or at distance >= ~1e-2 from it; "
               "collinear/planar inputs are exactly degenerate or integer-far from degenerate (no input inside a tolerance band except where the band is the subject)"]

KINDS = [
    ("ccw_polyline", 8), ("ccw_polygon", 6), ("pip", 16), ("cell", 5), ("cell_planar", 2), ("collinear", 9), ("planar", 9),
    ("half_space", 7), ("hanging", 5), ("sort_pairs", 14), ("sort_multi", 4),
    ("polyhedron", 7), ("winding", 3), ("sort_plane", 3), ("sort_plane_xy", 3), ("sort_line", 4), ("tri_edges", 4), ("hs_interior", 2),
]
ORACLE_ONLY = {"polyhedron", "winding", "sort_plane", "tri_edges", "hs_interior", "cell_planar"}


# ----------------------------------------------------------------------------- exact rational geometry (oracle side)
def Fr(x):
    return x if isinstance(x, F) else F(x)


def vsub(a, b):
    return [x - y for x, y in zip(a, b)]


def vdot(a, b):
    return sum(x * y for x, y in zip(a, b))


def cross3(a, b):
    return [a[1] * b[2] - a[2] * b[1], a[2] * b[0] - a[0] * b[2], a[0] * b[1] - a[1] * b[0]]


def cross2(a, b):
    return a[0] * b[1] - a[1] * b[0]


def sign(x):
    return (x > 0) - (x < 0)


def on_segment2(p, a, b):
    """p on the closed segment ab (2-d, exact)."""
    if cross2(vsub(b, a), vsub(p, a)) != 0:
        return False
    return min(a[0], b[0]) <= p[0] <= max(a[0], b[0]) and min(a[1], b[1]) <= p[1] <= max(a[1], b[1])


def classify_pip(poly, p):
    """'bd' | 'in' | 'out' for a SIMPLE polygon (list of 2-d points), exact crossing-number rule."""
    n = len(poly)
    for i in range(n):
        if on_segment2(p, poly[i], poly[(i + 1) % n]):
            return "bd"
    odd = False
    for i in range(n):
        a, b = poly[i], poly[(i + 1) % n]
        if (a[1] > p[1]) != (b[1] > p[1]):
            # x coordinate of the crossing of the edge with the horizontal line through p
            t = F(p[1] - a[1]) / F(b[1] - a[1])
            x = a[0] + t * (b[0] - a[0])
            if x > p[0]:
                odd = not odd
    return "in" if odd else "out"


def area2(poly):
    n = len(poly)
    return sum(cross2(poly[i], poly[(i + 1) % n]) for i in range(n))


def is_simple(poly):
    """no two non-adjacent edges touch, no repeated vertices, adjacent edges only share their vertex."""
    n = len(poly)
    if n < 3 or len({tuple(p) for p in poly}) < n:
        return False

    def inter(a, b, c, d):
        d1, d2 = sign(cross2(vsub(b, a), vsub(c, a))), sign(cross2(vsub(b, a), vsub(d, a)))
        d3, d4 = sign(cross2(vsub(d, c), vsub(a, c))), sign(cross2(vsub(d, c), vsub(b, c)))
        if d1 * d2 < 0 and d3 * d4 < 0:
            return True
        return on_segment2(c, a, b) or on_segment2(d, a, b) or on_segment2(a, c, d) or on_segment2(b, c, d)

    for i in range(n):
        a, b = poly[i], poly[(i + 1) % n]
        for j in range(i + 1, n):
            c, d = poly[j], poly[(j + 1) % n]
            if j == i + 1 or (i == 0 and j == n - 1):
                # adjacent: the far end points must not lie on the other edge (no fold-back)
                if j == i + 1 and (on_segment2(d, a, b) or on_segment2(a, c, d)):
                    return False
                if i == 0 and j == n - 1 and (on_segment2(c, a, b) or on_segment2(b, c, d)):
                    return False
                continue
            if inter(a, b, c, d):
                return False
    return True


def tri_contains3(p, a, b, c):
    """p on the closed triangle abc in 3-d (exact): coplanar and inside/on the edges."""
    n = cross3(vsub(b, a), vsub(c, a))
    if vdot(n, vsub(p, a)) != 0:
        return False
    s = [vdot(n, cross3(vsub(b, a), vsub(p, a))), vdot(n, cross3(vsub(c, b), vsub(p, b))), vdot(n, cross3(vsub(a, c), vsub(p, c)))]
    return all(x >= 0 for x in s)


_DIRS = [(97, 53, 31), (-41, 89, 67), (59, -83, 101), (103, 61, -47), (-71, -37, 109), (113, 29, 73), (1, 0, 0), (37, 41, 43)]


def classify_polyhedron(tris, p):
    """'bd' | 'in' | 'out' for a closed triangle soup (list of 3 vertices each), exact ray casting."""
    for a, b, c in tris:
        if tri_contains3(p, a, b, c):
            return "bd"
    for d in _DIRS:
        cnt, bad = 0, False
        for a, b, c in tris:
            e1, e2 = vsub(b, a), vsub(c, a)
            h = cross3(d, e2)
            det = vdot(e1, h)
            s = vsub(p, a)
            if det == 0:
                if vdot(cross3(e1, e2), s) == 0:
                    bad = True
                    break
                continue
            u = F(vdot(s, h)) / det
            q = cross3(s, e1)
            v = F(vdot(d, q)) / det
            t = F(vdot(e2, q)) / det
            if t <= 0 or u < 0 or v < 0 or u + v > 1:
                continue
            if u == 0 or v == 0 or u + v == 1:
                bad = True
                break
            cnt += 1
        if not bad:
            return "in" if cnt % 2 else "out"
    raise RuntimeError("no generic ray direction")


def angle_cmp(a, b):
    """exact comparison of the polar angles in [0, 2pi) of two non-zero 2-d vectors"""
    def half(v):
        return 0 if (v[1] > 0 or (v[1] == 0 and v[0] > 0)) else 1
    ha, hb = half(a), half(b)
    if ha != hb:
        return -1 if ha < hb else 1
    c = cross2(a, b)
    return -1 if c > 0 else (1 if c < 0 else 0)


def convex_hull(pts):
    pts = sorted(set(map(tuple, pts)))
    if len(pts) <= 2:
        return [list(p) for p in pts]
    def half(ps):
        h = []
        for p in ps:
            while len(h) >= 2 and cross2(vsub(h[-1], h[-2]), vsub(p, h[-2])) <= 0:
                h.pop()
            h.append(p)
        return h
    lo, up = half(pts), half(pts[::-1])
    return [list(p) for p in lo[:-1] + up[:-1]]


def ear_clip(poly):
    """triangulation (index triples) of a simple ccw polygon, exact"""
    idx = list(range(len(poly)))
    tris = []
    guard = 0
    while len(idx) > 3 and guard < 10000:
        guard += 1
        m = len(idx)
        for k in range(m):
            i, j, l = idx[k - 1], idx[k], idx[(k + 1) % m]
            a, b, c = poly[i], poly[j], poly[l]
            if cross2(vsub(b, a), vsub(c, a)) <= 0:
                continue
            ok = True
            for q in idx:
                if q in (i, j, l):
                    continue
                x = poly[q]
                if (cross2(vsub(b, a), vsub(x, a)) >= 0 and cross2(vsub(c, b), vsub(x, b)) >= 0 and cross2(vsub(a, c), vsub(x, c)) >= 0):
                    ok = False
                    break
            if ok:
                tris.append((i, j, l))
                idx.pop(k)
                break
        else:
            raise RuntimeError("ear clipping failed")
    tris.append(tuple(idx))
    return tris


# ----------------------------------------------------------------------------- generators
def _gen_polygon(rng):
    """simple integer polygon, returns (vertices, class)"""
    r = rng.random()
    if r < 0.3:
        while True:
            pts = [[rng.randint(-6, 6), rng.randint(-6, 6)] for _ in range(rng.randint(3, 9))]
            h = convex_hull(pts)
            if len(h) >= 3:
                poly, cls = h, "convex"
                break
    elif r < 0.6:
        # star-shaped around the origin: distinct directions, one point per direction
        while True:
            pts = {}
            for _ in range(rng.randint(3, 9)):
                v = (rng.randint(-6, 6), rng.randint(-6, 6))
                if v == (0, 0):
                    continue
                g = math.gcd(abs(v[0]), abs(v[1]))
                pts[(v[0] // g, v[1] // g)] = list(v)
            vs = sorted(pts.values(), key=functools.cmp_to_key(angle_cmp))
            if len(vs) >= 3 and is_simple(vs) and area2(vs) > 0:
                # the origin must be strictly inside (every consecutive pair turns left around it)
                if all(cross2(vs[i], vs[(i + 1) % len(vs)]) > 0 for i in range(len(vs))):
                    poly, cls = vs, "star"
                    break
    else:
        templates = [
            [(0, 0), (2, 0), (2, 1), (1, 1), (1, 2), (0, 2)],  # L
            [(0, 0), (3, 0), (3, 2), (2, 2), (2, 1), (1, 1), (1, 2), (0, 2)],  # U
            [(0, 0), (5, 0), (5, 2), (4, 2), (4, 1), (3, 1), (3, 2), (2, 2), (2, 1), (1, 1), (1, 2), (0, 2)],  # comb
            [(0, 0), (3, 0), (3, 1), (2, 1), (2, 2), (1, 2), (1, 3), (0, 3)],  # stairs
            [(0, 0), (4, 0), (4, 4), (0, 4), (0, 3), (3, 3), (3, 1), (0, 1)],  # C
            [(1, 0), (2, 0), (2, 1), (3, 1), (3, 2), (2, 2), (2, 3), (1, 3), (1, 2), (0, 2), (0, 1), (1, 1)],  # plus
            [(0, 0), (4, 0), (2, 1), (4, 4), (0, 4), (1, 2)],  # dented quad (non-rectilinear)
        ]
        t = rng.choice(templates)
        sx, sy = rng.choice([1, 1, 2, 3]), rng.choice([1, 1, 2])
        poly = [[x * sx, y * sy] for x, y in t]
        if rng.random() < 0.5:
            poly = [[y, x] for x, y in poly][::-1]
        if rng.random() < 0.3:
            poly = [[-x, y] for x, y in poly][::-1]
        cls = "nonconvex"
    dx, dy = rng.randint(-3, 3), rng.randint(-3, 3)
    poly = [[x + dx, y + dy] for x, y in poly]
    if rng.random() < 0.5:
        poly = poly[::-1]
    k = rng.randrange(len(poly))
    poly = poly[k:] + poly[:k]
    return poly, cls


def _query_points_2d(rng, poly, k):
    xs, ys = [p[0] for p in poly], [p[1] for p in poly]
    out = []
    n = len(poly)
    for _ in range(k):
        r = rng.random()
        if r < 0.12:
            out.append(list(map(F, rng.choice(poly))))  # a vertex
        elif r < 0.27:
            i = rng.randrange(n)
            a, b = poly[i], poly[(i + 1) % n]
            t = F(rng.randint(1, 3), 4)
            out.append([a[0] + t * (b[0] - a[0]), a[1] + t * (b[1] - a[1])])  # on an edge
        elif r < 0.42:
            i = rng.randrange(n)
            a, b = poly[i], poly[(i + 1) % n]
            t = F(rng.choice([-6, -4, -2, -1, 5, 6, 8, 10]), 4)
            out.append([a[0] + t * (b[0] - a[0]), a[1] + t * (b[1] - a[1])])  # on the extension of an edge
        else:
            out.append([F(rng.randint(2 * min(xs) - 2, 2 * max(xs) + 2), 2), F(rng.randint(2 * min(ys) - 2, 2 * max(ys) + 2), 2)])
    return out


def _fr2(pts):
    return [[frac(x) for x in p] for p in pts]


def _gen_chain(rng, k, closed):
    """k lines over distinct node ids forming one simple path (k+1 nodes) or cycle (k nodes)"""
    ids = rng.sample(range(0, 30), k + (0 if closed else 1))
    return [[ids[i], ids[(i + 1) % len(ids)]] for i in range(k)]


def _scramble(rng, lines, keep_first=False):
    ls = [list(l) for l in lines]
    if keep_first:
        head, rest = ls[:1], ls[1:]
        rng.shuffle(rest)
        ls = head + rest
    else:
        rng.shuffle(ls)
    return [l[::-1] if rng.random() < 0.5 else l for l in ls]


def _mesh_tetra(rng):
    while True:
        v = [[rng.randint(-3, 3) for _ in range(3)] for _ in range(4)]
        vol = vdot(vsub(v[1], v[0]), cross3(vsub(v[2], v[0]), vsub(v[3], v[0])))
        if vol != 0:
            break
    faces = [[0, 1, 2], [0, 1, 3], [0, 2, 3], [1, 2, 3]]
    return v, faces


def _mesh_extrusion(rng, poly, h):
    """vertices and convex faces (index lists) of the prism over the simple polygon `poly`;
    top/bottom are triangulated by ear clipping, the sides are quads"""
    if area2(poly) < 0:
        poly = poly[::-1]
    n = len(poly)
    v = [[p[0], p[1], 0] for p in poly] + [[p[0], p[1], h] for p in poly]
    faces = []
    for t in ear_clip(poly):
        faces.append(list(t))
        faces.append([i + n for i in t])
    for i in range(n):
        j = (i + 1) % n
        faces.append([i, j, j + n, i + n])
    return v, faces


def _mesh_dented_box(rng):
    """box [0,a]x[0,b]x[0,c] whose top face is replaced by the four triangles (top corner i, top corner
    i+1, apex); an apex strictly inside the box gives a pyramidal DENT with a re-entrant vertex (the
    continuations of the four edges to the apex beyond the apex, and the planes of the four dent
    triangles, run through the interior of the body), an apex above the top gives a roof"""
    a, b, c = rng.randint(2, 4), rng.randint(2, 4), rng.randint(2, 4)
    dent = rng.random() < 0.8
    apex = [rng.randint(1, a - 1), rng.randint(1, b - 1), rng.randint(1, c - 1) if dent else c + rng.randint(1, 2)]
    s = rng.choice([1, 1, 2])
    v = [[0, 0, 0], [a, 0, 0], [a, b, 0], [0, b, 0], [0, 0, c], [a, 0, c], [a, b, c], [0, b, c], apex]
    v = [[s * x for x in p] for p in v]
    faces = [[0, 1, 2, 3], [0, 1, 5, 4], [1, 2, 6, 5], [2, 3, 7, 6], [3, 0, 4, 7], [4, 5, 8], [5, 6, 8], [6, 7, 8], [7, 4, 8]]
    return v, faces, "dented-box" if dent else "roofed-box"


def _gen_mesh(rng):
    r = rng.random()
    if r < 0.3:
        v, faces, cls = _mesh_dented_box(rng)
    elif r < 0.4:
        v, faces = _mesh_tetra(rng)
        cls = "tetra"
    elif r < 0.5:
        a, b, c = rng.randint(1, 3), rng.randint(1, 3), rng.randint(1, 3)
        v, faces = _mesh_extrusion(rng, [[0, 0], [a, 0], [a, b], [0, b]], c)
        # the box is given with quadrilateral top and bottom as well
        faces = [[0, 1, 2, 3], [4, 5, 6, 7]] + [f for f in faces if len(f) == 4]
        cls = "box"
    elif r < 0.6:
        while True:
            tri = [[rng.randint(-3, 3), rng.randint(-3, 3)] for _ in range(3)]
            if area2(tri) != 0:
                break
        v, faces = _mesh_extrusion(rng, tri, rng.randint(1, 3))
        cls = "prism"
    else:
        while True:
            poly, pc = _gen_polygon(rng)
            if pc != "convex" or rng.random() < 0.3:
                break
        v, faces = _mesh_extrusion(rng, poly, rng.randint(1, 3))
        cls = "extruded-" + pc
    # integer shear / permutation of axes (invertible, so inside/outside is preserved)
    if rng.random() < 0.6:
        while True:
            A = [[rng.randint(-1, 2) for _ in range(3)] for _ in range(3)]
            det = vdot(A[0], cross3(A[1], A[2]))
            if det != 0:
                break
        v = [[vdot(row, p) for row in A] for p in v]
    o = [rng.randint(-2, 2) for _ in range(3)]
    v = [[x + y for x, y in zip(p, o)] for p in v]
    return v, faces, cls


def _mesh_tris(v, faces):
    tris = []
    for f in faces:
        for k in range(1, len(f) - 1):
            tris.append((f[0], f[k], f[k + 1]))
    return tris


def _query_points_3d(rng, v, faces, k):
    lo = [min(p[i] for p in v) for i in range(3)]
    hi = [max(p[i] for p in v) for i in range(3)]
    out = []
    for _ in range(k):
        r = rng.random()
        if r < 0.08:
            out.append([F(x) for x in rng.choice(v)])
        elif r < 0.2:
            f = rng.choice(faces)
            w = [rng.randint(0, 3) for _ in f]
            if sum(w) == 0:
                w[0] = 1
            out.append([sum(F(wi, sum(w)) * v[i][c] for wi, i in zip(w, f)) for c in range(3)])  # on a face / edge
        elif r < 0.4:
            # on the LINE through two vertices of a face (an edge or a diagonal of the face), mostly beyond its
            # end points: inside the body this happens behind re-entrant vertices / edges
            f = rng.choice(faces)
            i, j = rng.sample(f, 2)
            t = F(rng.choice([-4, -3, -2, -1, 1, 2, 3, 5, 6, 7, 8, 10, 12]), 4)
            out.append([v[i][c] + t * (v[j][c] - v[i][c]) for c in range(3)])
        elif r < 0.55:
            # in the PLANE of a face, anywhere (inside the face, on the continuation of the face inside or outside the body)
            f = rng.choice(faces)
            i, j, k = rng.sample(f, 3)
            t1, t2 = F(rng.randint(-6, 10), 4), F(rng.randint(-6, 10), 4)
            out.append([v[i][c] + t1 * (v[j][c] - v[i][c]) + t2 * (v[k][c] - v[i][c]) for c in range(3)])
        elif r < 0.7:
            # barycentre-like combination of all vertices: mostly interior for convex bodies
            w = [rng.randint(0, 2) for _ in v]
            if sum(w) == 0:
                w[0] = 1
            out.append([sum(F(wi, sum(w)) * p[c] for wi, p in zip(w, v)) for c in range(3)])
        else:
            out.append([F(rng.randint(2 * lo[c] - 2, 2 * hi[c] + 2), 2) for c in range(3)])
    return out


def _in_band(case):
    """True if a generated case is not exactly degenerate but closer to degenerate than 1e3 * tol
    (planar: any admissible normal; hanging: nearly parallel consecutive edges). Such cases are dropped."""
    if case["kind"] == "planar":
        pts = [[F(x) for x in p] for p in case["pts"]]
        n = len(pts)
        c = [sum(p[k] for p in pts) / n for k in range(3)]
        v = [vsub(p, c) for p in pts]
        if case["normal"] is not None:
            normals = [[F(x) for x in case["normal"]]]
        else:
            normals = [cross3(v[i], v[j]) for i in range(n) for j in range(i + 1, n)]
            normals = [N for N in normals if N != [0, 0, 0]]
        for N in normals:
            s = sum(vdot(N, w) ** 2 for w in v) / vdot(N, N)
            if 0 < s < F(1, 10**6):
                return True
        return False
    if case["kind"] == "hanging":
        p = [[F(x) for x in q] + [F(0)] * (3 - len(q)) for q in case["p"]]
        e = case["edges"]
        m = len(e)
        for i in range(m):
            a = vsub(p[e[i][1]], p[e[i][0]])
            b = vsub(p[e[(i + 1) % m][1]], p[e[(i + 1) % m][0]])
            cr = cross3(a, b)
            if cr != [0, 0, 0] and vdot(cr, cr) < F(1, 10**5) * vdot(a, a) * vdot(b, b):
                return True
        return False
    return False


def _scale_pts(pts, s):
    return [[frac(F(x) * s) for x in p] for p in pts]


def _strata(rng, c):
    """explicit corner-case strata: extreme scale (exact powers of two), duplicated vertices, sizes 0/1; tags are counted in stats()"""
    k, tags = c["kind"], []
    if k in ("pip", "cell", "ccw_polygon", "half_space", "ccw_polyline") and rng.random() < 0.1:
        s = F(2) ** rng.choice([-30, -20, 20, 30])
        if k in ("pip", "cell"):
            c["poly"], c["pts"] = _scale_pts(c["poly"], s), _scale_pts(c["pts"], s)
        elif k == "ccw_polygon":
            c["poly"] = _scale_pts(c["poly"], s)
        elif k == "half_space":
            c["x0"], c["pts"] = _scale_pts(c["x0"], s), _scale_pts(c["pts"], s)
        else:
            c["p1"], c["p2"] = _scale_pts([c["p1"]], s)[0], _scale_pts([c["p2"]], s)[0]
            c["p3"], c["tol"] = _scale_pts(c["p3"], s), frac(F(c["tol"]) * s * s)
        tags.append("extreme-scale")
    if k in ("pip", "cell", "ccw_polygon") and rng.random() < 0.07:
        i = rng.randrange(len(c["poly"]))
        c["poly"] = c["poly"][: i + 1] + [list(c["poly"][i])] + c["poly"][i + 1:]
        tags.append("duplicated-vertex")
    if k == "polyhedron" and rng.random() < 0.12:
        c["pts"], c["one_d"] = c["pts"][:1], True
        tags.append("single-point-1d")
    n = {"ccw_polygon": lambda: len(c["poly"]), "collinear": lambda: len(c["pts"]), "sort_pairs": lambda: len(c["lines"]),
         "sort_line": lambda: len(c["pts"]), "half_space": lambda: min(len(c["n"]), len(c["pts"])), "ccw_polyline": lambda: len(c["p3"]),
         "sort_multi": lambda: len(c["chains"][0])}.get(k)
    if n is not None and n() <= 1:
        tags.append("size-0-1")
    if k == "sort_pairs" and c["circular"] is None:
        tags.append("is_circular-None")
    if k in ("collinear", "planar") and len({tuple(p) for p in c["pts"]}) < len(c["pts"]):
        tags.append("duplicate-points")
    if tags:
        c["strata"] = tags
    return c


def gen_case(rng, tier):
    while True:
        c = _gen_case(rng, tier)
        if not _in_band(c):
            return _strata(rng, c)
        DROPPED[0] += 1


DROPPED = [0]


def _gen_case(rng, tier):
    kinds, weights = zip(*KINDS)
    kind = rng.choices(kinds, weights)[0]
    big = tier == "thorough"
    if kind == "ccw_polyline":
        den = rng.choice([1, 1, 2, 4])
        pt = lambda: [F(rng.randint(-8, 8), den), F(rng.randint(-8, 8), den)]
        p1, p2 = pt(), pt()
        if rng.random() < 0.05:
            p2 = list(p1)
        p3 = []
        for _ in range(rng.randint(1, 6)):
            if rng.random() < 0.3:  # exactly on the line
                t = F(rng.randint(-8, 8), 4)
                p3.append([p1[0] + t * (p2[0] - p1[0]), p1[1] + t * (p2[1] - p1[1])])
            else:
                p3.append(pt())
        tol = rng.choice([F(0), F(0), F(1, 2**20), F(1, 2), F(3), F(40)])
        return {"kind": kind, "p1": _fr2([p1])[0], "p2": _fr2([p2])[0], "p3": _fr2(p3), "tol": frac(tol), "default": rng.random() < 0.5}
    if kind == "ccw_polygon":
        r = rng.random()
        if r < 0.6:
            poly, cls = _gen_polygon(rng)
        elif r < 0.85:
            poly, cls = [[rng.randint(-6, 6), rng.randint(-6, 6)] for _ in range(rng.randint(1, 8))], "random"
        else:
            a, d = [rng.randint(-4, 4), rng.randint(-4, 4)], [rng.randint(-2, 2), rng.randint(-2, 2)]
            poly, cls = [[a[0] + t * d[0], a[1] + t * d[1]] for t in [rng.randint(-3, 3) for _ in range(rng.randint(2, 5))]], "zero-area"
        den = rng.choice([1, 1, 2])
        return {"kind": kind, "poly": _fr2([[F(x, den), F(y, den)] for x, y in poly]), "cls": cls}
    if kind in ("pip", "cell"):
        poly, cls = _gen_polygon(rng)
        pts = _query_points_2d(rng, poly, rng.randint(1, 8 if not big else 16))
        if kind == "cell":
            P = [[F(x) for x in p] for p in poly]
            pts = [p for p in pts if classify_pip(P, p) != "bd"] or [[F(99), F(99)]]
            return {"kind": kind, "poly": _fr2(poly), "pts": _fr2(pts), "cls": cls}
        return {"kind": kind, "poly": _fr2(poly), "pts": _fr2(pts), "default": rng.random() < 0.4, "cls": cls,
                "one_d": len(pts) == 1 and rng.random() < 0.5}
    if kind == "cell_planar":
        poly, cls = _gen_polygon(rng)
        P = [[F(x) for x in p] for p in poly]
        pts = [p for p in _query_points_2d(rng, poly, 6) if classify_pip(P, p) != "bd"][:4] or [[F(99), F(99)]]
        rp = lambda: [rng.randint(-2, 2) for _ in range(3)]
        while True:
            o, u, v = rp(), rp(), rp()
            if cross3(u, v) != [0, 0, 0]:
                break
        return {"kind": kind, "poly": _fr2(poly), "pts": _fr2(pts), "o": o, "u": u, "v": v, "cls": cls}
    if kind == "collinear":
        n = rng.choice([1, 2, 3, 3, 4, 4, 5, 6])
        rp = lambda: [rng.randint(-6, 6) for _ in range(3)]
        cls = rng.choice(["line", "line", "last-off", "mid-off", "dup-first", "random", "line-dup"])
        o, d = rp(), rp()
        if d == [0, 0, 0]:
            d = [1, 0, 0]
        ts = [rng.randint(-4, 4) for _ in range(n)]
        pts = [[o[c] + t * d[c] for c in range(3)] for t in ts]
        if cls == "last-off" and n >= 3:
            pts[-1] = rp()
        elif cls == "mid-off" and n >= 3:
            pts[rng.randrange(1, n)] = rp()
        elif cls == "dup-first" and n >= 3:
            pts[1] = list(pts[0])
            if rng.random() < 0.6:
                pts[rng.randrange(2, n)] = rp()
        elif cls == "random":
            pts = [rp() for _ in range(n)]
        elif cls == "line-dup" and n >= 2:
            pts[rng.randrange(n)] = list(pts[rng.randrange(n)])
        tol = rng.choice([F(1e-5), F(1e-5), F(1e-8), F(0)])
        return {"kind": kind, "pts": _fr2(pts), "tol": frac(tol), "cls": cls}
    if kind == "planar":
        n = rng.randint(3, 7)
        rp = lambda: [rng.randint(-5, 5) for _ in range(3)]
        while True:
            o, u, v = rp(), rp(), rp()
            nrm = cross3(u, v)
            if nrm != [0, 0, 0]:
                break
        cls = rng.choice(["plane", "plane", "one-off", "one-off", "random", "line"])
        ab = [(rng.randint(-3, 3), rng.randint(-3, 3)) for _ in range(n)]
        pts = [[o[c] + a * u[c] + b * v[c] for c in range(3)] for a, b in ab]
        if cls == "one-off":
            pts[rng.randrange(n)] = rp()
        elif cls == "random":
            pts = [rp() for _ in range(n)]
        elif cls == "line":
            pts = [[o[c] + a * u[c] for c in range(3)] for a, _ in ab]
        normal = None
        if rng.random() < 0.45:
            s = rng.choice([1, -1, 2, -3, F(1, 2)])
            normal = [s * x for x in nrm]
            if rng.random() < 0.25:
                normal = [F(x) for x in rp()]
            if all(x == 0 for x in normal):
                normal = [F(1), F(0), F(0)]
            normal = [frac(x) for x in normal]
        tol = rng.choice([F(1e-5), F(1e-5), F(1e-8)])
        return {"kind": kind, "pts": _fr2(pts), "normal": normal, "tol": frac(tol), "cls": cls}
    if kind == "half_space":
        k = rng.choice([0, 1, 2, 3, 4, 6])
        rp = lambda: [rng.randint(-4, 4) for _ in range(3)]
        n = [rp() for _ in range(k)]
        x0 = [rp() for _ in range(k)]
        if rng.random() < 0.4 and k:  # a box: many points inside / on the boundary
            n = [[1, 0, 0], [-1, 0, 0], [0, 1, 0], [0, -1, 0], [0, 0, 1], [0, 0, -1]][:k]
            x0 = [[2, 0, 0], [-2, 0, 0], [0, 2, 0], [0, -2, 0], [0, 0, 2], [0, 0, -2]][:k]
        pts = [[F(rng.randint(-6, 6), 2) for _ in range(3)] for _ in range(rng.randint(0, 6))]
        rows = [3, 3, 3]
        bad = rng.random()
        if bad < 0.06:
            x0 = x0 + [rp()]
        elif bad < 0.12:
            rows[rng.randrange(3)] = 2
        return {"kind": kind, "n": _fr2(n), "x0": _fr2(x0), "pts": _fr2(pts), "rows": rows}
    if kind == "hanging":
        poly, cls = _gen_polygon(rng)
        dim = rng.choice([2, 3])
        # subdivide some edges (hanging nodes) and sometimes add a spike (fold back)
        pts = []
        n = len(poly)
        for i in range(n):
            a, b = poly[i], poly[(i + 1) % n]
            pts.append([F(a[0]), F(a[1])])
            for t in sorted({F(rng.randint(1, 3), 4) for _ in range(rng.choice([0, 0, 1, 2]))}):
                pts.append([a[0] + t * (b[0] - a[0]), a[1] + t * (b[1] - a[1])])
        if rng.random() < 0.15:
            i = rng.randrange(len(pts))
            a, b = pts[i], pts[(i + 1) % len(pts)]
            pts.insert(i + 1, [a[0] + 2 * (b[0] - a[0]), a[1] + 2 * (b[1] - a[1])])  # beyond b, then back to b
        m = len(pts)
        if dim == 3:
            zc = [rng.randint(-1, 1), rng.randint(-1, 1)]
            pts = [[p[0], p[1], zc[0] * p[0] + zc[1] * p[1]] for p in pts]
        perm = list(range(m))
        rng.shuffle(perm)  # point numbering unrelated to the order along the polygon
        p = [None] * m
        for k_, q in enumerate(pts):
            p[perm[k_]] = q
        edges = [[perm[i], perm[(i + 1) % m]] for i in range(m)]
        return {"kind": kind, "p": _fr2(p), "edges": edges, "tol": frac(F(1e-8)), "dim": dim}
    if kind == "sort_pairs":
        k = rng.randint(1, 8 if not big else 14)
        r = rng.random()
        if r < 0.4:
            lines, circ, check, cls = _scramble(rng, _gen_chain(rng, k, True)), True, rng.random() < 0.8, "cycle"
        elif r < 0.7:
            lines, circ, check, cls = _scramble(rng, _gen_chain(rng, k, False)), False, rng.random() < 0.5, "chain"
        elif r < 0.78:
            # open chain sorted as "circular" without the check: works iff column 0 is an end line pointing inwards
            lines, circ, check, cls = _scramble(rng, _gen_chain(rng, k, False), keep_first=True), True, False, "chain-as-circular"
        else:
            cls = "malformed"
            circ, check = rng.random() < 0.5, rng.random() < 0.5
            m = rng.random()
            if m < 0.3:  # two disjoint cycles / chains
                a = _gen_chain(rng, rng.randint(1, 4), rng.random() < 0.5)
                b = [[x + 40, y + 40] for x, y in _gen_chain(rng, rng.randint(1, 4), rng.random() < 0.5)]
                lines = _scramble(rng, a + b)
            elif m < 0.6:  # branching
                lines = _gen_chain(rng, max(k, 2), rng.random() < 0.5)
                lines.append([lines[rng.randrange(len(lines))][0], 35])
                lines = _scramble(rng, lines)
            elif m < 0.8:  # cycle treated as chain, chain treated as cycle
                closed = rng.random() < 0.5
                lines, circ, check = _scramble(rng, _gen_chain(rng, k, closed)), not closed, True
            else:  # figure eight / repeated lines
                lines = _gen_chain(rng, max(k, 3), True)
                lines = _scramble(rng, lines + [list(rng.choice(lines))])
        if not circ and rng.random() < 0.15:
            circ = None  # Optional[bool]: None takes the non-circular branch
        extra = None
        if rng.random() < 0.3:
            extra = [rng.randint(0, 35) for _ in lines] if rng.random() < 0.5 else [100 + j for j in range(len(lines))]
        return {"kind": kind, "lines": lines, "circular": circ, "check": check, "extra": extra, "cls": cls}
    if kind == "sort_multi":
        nc, k = rng.randint(1, 3), rng.randint(1, 6)
        chains = []
        valid = rng.random() < 0.85
        for _ in range(nc):
            c = _scramble(rng, _gen_chain(rng, k, True))
            if not valid and k >= 2 and rng.random() < 0.7:
                c[rng.randrange(1, k)] = [rng.randint(0, 30), rng.randint(0, 30)]
            chains.append(c)
        return {"kind": kind, "chains": chains, "valid": valid, "i4": rng.random() < 0.3}
    if kind in ("polyhedron", "winding"):
        v, faces, cls = _gen_mesh(rng)
        if kind == "polyhedron" and rng.random() < 0.5:
            faces = [list(t) for t in _mesh_tris(v, faces)]  # all-triangle description (no Delaunay)
        pts = _query_points_3d(rng, v, faces, rng.randint(3, 8 if not big else 14))
        # random start / direction of every face's vertex loop
        ff = []
        for f in faces:
            s = rng.randrange(len(f))
            f = f[s:] + f[:s]
            ff.append(f[::-1] if rng.random() < 0.5 else f)
        rng.shuffle(ff)
        return {"kind": kind, "v": v, "faces": ff, "pts": _fr2(pts), "cls": cls}
    if kind == "sort_plane":
        rp = lambda: [rng.randint(-3, 3) for _ in range(3)]
        while True:
            o, u, v = rp(), rp(), rp()
            if cross3(u, v) != [0, 0, 0]:
                break
        dirs = {}
        for _ in range(rng.randint(3, 8)):
            a, b = rng.randint(-4, 4), rng.randint(-4, 4)
            if (a, b) == (0, 0):
                continue
            g = math.gcd(abs(a), abs(b))
            dirs[(a // g, b // g)] = (a, b)
        ab = list(dirs.values())
        rng.shuffle(ab)
        if len(ab) < 3 or all(cross2(vsub(x, ab[0]), vsub(y, ab[0])) == 0 for x in ab for y in ab):  # the points must span the plane
            ab = [(1, 0), (0, 1), (-1, -1)]
        pts = [[o[c] + a * u[c] + b * v[c] for c in range(3)] for a, b in ab]
        with_normal = rng.random() < 0.5
        return {"kind": kind, "pts": pts, "centre": o, "ab": [list(x) for x in ab], "normal": cross3(u, v) if with_normal else None}
    if kind == "sort_plane_xy":
        den = rng.choice([1, 1, 2])
        o = [F(rng.randint(-6, 6), den), F(rng.randint(-6, 6), den), F(rng.randint(-3, 3))]
        dirs = {}
        for _ in range(rng.randint(3, 9)):
            a, b = rng.randint(-4, 4), rng.randint(-4, 4)
            if rng.random() < 0.3:  # on the axes: the region boundaries of arctan2
                a, b = rng.choice([(0, abs(b) + 1), (0, -abs(b) - 1), (abs(a) + 1, 0), (-abs(a) - 1, 0)])
            if (a, b) == (0, 0):
                continue
            g = math.gcd(abs(a), abs(b))
            dirs[(a // g, b // g)] = (a, b)
        ab = list(dirs.values())
        rng.shuffle(ab)
        if len(ab) < 3 or all(cross2(vsub(x, ab[0]), vsub(y, ab[0])) == 0 for x in ab for y in ab):
            ab = [(1, 0), (0, 1), (-1, -1)]
        pts = [[o[0] + F(a, den), o[1] + F(b, den), o[2]] for a, b in ab]
        normal = rng.choice([None, None, [0, 0, 1], [0, 0, -2]])
        return {"kind": kind, "pts": _fr2(pts), "centre": [frac(x) for x in o], "ab": [list(x) for x in ab], "normal": normal}
    if kind == "sort_line":
        rp = lambda: [rng.randint(-4, 4) for _ in range(3)]
        o, d = rp(), rp()
        r = rng.random()
        if r < 0.25:  # along +z / -z: the rotation of project_line_matrix degenerates to the identity
            d = [0, 0, rng.choice([-2, -1, 1, 3])]
        if d == [0, 0, 0]:
            d = [0, 0, 1]
        n = rng.choice([1, 2, 3, 4, 5, 6])
        ts = rng.sample(range(-6, 7), n)
        den = rng.choice([1, 1, 2])
        pts = [[o[c] + F(t, den) * d[c] for c in range(3)] for t in ts]
        cls = "line"
        m = rng.random()
        if m < 0.07 and n >= 2:
            pts, ts, cls = [list(pts[0]) for _ in range(n)], [ts[0]] * n, "coincident"  # no tangent: AssertionError
        elif m < 0.14 and n >= 3:
            pts[rng.randrange(n)] = [F(x) for x in rp()]
            cls = "one-off"  # (almost surely) not collinear: AssertionError
        return {"kind": kind, "pts": _fr2(pts), "ts": ts, "tol": frac(F(1e-5)), "cls": cls}
    if kind == "tri_edges":
        v, faces, cls = _gen_mesh(rng)
        tris = [list(t) for t in _mesh_tris(v, faces)]
        out = []
        for t in tris:
            s = rng.randrange(3)
            t = t[s:] + t[:s]
            out.append(t[::-1] if rng.random() < 0.5 else t)
        rng.shuffle(out)
        return {"kind": kind, "tris": out, "cls": cls}
    if kind == "hs_interior":
        a, b, c = rng.randint(1, 4), rng.randint(1, 4), rng.randint(1, 4)
        o = [rng.randint(-3, 3) for _ in range(3)]
        if rng.random() < 0.3:  # the origin strictly inside the box
            o = [-F(rng.randint(1, 3), 4) * e for e in (a, b, c)]
        n = [[1, 0, 0], [-1, 0, 0], [0, 1, 0], [0, -1, 0], [0, 0, 1], [0, 0, -1]]
        x0 = [[o[0] + a, o[1], o[2]], o, [o[0], o[1] + b, o[2]], o, [o[0], o[1], o[2] + c], o]
        if rng.random() < 0.5:  # cut a corner off with a skew plane through three edge midpoints
            n.append([b * c, a * c, a * b])
            x0.append([o[0] + a, o[1] + b, o[2] + F(c, 2)])
        flip = rng.random() < 0.4
        if flip:
            n = [[-x for x in r] for r in n]
        s = rng.choice([1, 2, 3])
        n = [[s * x for x in r] for r in n]
        corners = [[o[0] + i * a, o[1] + j * b, o[2] + k * c] for i in (0, 1) for j in (0, 1) for k in (0, 1)]
        return {"kind": kind, "n": _fr2(n), "x0": _fr2(x0), "pts": _fr2(corners), "flip": flip}
    raise AssertionError(kind)


# ----------------------------------------------------------------------------- real code
def _arr(pts, dtype=float):
    """list of points (wire strings) -> (dim, n) array"""
    if len(pts) == 0:
        return np.zeros((0, 0))
    return np.array([[float(F(x)) for x in p] for p in pts], dtype=dtype).T


def _faces_arrays(case):
    v = case["v"]
    return [np.array([v[i] for i in f], dtype=float).T for f in case["faces"]]


def _sorted_tris(case):
    """consistently oriented triangulation of the closed surface (by sort_triangle_edges of the real code)"""
    import porepy as pp
    tris = np.array(_mesh_tris(case["v"], case["faces"]), dtype=int).T
    return pp.sort_points.sort_triangle_edges(tris.copy()).T


def _call(case):
    """the raw result of the real code for the case (exceptions propagate)"""
    import porepy as pp
    from porepy.geometry import geometry_property_checks as gpc
    from porepy.geometry import half_space, sort_points
    kind = case["kind"]
    if kind == "ccw_polyline":
        p3 = _arr(case["p3"])
        if p3.shape[1] == 1:
            p3 = p3[:, 0]
        return gpc.is_ccw_polyline(_arr([case["p1"]])[:, 0], _arr([case["p2"]])[:, 0], p3, tol=float(F(case["tol"])), default=case["default"])
    if kind == "ccw_polygon":
        return gpc.is_ccw_polygon(_arr(case["poly"]))
    if kind == "pip":
        p = _arr(case["pts"])
        if case.get("one_d"):
            p = p[:, 0]
        return gpc.point_in_polygon(_arr(case["poly"]), p, default=case["default"])
    if kind == "cell":
        poly = np.vstack((_arr(case["poly"]), np.zeros(len(case["poly"]))))
        out = []
        for q in case["pts"]:
            out.append(bool(gpc.point_in_cell(poly, np.array([float(F(q[0])), float(F(q[1])), 0.0]), if_make_planar=False)))
        return out
    if kind == "cell_planar":
        o, u, v = case["o"], case["u"], case["v"]
        emb = lambda q: [float(o[c] + F(q[0]) * u[c] + F(q[1]) * v[c]) for c in range(3)]
        poly = np.array([emb(q) for q in case["poly"]]).T
        with warnings.catch_warnings():
            warnings.simplefilter("ignore")
            return [bool(gpc.point_in_cell(poly.copy(), np.array(emb(q)), if_make_planar=True)) for q in case["pts"]]
    if kind == "collinear":
        return gpc.points_are_collinear(_arr(case["pts"]), tol=float(F(case["tol"])))
    if kind == "planar":
        nrm = None if case["normal"] is None else np.array([float(F(x)) for x in case["normal"]])
        with warnings.catch_warnings():
            warnings.simplefilter("ignore")
            return gpc.points_are_planar(_arr(case["pts"]), normal=nrm, tol=float(F(case["tol"])))
    if kind == "half_space":
        def mk(pts, rows):
            a = _arr(pts) if len(pts) else np.zeros((3, 0))
            return a[:rows]
        r = case["rows"]
        return half_space.point_inside_half_space_intersection(mk(case["n"], r[0]), mk(case["x0"], r[1]), mk(case["pts"], r[2]))
    if kind == "hanging":
        p = _arr(case["p"])
        return gpc.polygon_hanging_nodes(p, np.array(case["edges"], dtype=int).T, tol=float(F(case["tol"])))
    if kind == "sort_pairs":
        lines = np.array(case["lines"], dtype=int).T
        if case["extra"] is not None:
            lines = np.vstack((lines, np.array(case["extra"], dtype=int)))
        return sort_points.sort_point_pairs(lines, check_circular=case["check"], is_circular=case["circular"])
    if kind == "sort_multi":
        lines = np.vstack([np.array(c, dtype=np.int32 if case["i4"] else np.int64).T for c in case["chains"]])
        return sort_points.sort_multiple_point_pairs(lines)
    if kind == "polyhedron":
        with warnings.catch_warnings():
            warnings.simplefilter("ignore")
            tp = _arr(case["pts"])
            return gpc.point_in_polyhedron(_faces_arrays(case), tp[:, 0] if case.get("one_d") else tp)
    if kind == "winding":
        t = _sorted_tris(case)
        obj = pp.point_in_polyhedron.PointInPolyhedron(np.array(case["v"], dtype=float), t, 1e-10)
        out = []
        for q in case["pts"]:
            try:
                out.append(float(obj.winding_number(np.array([float(F(x)) for x in q]))))
            except ValueError as e:
                out.append(str(e))
        return out
    if kind == "sort_plane_xy":
        nrm = None if case["normal"] is None else np.array(case["normal"], dtype=float)
        return sort_points.sort_point_plane(_arr(case["pts"]), np.array([float(F(x)) for x in case["centre"]]), nrm)
    if kind == "sort_plane":
        nrm = None if case["normal"] is None else np.array(case["normal"], dtype=float)
        return sort_points.sort_point_plane(np.array(case["pts"], dtype=float).T, np.array(case["centre"], dtype=float), nrm)
    if kind == "sort_line":
        return sort_points.sort_points_on_line(_arr(case["pts"]), tol=float(F(case.get("tol", frac(F(1e-5))))))
    if kind == "tri_edges":
        return sort_points.sort_triangle_edges(np.array(case["tris"], dtype=int).T.copy())
    if kind == "hs_interior":
        with warnings.catch_warnings():
            warnings.simplefilter("ignore")
            return half_space.half_space_interior_point(_arr(case["n"]), _arr(case["x0"]), _arr(case["pts"]))
    raise AssertionError(kind)


def impl_run(case):
    kind = case["kind"]
    if kind in ORACLE_ONLY:
        return "oracle-only"
    try:
        r = _call(case)
    except Exception as e:
        return err_kind(e)
    if kind in ("ccw_polyline", "pip", "half_space"):
        return {"r": [bool(x) for x in r]}
    if kind in ("ccw_polygon", "collinear", "planar"):
        return {"r": bool(r)}
    if kind == "cell":
        return {"r": r}
    if kind in ("hanging", "sort_line", "sort_plane_xy"):
        return {"r": [int(x) for x in np.atleast_1d(r)]}
    if kind == "sort_pairs":
        s, ind = r
        return {"lines": [[int(s[0, j]), int(s[1, j])] for j in range(s.shape[1])], "ind": [int(i) for i in ind]}
    if kind == "sort_multi":
        k = len(case["chains"])
        return {"chains": [[[int(r[2 * c, j]), int(r[2 * c + 1, j])] for j in range(r.shape[1])] for c in range(k)]}
    raise AssertionError(kind)


# ----------------------------------------------------------------------------- model side
NTOL = frac(F(1e-5))  # default tolerance of compute_normal (points_are_planar does not forward its own)


def model_ops(case):
    kind = case["kind"]
    if kind in ORACLE_ONLY:
        return [{"op": "skip"}]
    if kind == "ccw_polyline":
        return [{"op": kind, "p1": case["p1"], "p2": case["p2"], "p3": case["p3"], "tol": case["tol"], "default": case["default"]}]
    if kind == "ccw_polygon":
        return [{"op": kind, "poly": case["poly"]}]
    if kind == "pip":
        return [{"op": "pip", "poly": case["poly"], "pts": case["pts"], "default": case["default"]}]
    if kind == "cell":
        return [{"op": "cell", "poly": case["poly"], "pts": case["pts"]}]
    if kind == "collinear":
        return [{"op": kind, "pts": case["pts"], "tol": case["tol"]}]
    if kind == "planar":
        return [{"op": kind, "pts": case["pts"], "normal": case["normal"], "tol": case["tol"], "ntol": NTOL}]
    if kind == "half_space":
        return [{"op": kind, "n": case["n"], "x0": case["x0"], "pts": case["pts"], "rows": case["rows"]}]
    if kind == "hanging":
        p = [list(q) + ["0"] * (3 - len(q)) for q in case["p"]]
        return [{"op": kind, "p": p, "edges": case["edges"], "tol": case["tol"]}]
    if kind == "sort_pairs":
        return [{"op": kind, "lines": case["lines"], "check": case["check"], "circular": bool(case["circular"])}]
    if kind == "sort_multi":
        return [{"op": kind, "chains": case["chains"]}]
    if kind == "sort_line":
        return [{"op": kind, "pts": case["pts"], "tol": case.get("tol", frac(F(1e-5)))}]
    if kind == "sort_plane_xy":
        return [{"op": kind, "pts": [q[:2] for q in case["pts"]], "centre": case["centre"][:2]}]
    raise AssertionError(kind)


COVER = {"pip_points": 0, "pip_theorem_backed": 0}


def compare(impl, model, case):
    if case["kind"] == "pip" and isinstance(model, dict) and "proved" in model:
        # `proved` = answer PROVED for this input by the theorems (pip_proved_answer_sound), null if no theorem applies
        proved = model["proved"]
        model = {"r": model["r"]}
        if isinstance(impl, dict) and "r" in impl:
            COVER["pip_points"] += len(proved)
            COVER["pip_theorem_backed"] += sum(1 for x in proved if x is not None)
            for k, (x, y) in enumerate(zip(proved, impl["r"])):
                if x is not None and x != y:
                    return f"point {k}: the theorems prove {x}, the implementation returned {y}"
    if case["kind"] in ("collinear", "planar") and isinstance(model, dict) and "proved" in model:
        proved = model["proved"]
        model = {"r": model["r"]}
        if isinstance(impl, dict) and "r" in impl:
            COVER[case["kind"] + "_cases"] = COVER.get(case["kind"] + "_cases", 0) + 1
            if proved is not None:
                COVER[case["kind"] + "_theorem_backed"] = COVER.get(case["kind"] + "_theorem_backed", 0) + 1
                if proved != impl["r"]:
                    return f"the theorems prove {proved}, the implementation returned {impl['r']}"
    d = deep_compare(impl, model)
    if d and case["kind"] == "sort_line" and isinstance(impl, dict) and isinstance(model, dict) and "r" in impl and "r" in model:
        # two points equally far from the centroid: np.argmax on rounded norms may pick the other one as
        # tangent, which reverses the order
        pts = _P(case["pts"])
        n = len(pts)
        c = [sum(q[k] for q in pts) / n for k in range(3)]
        dist = sorted(vdot(vsub(q, c), vsub(q, c)) for q in pts)
        if n >= 2 and dist[-1] == dist[-2] and impl["r"] == model["r"][::-1]:
            return None
    return d


def model_decode(outs, case):
    return outs[0]


# ----------------------------------------------------------------------------- oracle: the property on the real code
def _P(pts):
    return [[F(x) for x in p] for p in pts]


def _valid_sorting(lines, s, ind, circular_check):
    """s is a permutation-with-flips of lines given by ind, consecutive pairs share a node"""
    k = len(lines)
    if sorted(ind) != list(range(k)):
        return f"sort_ind {ind} is not a permutation"
    for i in range(k):
        l = lines[ind[i]]
        if s[i] != l and s[i] != l[::-1]:
            return f"sorted column {i} = {s[i]} is not input column {ind[i]} = {l} (up to a flip)"
    for i in range(k - 1):
        if s[i][1] != s[i + 1][0]:
            return f"sorted columns {i},{i+1} = {s[i]},{s[i+1]} do not share the node"
    if circular_check and s[0][0] != s[-1][1]:
        return "the chain does not close"
    return None


def _graph_class(lines):
    """'cycle' | 'path' | 'other' for the multigraph of the pairs"""
    deg = {}
    for a, b in lines:
        if a == b and len(lines) > 1:
            return "other"
        deg[a] = deg.get(a, 0) + 1
        deg[b] = deg.get(b, 0) + 1
    if any(d > 2 for d in deg.values()):
        return "other"
    # connectivity
    adj = {}
    for a, b in lines:
        adj.setdefault(a, set()).add(b)
        adj.setdefault(b, set()).add(a)
    start = next(iter(adj))
    seen, todo = {start}, [start]
    while todo:
        x = todo.pop()
        for y in adj[x]:
            if y not in seen:
                seen.add(y)
                todo.append(y)
    if len(seen) != len(adj):
        return "other"
    ones = sum(1 for d in deg.values() if d == 1)
    if ones == 0:
        return "cycle"
    return "path" if ones == 2 else "other"


def oracle(case):
    kind = case["kind"]
    try:
        res = _call(case)
        exc = None
    except Exception as e:  # noqa
        res, exc = None, e

    def fail(what, key):
        return {"what": f"{kind}: {what}", "key": f"{kind}:{key}"}

    if kind == "ccw_polyline":
        if exc:
            return fail(f"raised {exc!r}", "raises")
        p1, p2, tol = _P([case["p1"]])[0], _P([case["p2"]])[0], F(case["tol"])
        for q, r in zip(_P(case["p3"]), res):
            d = cross2(vsub(p2, p1), vsub(q, p1))
            want = case["default"] if abs(d) <= tol else d > 0
            if bool(r) != want:
                return fail(f"p1={p1} p2={p2} p3={q} tol={tol}: exact determinant {d}, returned {bool(r)}", "band" if abs(d) <= tol else "orientation")
        return None
    if kind == "ccw_polygon":
        if exc:
            return fail(f"raised {exc!r}", "raises")
        a = area2(_P(case["poly"]))
        if bool(res) != (a > 0):
            return fail(f"signed area*2 = {a}, returned {bool(res)} for {case['poly']}", "sign")
        return None
    if kind == "pip":
        if exc:
            return fail(f"raised {exc!r}", "raises")
        poly = _P(case["poly"])
        for q, r in zip(_P(case["pts"]), res):
            c = classify_pip(poly, q)
            want = case["default"] if c == "bd" else c == "in"
            if bool(r) != want:
                return fail(f"point {[str(x) for x in q]} is '{c}' of polygon {case['poly']} (default={case['default']}), returned {bool(r)}", "boundary" if c == "bd" else ("inside-missed" if c == "in" else "outside-accepted"))
        return None
    if kind in ("cell", "cell_planar"):
        if exc:
            return fail(f"raised {exc!r}", "raises")
        poly = _P(case["poly"])
        for q, r in zip(_P(case["pts"]), res):
            c = classify_pip(poly, q)
            if c != "bd" and bool(r) != (c == "in"):
                return fail(f"point {[str(x) for x in q]} is '{c}' of polygon {case['poly']}, returned {bool(r)}", "wrong")
        return None
    if kind == "collinear":
        if exc:
            return fail(f"raised {exc!r}", "raises")
        pts = _P(case["pts"])
        tol = F(case["tol"])
        exact = all(cross3(vsub(p, pts[0]), vsub(q, pts[0])) == [0, 0, 0] for p in pts for q in pts)
        if bool(res) != exact:
            n = len(pts)
            if exact:
                key = "collinear-rejected"
            else:
                # which defect class: is the only offender the last point / are the first two points equal?
                head_ok = all(cross3(vsub(p, pts[0]), vsub(q, pts[0])) == [0, 0, 0] for p in pts[:-1] for q in pts[:-1])
                if pts[0] == pts[1]:
                    key = "first-two-points-coincide"
                elif head_ok:
                    key = "last-point-ignored"
                else:
                    key = "noncollinear-accepted"
            return fail(f"points {case['pts']} tol={float(tol)}: exactly collinear = {exact}, returned {bool(res)}", key)
        return None
    if kind == "planar":
        pts = _P(case["pts"])
        if case["normal"] is None:
            coll = all(cross3(vsub(p, pts[0]), vsub(q, pts[0])) == [0, 0, 0] for p in pts for q in pts)
            if coll:
                # no plane is singled out: compute_normal documents an error for collinear input
                if exc is not None and not isinstance(exc, RuntimeError):
                    return fail(f"collinear points raised {exc!r}", "raises")
                if exc is None and not bool(res):
                    return fail(f"collinear points {case['pts']} reported non-planar", "collinear-rejected")
                return None
            if exc:
                return fail(f"raised {exc!r} for {case['pts']}", "raises")
            exact = all(vdot(cross3(vsub(p, pts[0]), vsub(q, pts[0])), vsub(r, pts[0])) == 0 for p in pts for q in pts for r in pts)
        else:
            if exc:
                return fail(f"raised {exc!r}", "raises")
            N = [F(x) for x in case["normal"]]
            exact = all(vdot(N, vsub(p, pts[0])) == 0 for p in pts)
        if bool(res) != exact:
            return fail(f"points {case['pts']} normal={case['normal']}: exactly planar = {exact}, returned {bool(res)}", "planar-rejected" if exact else "nonplanar-accepted")
        return None
    if kind == "half_space":
        bad = any(r != 3 for r in case["rows"]) or len(case["n"]) != len(case["x0"])
        if bad:
            return None if isinstance(exc, ValueError) else fail(f"malformed input (rows {case['rows']}, {len(case['n'])} normals, {len(case['x0'])} points) did not raise ValueError: {exc!r}", "malformed-accepted")
        if exc:
            return fail(f"raised {exc!r}", "raises")
        n, x0 = _P(case["n"]), _P(case["x0"])
        for q, r in zip(_P(case["pts"]), res):
            want = all(vdot(vsub(q, b), a) <= 0 for a, b in zip(n, x0))
            if bool(r) != want:
                return fail(f"point {[str(x) for x in q]} n={case['n']} x0={case['x0']}: exact {want}, returned {bool(r)}", "wrong")
        if len(res) != len(case["pts"]):
            return fail("wrong number of answers", "shape")
        return None
    if kind == "hanging":
        if exc:
            return fail(f"raised {exc!r}", "raises")
        p = _P(case["p"])
        p = [q + [F(0)] * (3 - len(q)) for q in p]
        e = case["edges"]
        m = len(e)
        want = []
        for i in range(m):
            a = vsub(p[e[i][1]], p[e[i][0]])
            b = vsub(p[e[(i + 1) % m][1]], p[e[(i + 1) % m][0]])
            if cross3(a, b) == [0, 0, 0] and vdot(a, b) > 0:
                want.append(i)
        got = [int(x) for x in res]
        if got != want:
            return fail(f"p={case['p']} edges={e}: exact hanging nodes {want}, returned {got}", "wrong")
        return None
    if kind == "sort_pairs":
        lines = case["lines"]
        gc = _graph_class(lines)
        circ = bool(case["circular"])
        check = case["check"] and circ
        must_work = (gc == "cycle" and circ) or (gc == "path" and not circ)
        if case["extra"] is not None:
            # the extra data row must not influence the sorting: same outcome as without it
            try:
                res0, exc0 = _call(dict(case, extra=None)), None
            except Exception as e0:  # noqa
                res0, exc0 = None, e0
            same = type(exc) is type(exc0) and (exc is not None or (np.array_equal(res0[0], res[0][:2]) and np.array_equal(res0[1], res[1])))
            if not same:
                d = lambda r, e: type(e).__name__ if e is not None else [list(map(int, r[0][0])), list(map(int, r[0][1]))]
                return fail(f"lines {lines} with the extra row {case['extra']}, is_circular={circ}: outcome {d(res, exc)} differs from the outcome "
                            f"without the extra row {d(res0, exc0)}", "extra-row-changes-result")
        if exc is not None:
            if not isinstance(exc, (AssertionError, IndexError)):
                return fail(f"raised {exc!r} for {lines}", "raises")
            if must_work:
                return fail(f"lines {lines} form a {gc}, is_circular={circ}: raised {type(exc).__name__}", "valid-input-rejected")
            return None
        s, ind = res
        sl = [[int(s[0, j]), int(s[1, j])] for j in range(s.shape[1])]
        msg = _valid_sorting(lines, sl, [int(i) for i in ind], check)
        if msg:
            return fail(f"lines {lines} circular={circ} check={case['check']}: {msg}; returned {sl}", "invalid-chain")
        if case["extra"] is not None:
            if [int(x) for x in s[2]] != [case["extra"][int(i)] for i in ind]:
                return fail(f"lines {lines} extra {case['extra']}: the extra row {list(s[2])} is not permuted by sort_ind {list(ind)}", "extra-row-not-permuted")
        return None
    if kind == "sort_multi":
        if exc:
            return fail(f"raised {exc!r}", "raises")
        if not case["valid"]:
            return None
        for c, chain in enumerate(case["chains"]):
            sl = [[int(res[2 * c, j]), int(res[2 * c + 1, j])] for j in range(res.shape[1])]
            # permutation with flips: match as multisets of unordered pairs
            if sorted(sorted(l) for l in sl) != sorted(sorted(l) for l in chain):
                return fail(f"chain {chain}: output {sl} is not a permutation (with flips) of the input", "not-permutation")
            if sl[0] != chain[0]:
                return fail(f"chain {chain}: first segment changed to {sl[0]}", "first-moved")
            for i in range(len(sl)):
                if sl[i][1] != sl[(i + 1) % len(sl)][0]:
                    return fail(f"chain {chain}: output {sl} is not a closed chain at position {i}", "invalid-chain")
        return None
    if kind == "polyhedron":
        if exc:
            return fail(f"raised {exc!r} for faces {case['faces']} of {case['v']}", "raises")
        v = [[F(x) for x in p] for p in case["v"]]
        tris = [(v[a], v[b], v[c]) for a, b, c in _mesh_tris(case["v"], case["faces"])]
        for q, r in zip(_P(case["pts"]), res):
            c = classify_polyhedron(tris, q)
            if bool(r) != (c == "in"):
                if c == "in":
                    # is the point in the plane of some face (the known failure mode)?
                    inplane = any(vdot(cross3(vsub(b, a), vsub(cc, a)), vsub(q, a)) == 0 for a, b, cc in tris)
                    online = any(cross3(vsub(y, x), vsub(q, x)) == [0, 0, 0] for t3 in tris for x, y in ((t3[0], t3[1]), (t3[1], t3[2]), (t3[2], t3[0])))
                    key = "interior-point-on-line-of-an-edge" if online else ("interior-point-in-plane-of-a-face" if inplane else "inside-missed")
                else:
                    key = "outside-accepted" if c == "out" else "boundary-accepted"
                return fail(f"point {[str(x) for x in q]} is '{c}' of the {case['cls']} with vertices {case['v']} faces {case['faces']}, returned {bool(r)}", key)
        return None
    if kind == "winding":
        if exc:
            return fail(f"raised {exc!r}", "raises")
        v = [[F(x) for x in p] for p in case["v"]]
        tris = [(v[a], v[b], v[c]) for a, b, c in _mesh_tris(case["v"], case["faces"])]
        for q, r in zip(_P(case["pts"]), res):
            c = classify_polyhedron(tris, q)
            inplane = any(vdot(cross3(vsub(b, a), vsub(cc, a)), vsub(q, a)) == 0 for a, b, cc in tris)
            if isinstance(r, str):
                # documented ValueError: the point is ON the surface (vertex, edge, triangle). A point that is merely in the
                # plane of a triangle or on the line of an edge, but off the surface, has a well defined winding number.
                if c != "bd":
                    return fail(f"point {[str(x) for x in q]} is '{c}' (off the surface, in a face plane: {inplane}) of the {case['cls']} {case['v']} "
                                f"but winding_number raised '{r}'", "raises-off-surface")
                continue
            if c == "bd":
                continue
            want = 1.0 if c == "in" else 0.0
            if abs(abs(r) - want) > 1e-9:
                return fail(f"point {[str(x) for x in q]} is '{c}' of the {case['cls']} {case['v']}: winding number {r}", "wrong-winding-number")
        return None
    if kind in ("sort_plane", "sort_plane_xy"):
        if exc:
            return fail(f"raised {exc!r} for {case['pts']} centre {case['centre']}", "raises")
        ab = case["ab"]
        k = len(ab)
        got = [int(i) for i in res]
        if sorted(got) != list(range(k)):
            return fail(f"result {got} is not a permutation", "not-permutation")
        want = sorted(range(k), key=functools.cmp_to_key(lambda i, j: angle_cmp(ab[i], ab[j])))
        def rots(l):
            return [l[i:] + l[:i] for i in range(len(l))]
        if got not in rots(want) and got not in rots(want[::-1]):
            return fail(f"points {case['pts']} centre {case['centre']}: order {got} is not the angular order {want} (up to rotation / reversal)", "wrong-order")
        return None
    if kind == "sort_line":
        pts = _P(case["pts"])
        coll = all(cross3(vsub(p, pts[0]), vsub(q, pts[0])) == [0, 0, 0] for p in pts for q in pts)
        coincident = len(pts) >= 2 and all(p == pts[0] for p in pts)
        if not coll or coincident:
            # not on a line / no direction: the documented assertion
            if exc is None:
                return fail(f"points {case['pts']} ({'coincident' if coincident else 'not collinear'}) were sorted: {list(np.atleast_1d(res))}", "invalid-input-accepted")
            return None if isinstance(exc, AssertionError) else fail(f"raised {exc!r} for {case['pts']}", "raises")
        if exc:
            return fail(f"raised {exc!r} for {case['pts']}", "raises")
        got = [int(i) for i in np.atleast_1d(res)]
        if sorted(got) != list(range(len(pts))):
            return fail(f"result {got} is not a permutation", "not-permutation")
        # exact line parameter of every point w.r.t. the direction to the farthest point
        far = max(pts, key=lambda q: vdot(vsub(q, pts[0]), vsub(q, pts[0])))
        dd = vsub(far, pts[0])
        seq = [vdot(vsub(pts[i], pts[0]), dd) for i in got]
        if seq != sorted(seq) and seq != sorted(seq, reverse=True):
            return fail(f"points {case['pts']}: order {got} is not monotone along the line", "not-monotone")
        return None
    if kind == "tri_edges":
        if exc:
            return fail(f"raised {exc!r} for {case['tris']}", "raises")
        tin = case["tris"]
        out = [[int(res[r, j]) for r in range(3)] for j in range(res.shape[1])]
        if len(out) != len(tin) or any(sorted(a) != sorted(b) for a, b in zip(out, tin)):
            return fail(f"triangles changed: {tin} -> {out}", "triangles-changed")
        seen = set()
        for t in out:
            for a, b in ((t[0], t[1]), (t[1], t[2]), (t[2], t[0])):
                if (a, b) in seen:
                    return fail(f"directed edge {(a, b)} occurs twice in {out} (input {tin})", "edge-twice")
                seen.add((a, b))
        return None
    if kind == "hs_interior":
        n, x0 = _P(case["n"]), _P(case["x0"])
        if exc:
            # is the origin strictly inside all half spaces (after orienting the normals outwards)?
            sg = -1 if case["flip"] else 1
            origin_inside = all(sg * vdot(vsub([F(0)] * 3, b), a) < 0 for a, b in zip(n, x0))
            return fail(f"raised {exc!r} for n={case['n']} x0={case['x0']}", "origin-strictly-inside-rejected" if origin_inside else "raises")
        x = [F(float(t)) for t in res]
        d = [vdot(vsub(x, b), a) for a, b in zip(n, x0)]
        # strictly inside all half spaces (of the flipped normals when the given ones point inwards)
        ok = all(t < 0 for t in d) if not case["flip"] else all(t > 0 for t in d)
        if not ok:
            return fail(f"n={case['n']} x0={case['x0']}: returned point {[float(t) for t in x]} has signed distances*|n| {[float(t) for t in d]}", "not-interior")
        return None
    raise AssertionError(kind)


# ----------------------------------------------------------------------------- bookkeeping
def nontrivial(case):
    k = case["kind"]
    if k in ("pip", "cell"):
        return case["cls"] != "convex" or len(case["pts"]) > 1
    if k == "sort_pairs":
        return len(case["lines"]) >= 3
    if k in ("polyhedron", "winding", "tri_edges"):
        return case["cls"] != "tetra"
    if k == "collinear":
        return len(case["pts"]) >= 3
    if k == "sort_line":
        return len(case["pts"]) >= 3
    return True


def shrink_candidates(case):
    for key in ("pts", "p3"):
        if key in case and isinstance(case[key], list) and len(case[key]) > 1 and case["kind"] not in ("collinear", "planar", "sort_plane", "sort_line", "hs_interior"):
            for i in range(len(case[key])):
                yield dict(case, **{key: [case[key][i]]}, one_d=False)
    if case["kind"] in ("collinear", "planar") and len(case["pts"]) > 3:
        for i in range(len(case["pts"])):
            yield dict(case, pts=case["pts"][:i] + case["pts"][i + 1:])
    if case["kind"] == "sort_pairs" and case.get("extra") is not None:
        yield dict(case, extra=None)


def stats(cases, impl_outs):
    out = {}
    for c in cases:
        k = c["kind"]
        out[k] = out.get(k, 0) + 1
        if "cls" in c:
            kk = f"{k}:{c['cls']}"
            out[kk] = out.get(kk, 0) + 1
    out["dropped_near_tolerance_band"] = DROPPED[0]
    out.update(COVER)
    for c in cases:
        for st in c.get("strata", []):
            out["stratum:" + st] = out.get("stratum:" + st, 0) + 1
    out["impl_errors"] = sum(1 for o in impl_outs if isinstance(o, dict) and "err" in o)
    out["true_answers"] = sum(1 for o in impl_outs if isinstance(o, dict) and (o.get("r") is True or (isinstance(o.get("r"), list) and any(x is True for x in o["r"]))))
    return out
