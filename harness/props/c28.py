"""C28 Segment intersection (segments_2d / segments_3d) agrees with exact rational arithmetic."""
import warnings
from fractions import Fraction

import numpy as np

from harness.common import frac, err_kind, close

PID = "C28"
THEOREMS = [
    "PorepyVerif.C28.tolSmall_default",
    "PorepyVerif.C28.bound_gap",
    "PorepyVerif.C28.seg2d_eq_spec",
    "PorepyVerif.C28.seg3d_eq_spec",
    "PorepyVerif.C28.mem_segInter2_iff",
    "PorepyVerif.C28.mem_segInter3_iff",
    "PorepyVerif.C28.segInter_wf",
    "PorepyVerif.C28.seg_symmetric",
    "PorepyVerif.C28.seg2d_symmetric",
    "PorepyVerif.C28.seg3d_symmetric",
    "PorepyVerif.C28.seg2d_zero_length_errors",
    "PorepyVerif.C28.seg3d_zero_length",
    "PorepyVerif.C28.seg2d_assert_never_fires",
    "PorepyVerif.C28.sqrt_rewrites",
    "PorepyVerif.C28.seg2d_eq_sqrt_form",
    "PorepyVerif.C28.segInter2_segment_order",
    "PorepyVerif.C28.seg2d_segment_order",
    "PorepyVerif.C28.seg3d_order_independent",
    "PorepyVerif.C28.seg3dCode_misses_crossing",
    "PorepyVerif.C28.seg3dCode_doubles_touching_point",
]
LEAN_MODULES = ["PorepyVerif.C28.Props"]
AUDIT = "PorepyVerif/C28/Audit.lean"
DRIVER = "PorepyVerif/C28/Driver.lean"
N = {"quick": 800, "thorough": 20000}
RULE = ("pairs of segments with integer coordinates, dimension 2 or 3, in a box |x| <= B with B from 2 to 1000 "
        "(B*B*8*tol < 1 always; tol mostly the default 1e-8, sometimes 1e-10/1e-6/1e-4 with a smaller box); classes built on purpose: "
        "crossing in the interior (integer or fractional parameters), T-touching, shared endpoint, parallel disjoint, "
        "colinear disjoint / touching in one point / overlapping / contained / identical, nearly parallel with determinant +-1 at "
        "large coordinates, in 3-D also skew lines, coplanar parallel, and non-parallel pairs whose xy- (or first candidate) minor vanishes; "
        "plus uniformly random pairs in a tiny box and zero-length segments (about 5%: first / second / lying on the other segment / both at the same point / both at different points). Every case is evaluated in four argument "
        "orders (as given, segments swapped, endpoints of segment 1 swapped, endpoints of segment 2 swapped), 3-D with int or float arrays. "
        "non-trivial = both segments have positive length; distinct = distinct (dim, tol, coordinates)")
TRUSTED = [
    "modelled, not verified: binary64 rounding inside segments_2d/segments_3d (model is exact over Q; outputs compared with 1e-9 tolerance), "
    "np.allclose / np.argsort (stable for 4 entries) / boolean-mask indexing glue, the behaviour of float division by an exact zero (nan/inf -> AssertionError) for zero-length 2-D segments",
    "seg3d models segments_3d as it is now (both repairs fixes/C28-*.diff are applied in /repo); seg3dCode (the code before the repairs) is kept only for the two decide-witnesses of the repaired defects",
    "the squared-form rewrites of the sqrt comparisons in segments_2d are PROVED (sqrt_rewrites over the reals, seg2d_eq_sqrt_form: the model with Real.sqrt lengths equals the squared-form model for all rational inputs, tol >= 0); what stays outside is the rounding of np.sqrt",
]
EXPLANATION = ("FULL for bounded integer coordinates. seg2d/seg3d are branch-for-branch models over Q with tol a parameter (squared-length form). "
               "seg2d_eq_spec / seg3d_eq_spec: for integer coordinates in [-B,B] with 8*B*B*tol < 1 (B=1000, tol=1e-8: tolSmall_default) the models return exactly the "
               "specification segInter2/segInter3 (same kind, same points; 2-D also same column order); the bound enters only through the gap lemmas summarised by bound_gap. "
               "mem_segInter2_iff / mem_segInter3_iff + segInter_wf: for ALL rational segments of positive length the specification's points are exactly the common points of the two closed segments, "
               "so 'agrees with exact arithmetic' is a theorem about the set intersection, not about a second formula. seg_symmetric (+ seg2d_symmetric, seg3d_symmetric): independence of argument order as sets. "
               "seg2d_eq_sqrt_form: the squared-form model is the sqrt form of the code. seg3d_order_independent: under the bound segments_3d's result is identical (column order included) in every argument order; seg2d_segment_order: 2-D columns are ordered along segment 1 as documented. "
               "segments_3d violated the property in two ways (both repaired in /repo; decide-witnesses seg3dCode_misses_crossing / seg3dCode_doubles_touching_point on the pre-repair model). "
               "Correspondence compares result kind exactly and points within 1e-9 (column order included) in four argument orders, and the Lean specification with an independent python Fraction intersection; "
               "the oracle is that independent exact intersection against the real functions.")
ASSUMPTIONS = ["integer coordinates in [-B, B] and 8*B*B*tol < 1 (bounded-integer reading of 'well-separated degeneracies')",
               "both segments have positive length (zero-length segments are modelled and compared, but are outside the property)"]

ORDERS = [(0, 1, 2, 3), (2, 3, 0, 1), (1, 0, 2, 3), (0, 1, 3, 2)]
TOL_DEFAULT = Fraction(1e-8)


# ----------------------------------------------------------------------------- exact oracle (Fractions)
def _sub(p, q):
    return [x - y for x, y in zip(p, q)]


def _dot(p, q):
    return sum(x * y for x, y in zip(p, q))


def _parallel(u, v):
    n = len(u)
    return all(u[i] * v[j] - u[j] * v[i] == 0 for i in range(n) for j in range(i + 1, n))


def _on_seg(p, s, e):
    """p lies on the closed segment [s, e] (s != e), exactly."""
    u, w = _sub(p, s), _sub(e, s)
    return _parallel(u, w) and 0 <= _dot(u, w) <= _dot(w, w)


def exact_inter(P):
    """Independent exact intersection of [a,b] and [c,d] (integer / Fraction coordinates, any dimension).
    Returns ("none", []), ("point", [p]), ("segment", [p, q]) or ("degenerate", [])."""
    a, b, c, d = [[Fraction(x) for x in p] for p in P]
    n = len(a)
    d1, d2, ds = _sub(b, a), _sub(d, c), _sub(c, a)
    if all(x == 0 for x in d1) or all(x == 0 for x in d2):
        return ("degenerate", [])
    # reduced row echelon form of [d1 | -d2 | ds] : unknowns (s, t) with a + s d1 = c + t d2
    rows = [[d1[i], -d2[i], ds[i]] for i in range(n)]
    rank = 0
    for col in range(2):
        piv = next((r for r in range(rank, n) if rows[r][col] != 0), None)
        if piv is None:
            continue
        rows[rank], rows[piv] = rows[piv], rows[rank]
        pv = rows[rank][col]
        rows[rank] = [x / pv for x in rows[rank]]
        for r in range(n):
            if r != rank and rows[r][col] != 0:
                f = rows[r][col]
                rows[r] = [x - f * y for x, y in zip(rows[r], rows[rank])]
        rank += 1
    inconsistent = any(r[0] == 0 and r[1] == 0 and r[2] != 0 for r in rows)
    if rank == 2:
        if inconsistent:
            return ("none", [])
        s, t = rows[0][2], rows[1][2]
        if 0 <= s <= 1 and 0 <= t <= 1:
            p = [a[i] + s * d1[i] for i in range(n)]
            assert _on_seg(p, a, b) and _on_seg(p, c, d)
            return ("point", [p])
        return ("none", [])
    # parallel lines
    if inconsistent:
        return ("none", [])
    # colinear: the intersection of two colinear segments is spanned by the endpoints that lie on both
    cand = []
    for p in (a, b, c, d):
        if _on_seg(p, a, b) and _on_seg(p, c, d) and p not in cand:
            cand.append(p)
    assert len(cand) <= 2
    return (["none", "point", "segment"][len(cand)], cand)


def _code_minor_vanishes(P):
    """segments_3d as coded: the 2x2 minor in the coordinate pair chosen from the masks (exact zero tests)."""
    a, b, c, d = P
    d1, d2 = _sub(b, a), _sub(d, c)
    ms = [d1[i] != 0 or d2[i] != 0 for i in range(3)]
    if sum(ms) > 1:
        i, j = (0, 1) if ms[0] and ms[1] else ((0, 2) if ms[0] and ms[2] else (1, 2))
    else:
        i, j = 0, 1
    return d1[i] * d2[j] - d1[j] * d2[i] == 0


# ----------------------------------------------------------------------------- generator
def _rpt(rng, dim, B):
    return [rng.randint(-B, B) for _ in range(dim)]


def _rdir(rng, dim, m):
    while True:
        v = [rng.randint(-m, m) for _ in range(dim)]
        if any(v):
            return v


def _inbox(P, B):
    return all(abs(x) <= B for p in P for x in p)


def _add(p, v, k=1):
    return [x + k * y for x, y in zip(p, v)]


def _gen_points(rng, dim, cls, B):
    m = max(1, min(B // 4, 6))
    o = _rpt(rng, dim, max(1, B // 3))
    if cls == "random":
        return [_rpt(rng, dim, min(B, rng.choice([1, 2, 3]))) for _ in range(4)]
    if cls == "cross":  # two segments through a common lattice point, interior or not
        u, v = _rdir(rng, dim, m), _rdir(rng, dim, m)
        i0, i1 = sorted(rng.sample(range(-3, 4), 2))
        j0, j1 = sorted(rng.sample(range(-3, 4), 2))
        return [_add(o, u, i0), _add(o, u, i1), _add(o, v, j0), _add(o, v, j1)]
    if cls == "cross_frac":  # generic crossing, fractional parameters
        if dim == 2:
            return [_rpt(rng, 2, B) for _ in range(4)]
        # 3-D: coplanar by construction: c, d integer combinations of (b-a), w around a
        a = o
        u, w = _rdir(rng, 3, m), _rdir(rng, 3, m)
        b = _add(a, u, rng.choice([1, 2, 3]))
        c = _add(_add(a, u, rng.randint(-2, 3)), w, rng.randint(-3, 3))
        d = _add(_add(a, u, rng.randint(-2, 3)), w, rng.randint(-3, 3))
        return [a, b, c, d]
    if cls == "T":  # an endpoint of segment 2 in the interior (or at the end) of segment 1
        u, v = _rdir(rng, dim, m), _rdir(rng, dim, m)
        k = rng.randint(1, 4)
        t = rng.randint(0, k)
        c = _add(o, u, t)
        return [o, _add(o, u, k), c, _add(c, v, rng.choice([-2, -1, 1, 2]))]
    if cls == "L":  # shared endpoint
        u, v = _rdir(rng, dim, m), _rdir(rng, dim, m)
        P = [o, _add(o, u), o, _add(o, v)]
        if rng.random() < 0.5:
            P[0], P[1] = P[1], P[0]
        if rng.random() < 0.5:
            P[2], P[3] = P[3], P[2]
        return P
    if cls == "parallel":  # parallel, off the line (3-D: coplanar by definition)
        u = _rdir(rng, dim, m)
        w = _rdir(rng, dim, m)
        c = _add(_add(o, w), u, rng.randint(-2, 2))
        k1, k2 = rng.choice([1, 2, 3]), rng.choice([-3, -2, -1, 1, 2, 3])
        return [o, _add(o, u, k1), c, _add(c, u, k2)]
    if cls == "colinear":
        u = _rdir(rng, dim, m)
        kind = rng.choice(["disjoint", "touch", "overlap", "contained", "identical", "any"])
        if kind == "disjoint":
            ks = [0, rng.randint(1, 3), rng.randint(4, 5), rng.randint(6, 8)]
        elif kind == "touch":
            e = rng.randint(1, 3)
            ks = [0, e, e, e + rng.randint(1, 3)]
        elif kind == "overlap":
            ks = [0, rng.randint(2, 4), 1, rng.randint(5, 7)]
        elif kind == "contained":
            ks = [0, rng.randint(3, 6), rng.randint(0, 1), rng.randint(2, 3)]
        elif kind == "identical":
            e = rng.randint(1, 3)
            ks = [0, e, 0, e]
        else:
            ks = [rng.randint(-3, 3) for _ in range(4)]
        if rng.random() < 0.5:
            ks[0], ks[1] = ks[1], ks[0]
        if rng.random() < 0.5:
            ks[2], ks[3] = ks[3], ks[2]
        if rng.random() < 0.5:
            ks = ks[2:] + ks[:2]
        return [_add(o, u, k) for k in ks]
    if cls == "near_parallel":  # determinant +-1 at large coordinates: consecutive Farey-like directions
        n = rng.randint(max(2, B // 4), max(2, B // 4, B // 2 - 1))
        u = [n, n - 1] + ([rng.choice([0, 1, n // 2])] if dim == 3 else [])
        v = [n - 1, n - 2] + ([u[2]] if dim == 3 and rng.random() < 0.5 else ([rng.choice([0, 1])] if dim == 3 else []))
        a = [0] * dim
        s = rng.choice([0, 0, 1])
        c = [0] * dim if s == 0 else ([0, 1] + [0] * (dim - 2))
        P = [a, u, c, _add(c, v)]
        sh = [rng.randint(-max(0, B - n - 1), 0) for _ in range(dim)]
        return [_add(p, sh) for p in P]
    if cls == "skew":  # 3-D only: non-coplanar
        u, v = _rdir(rng, 3, m), _rdir(rng, 3, m)
        n = [u[1] * v[2] - u[2] * v[1], u[2] * v[0] - u[0] * v[2], u[0] * v[1] - u[1] * v[0]]
        w = n if any(n) else _rdir(rng, 3, 1)
        c = _add(_add(o, w, rng.choice([-1, 1])), u, rng.randint(0, 1))
        return [_add(o, u, -1), _add(o, u, 2), _add(c, v, -1), _add(c, v, 2)]
    if cls == "minor0":  # 3-D only: non-parallel directions whose candidate minor vanishes
        k = rng.choice([1, 1, 2, -1])
        pat = rng.choice(["001-110", "110-111", "112-111", "gen"])
        if pat == "001-110":
            u, v = [0, 0, rng.choice([1, 2, -1])], [k, rng.choice([1, -1, 2]), 0]
        elif pat == "110-111":
            p, q = rng.choice([1, 2, -1]), rng.choice([1, -1, 3])
            u, v = [p, q, 0], [p * k, q * k, rng.choice([1, -1, 2])]
        elif pat == "112-111":
            p, q = rng.choice([1, 2, -1]), rng.choice([1, -1, 3])
            u, v = [p, q, rng.choice([1, 2, -2])], [p * k, q * k, rng.choice([3, -1, 5])]
        else:
            p = rng.choice([1, 2, -1])
            u, v = [p, 0, rng.choice([0, 1])], [p * k, 0, rng.choice([2, -1, 3])]
            rot = rng.randint(0, 2)
            u, v = u[rot:] + u[:rot], v[rot:] + v[:rot]
        if rng.random() < 0.5:
            u, v = v, u
        off = _rdir(rng, 3, 1) if rng.random() < 0.25 else [0, 0, 0]  # sometimes not crossing
        i0, i1 = sorted(rng.sample(range(-2, 3), 2))
        j0, j1 = sorted(rng.sample(range(-2, 3), 2))
        o2 = _add(o, off)
        return [_add(o, u, i0), _add(o, u, i1), _add(o2, v, j0), _add(o2, v, j1)]
    if cls == "degenerate":  # zero-length segments, every stratum on purpose
        kind = rng.choice(["first", "second", "first_on_other", "second_on_other", "both_same", "both_different", "any"])
        u = _rdir(rng, dim, m)
        if kind == "first":
            P = [o, list(o), _rpt(rng, dim, min(B, 3)), _rpt(rng, dim, min(B, 3))]
        elif kind == "second":
            P = [_rpt(rng, dim, min(B, 3)), _rpt(rng, dim, min(B, 3)), o, list(o)]
        elif kind == "first_on_other":  # the point lies on the other segment (interior or end point)
            k = rng.randint(0, 2)
            pt = _add(o, u, k)
            P = [pt, list(pt), o, _add(o, u, 2)]
        elif kind == "second_on_other":
            k = rng.randint(0, 2)
            pt = _add(o, u, k)
            P = [o, _add(o, u, 2), pt, list(pt)]
        elif kind == "both_same":
            P = [o, list(o), list(o), list(o)]
        elif kind == "both_different":
            pt = _add(o, u)
            P = [o, list(o), pt, list(pt)]
        else:
            P = _gen_points(rng, dim, rng.choice(["random", "T", "colinear"]), B)
            w = rng.choice([0, 2])
            P[w + 1] = list(P[w])
        return P
    raise ValueError(cls)


CLASSES2 = ["random"] * 3 + ["cross"] * 2 + ["cross_frac"] * 2 + ["T"] * 2 + ["L", "parallel", "parallel"] + ["colinear"] * 5 + ["near_parallel"] * 2 + ["degenerate"]
CLASSES3 = CLASSES2 + ["skew"] * 2 + ["minor0"] * 4 + ["parallel"]


def gen_case(rng, tier):
    dim = rng.choice([2, 3])
    tolc = rng.choice(["default"] * 5 + ["1e-8", "1e-10", "1e-6", "1e-4"])
    tol = {"default": 1e-8, "1e-8": 1e-8, "1e-10": 1e-10, "1e-6": 1e-6, "1e-4": 1e-4}[tolc]
    bmax = {1e-8: 1000, 1e-10: 1000, 1e-6: 300, 1e-4: 30}[tol]
    B = min(bmax, rng.choice([2, 3, 5, 8, 20, 100, 1000] if tier == "quick" else [2, 3, 4, 5, 8, 12, 20, 50, 100, 400, 1000]))
    for _ in range(200):
        cls = rng.choice(CLASSES2 if dim == 2 else CLASSES3)
        P = _gen_points(rng, dim, cls, B)
        if _inbox(P, B):
            break
    else:
        cls, P = "random", [_rpt(rng, dim, 1) for _ in range(4)]
    # random relabelling so that constructed classes appear in every argument position
    if rng.random() < 0.5:
        P = P[2:] + P[:2]
    if rng.random() < 0.3:
        P[0], P[1] = P[1], P[0]
    return {"dim": dim, "tol": frac(Fraction(tol)), "tol_default": tolc == "default", "B": B, "cls": cls,
            "dtype": rng.choice(["float", "float", "int"]), "p": P}


# ----------------------------------------------------------------------------- real code
def _call(case, P):
    from porepy.geometry.intersections import segments_2d, segments_3d
    f = segments_2d if case["dim"] == 2 else segments_3d
    dt = float if case.get("dtype", "float") == "float" else int
    arrs = [np.array(p, dtype=dt) for p in P]
    kw = {} if case.get("tol_default") else {"tol": float(Fraction(case["tol"]))}
    with warnings.catch_warnings():
        warnings.simplefilter("ignore")
        try:
            r = f(*arrs, **kw)
        except Exception as e:
            return err_kind(e)
    if r is None:
        return {"kind": "none", "pts": []}
    r = np.asarray(r)
    if r.ndim != 2 or r.shape[0] != case["dim"]:
        return {"kind": f"shape{r.shape}", "pts": []}
    k = r.shape[1]
    return {"kind": {1: "point", 2: "segment"}.get(k, f"cols{k}"), "pts": [[frac(x) for x in r[:, j]] for j in range(k)]}


def _perm(P, o):
    return [P[i] for i in o]


def impl_run(case):
    ex = exact_inter(case["p"])
    return {"runs": [_call(case, _perm(case["p"], o)) for o in ORDERS],
            "spec": {"kind": ex[0], "pts": [[frac(x) for x in p] for p in ex[1]]}}


# ----------------------------------------------------------------------------- model
def model_ops(case):
    dim = case["dim"]
    ops = []
    for o in ORDERS:
        ops.append({"op": f"seg{dim}d", "tol": case["tol"], "p": [[frac(x) for x in p] for p in _perm(case["p"], o)]})
    ops.append({"op": f"spec{dim}", "p": [[frac(x) for x in p] for p in case["p"]]})
    return ops


def model_decode(outs, case):
    return {"runs": outs[:len(ORDERS)], "spec": outs[len(ORDERS)]}


def _pt_close(p, q, tol=1e-9):
    return len(p) == len(q) and all(close(x, y, tol, tol) for x, y in zip(p, q))


def _same_res(r1, r2, ordered):
    """None or a description; kinds exactly, points within 1e-9 (unordered for segments unless `ordered`)."""
    if "err" in r1 or "err" in r2:
        return None if r1 == r2 else f"{r1} vs {r2}"
    if r1["kind"] != r2["kind"]:
        return f"kind {r1['kind']} vs {r2['kind']}"
    a, b = r1["pts"], r2["pts"]
    if len(a) != len(b):
        return f"{len(a)} vs {len(b)} points"
    if all(_pt_close(x, y) for x, y in zip(a, b)):
        return None
    if not ordered and len(a) == 2 and _pt_close(a[0], b[1]) and _pt_close(a[1], b[0]):
        return None
    return f"points {a} vs {b}"


def compare(impl, model, case):
    if "harness_exc" in impl:
        return f"impl_run crashed: {impl['harness_exc']}"
    # the Lean specification against the independent python exact intersection (exact rationals, unordered)
    if impl["spec"]["kind"] != "degenerate":
        d = _same_res(impl["spec"], model["spec"], ordered=False)
        if d:
            return f"Lean spec differs from the exact python intersection: {d}"
    for k, o in enumerate(ORDERS):
        # column order is part of what is compared: 2-D promises 'first point closest to start_1', 3-D is argsort order
        d = _same_res(impl["runs"][k], model["runs"][k], ordered=True)
        if d:
            return f"order {o}: real code vs model: {d}"
    return None


# ----------------------------------------------------------------------------- oracle
def oracle(case):
    """The property on the real code: each argument order gives the exact intersection (kind exactly,
    points as a set within 1e-9)."""
    dim = case["dim"]
    for o in ORDERS:
        P = _perm(case["p"], o)
        ex = exact_inter(P)
        if ex[0] == "degenerate":
            return None  # zero-length segment: outside the property (still compared with the model)
        want = {"kind": ex[0], "pts": [[frac(x) for x in p] for p in ex[1]]}
        got = _call(case, P)
        if "err" in got:
            return {"what": f"segments_{dim}d{tuple(map(tuple, P))} raised {got['err']}; exact intersection is {ex[0]}",
                    "key": f"seg{dim}d-raises-{got['err']}"}
        d = _same_res(want, got, ordered=False)
        if d is None:
            continue
        desc = f"segments_{dim}d{tuple(map(tuple, P))} tol={float(Fraction(case['tol']))} gives {got['kind']} {[[float(Fraction(x)) for x in p] for p in got['pts']]}; exact: {ex[0]} {[[str(x) for x in p] for p in ex[1]]}"
        if dim == 3 and ex[0] == "point" and got["kind"] == "none" and _code_minor_vanishes(P):
            a, b, c, dd = P
            if not _parallel(_sub(b, a), _sub(dd, c)):
                return {"what": "segments_3d misses the crossing point of non-parallel segments when the 2x2 minor in the coordinate pair chosen from the masks vanishes, e.g. " + desc,
                        "key": "seg3d-crossing-missed-vanishing-minor"}
        if dim == 3 and ex[0] == "point" and got["kind"] == "segment" and all(_pt_close(p, want["pts"][0]) for p in got["pts"]):
            a, b, c, dd = P
            if _parallel(_sub(b, a), _sub(dd, c)):
                return {"what": "segments_3d returns the single shared point of colinear end-to-end segments twice (two columns = 'segment'), e.g. " + desc,
                        "key": "seg3d-colinear-touch-point-returned-twice"}
        if want["kind"] != got["kind"]:
            return {"what": desc, "key": f"seg{dim}d-{ex[0]}-reported-as-{got['kind']}"}
        return {"what": desc, "key": f"seg{dim}d-{ex[0]}-wrong-points"}
    return None


def nontrivial(case):
    return exact_inter(case["p"])[0] != "degenerate"


def signature(case):
    return (case["dim"], case["tol"], tuple(map(tuple, case["p"])))


def shrink_candidates(case):
    P = case["p"]
    # translate so that the first point is the origin, then halve / decrement coordinates
    o = P[0]
    if any(o):
        yield dict(case, p=[_sub(p, o) for p in P])
    for i in range(4):
        for j in range(case["dim"]):
            x = P[i][j]
            for y in {0, x // 2, x - 1 if x > 0 else x + 1} - {x}:
                if abs(y) < abs(x) or (y == 0 and x != 0):
                    Q = [list(p) for p in P]
                    Q[i][j] = y
                    yield dict(case, p=Q)
    if case.get("dtype") != "float":
        yield dict(case, dtype="float")


def stats(cases, impl_outs):
    out = {"dim2": 0, "dim3": 0, "zero_length": {}, "classes": {}, "exact_kind": {}, "impl_kind_first_order": {}, "tol": {}, "int_dtype": 0, "box": {}}
    for c, io in zip(cases, impl_outs):
        out["dim2" if c["dim"] == 2 else "dim3"] += 1
        out["classes"][c.get("cls", "?")] = out["classes"].get(c.get("cls", "?"), 0) + 1
        a, b, cc, d = c["p"]
        ex = exact_inter(c["p"])[0]
        if ex == "degenerate":
            z1, z2 = a == b, cc == d
            zk = ("both-same-point" if a == cc else "both-different") if z1 and z2 else (
                ("first" if z1 else "second") + ("-on-other-segment" if (_on_seg([Fraction(x) for x in (a if z1 else cc)], *([[Fraction(x) for x in q] for q in ((cc, d) if z1 else (a, b))]))) else "-off"))
            out["zero_length"][f"{c['dim']}d-{zk}"] = out["zero_length"].get(f"{c['dim']}d-{zk}", 0) + 1
        if ex != "degenerate":
            par = _parallel(_sub(b, a), _sub(d, cc))
            ex = ("parallel-" if par else "nonparallel-") + ex
        out["exact_kind"][f"{c['dim']}d-{ex}"] = out["exact_kind"].get(f"{c['dim']}d-{ex}", 0) + 1
        if isinstance(io, dict) and "runs" in io:
            k = io["runs"][0].get("kind", io["runs"][0].get("err"))
            out["impl_kind_first_order"][k] = out["impl_kind_first_order"].get(k, 0) + 1
        t = "default" if c.get("tol_default") else str(float(Fraction(c["tol"])))
        out["tol"][t] = out["tol"].get(t, 0) + 1
        out["int_dtype"] += c.get("dtype") == "int"
        out["box"][str(c.get("B"))] = out["box"].get(str(c.get("B")), 0) + 1
    return out
