"""C09 Adaptive time stepping hits every scheduled time (TimeManager + the time loop that drives it)."""
import json
import math
import sys
import types
import warnings
from fractions import Fraction as F

from harness.common import frac, close

PID = "C09"
THEOREMS = [
    "PorepyVerif.C09.accepted_strictly_increasing",
    "PorepyVerif.C09.never_exceeds_final",
    "PorepyVerif.C09.hits_every_scheduled",
    "PorepyVerif.C09.idx_points_to_next",
    "PorepyVerif.C09.dt_within_bounds_or_schedule",
    "PorepyVerif.C09.converged_step_is_accepted",
    "PorepyVerif.C09.failure_rewinds_or_raises",
    "PorepyVerif.C09.recomputation_is_bounded",
    "PorepyVerif.C09.only_documented_errors",
    "PorepyVerif.C09.time_index_counts_accepted",
    "PorepyVerif.C09.all_converged_finishes",
    "PorepyVerif.C09.all_converged_hits_every_scheduled",
    "PorepyVerif.C09.constant_dt_times",
    "PorepyVerif.C09.constant_dt_failure_raises",
    "PorepyVerif.C09.constant_dt_hits",
    "PorepyVerif.C09.constant_dt_finishes",
    "PorepyVerif.C09.constant_dt_run_hits_every_scheduled",
    "PorepyVerif.C09.constant_dt_hits_of_matches",
    "PorepyVerif.C09.run_terminates",
    "PorepyVerif.C09.accepted_steps_bounded",
    "PorepyVerif.C09.hits_exactly_with_zero_tolerance",
    "PorepyVerif.C09.restart_keeps_property",
]
LEAN_MODULES = ["PorepyVerif.C09.Props"]
AUDIT = "PorepyVerif/C09/Audit.lean"
DRIVER = "PorepyVerif/C09/Driver.lean"
N = {"quick": 500, "thorough": 25000}
RULE = ("streams: A (55%) time loop on dyadic parameters (schedule of 2-6 points with arbitrary dyadic start, gaps 1/16..4, dt bounds/"
        "factors with small power-of-two denominators, tolerances default/zero/dyadic/large/negative/rtol>1, outcome tapes of 5-40 entries with failure "
        "rates 0-0.8 and iteration counts around the optimal-range end points; dt_init fits the first interval in 90%, divides the gaps "
        "often so that scheduled times are hit without correction); B (20%) the same with decimal parameters (class T, knife edges dropped "
        "and counted); C (10%) constant dt (compatible and incompatible schedules, failures); D (8%) constructor arguments violating one "
        "validation each, dt_min_max=None; E (7%) raw call sequences (compute twice, iterations=None, recompute after the end, ...). "
        "non-trivial = valid adaptive loop with at least 3 outcomes; distinct = distinct cases")
TRUSTED = [
    "modelled, not verified: binary64 rounding of time += dt, dt * factor, schedule_time - time, time -= dt (the model computes over exact rationals; "
    "stream A is generated so that every one of these operations is exact, and exactness is re-checked per case)",
    "modelled, not verified: np.isclose, np.arange, np.searchsorted inside the constructor's constant-dt compatibility check (compared only)",
    "the nonlinear solver is replaced by an outcome tape; SolutionStrategy.after_nonlinear_convergence/after_nonlinear_failure and "
    "run_time_dependent_model are executed for real on a stub model (no equation system)",
]
EXPLANATION = ("FULL (exact arithmetic): model = TimeManager state machine + time loop; theorems quantify over every Valid parameter set whose "
               "initial step fits the first scheduled interval, non-negative tolerances, positive minimal step (or positive factors) and EVERY outcome tape: "
               "strict increase, never past the final time, every scheduled time hit when the loop ends (and all earlier ones at any time: invariant "
               "idx_points_to_next), step bounds, rewind-or-raise, recomputation bounded, no IndexError, liveness for converging tapes when dt_min > 0. "
               "Termination: run_terminates (any tape, failures included, ends after (recomp_max+1)*((final-t0)/dt_min+len-1) outcomes), accepted_steps_bounded. "
               "Constant-dt mode (outside the statement, now FULL): constant_dt_hits — constructor-valid parameters with SmallTol (2*(atol+rtol*|v|) < dt at all simulated "
               "times and the final time, decidable) hit every scheduled time (pigeonhole proof from the constructor's match count), with a decide counterexample "
               "showing SmallTol is needed; arithmetic times, finishing, failure raises. "
               "Correspondence replays every call the real loop makes on the real TimeManager (final_time_reached, increase_time, increase_time_index, "
               "compute_time_step) on the model and compares time, dt, time_index, _recomp_num, _scheduled_idx, _is_about_to_hit_schedule, returned "
               "value / raised error kind after every call, exactly on dyadic inputs; plus the model's own loop against the real loop's summary.")
ASSUMPTIONS = [
    "theorems are over exact rational arithmetic; binary64 rounding is bridged by the correspondence check only",
    "tolerances satisfy rtol <= 1 or atol >= 0 (any non-negative pair does); dt_min > 0 or the under-relaxation and recomputation factors are positive "
    "(the constructor checks neither)",
    "scheduled times count as hit when an accepted time is np.isclose to them with the manager's own rtol/atol (that is also what ends the loop)",
]

KNIFE_THR = 1e-12
_COUNTERS = {"dropped_knife_edge": 0, "switched_to_tolerance": 0, "compared_exact": 0, "compared_tol": 0}


# ----------------------------------------------------------------------------- helpers
def _fl(s):
    return float(F(s))


def _is_b64(q: F) -> bool:
    try:
        return F(float(q)) == q
    except OverflowError:
        return False


def _kwargs(p):
    sched = [_fl(x) for x in p["schedule"]]
    if p.get("int_schedule") and all(x.is_integer() for x in sched):
        sched = [int(x) for x in sched]  # np.array(schedule) becomes an integer array
    return dict(
        schedule=sched,
        dt_init=_fl(p["dt_init"]),
        constant_dt=p["constant_dt"],
        dt_min_max=None if p["dt_min_max"] is None else (_fl(p["dt_min_max"][0]), _fl(p["dt_min_max"][1])),
        iter_max=p["iter_max"],
        iter_optimal_range=(p["iter_low"], p["iter_upp"]),
        iter_relax_factors=(_fl(p["under"]), _fl(p["over"])),
        recomp_factor=_fl(p["recomp_factor"]),
        recomp_max=p["recomp_max"],
        rtol=_fl(p["rtol"]),
        atol=_fl(p["atol"]),
    )


_REC = {}


def _rec_class():
    """TimeManager subclass that logs every top-level call with the state after it."""
    if "cls" in _REC:
        return _REC["cls"]
    import porepy as pp

    class RecTM(pp.TimeManager):
        def __init__(self, *a, **k):
            self._log = []
            self._depth = 0
            super().__init__(*a, **k)

        def snap(self):
            return {"time": frac(float(self.time)), "dt": frac(float(self.dt)), "ti": int(self.time_index), "recomp": int(self._recomp_num),
                    "idx": int(self._scheduled_idx), "about": bool(self._is_about_to_hit_schedule)}

        def final_time_reached(self):
            self._depth += 1
            try:
                r = bool(super().final_time_reached())
            finally:
                self._depth -= 1
            if self._depth == 0:
                self._log.append(({"op": "final"}, {"final": r}))
            return r

        def increase_time(self):
            super().increase_time()
            self._log.append(({"op": "inc_time"}, self.snap()))

        def increase_time_index(self):
            super().increase_time_index()
            self._log.append(({"op": "inc_index"}, self.snap()))

        def compute_time_step(self, iterations=None, recompute_solution=False):
            op = {"op": "compute", "iterations": None if iterations is None else int(iterations), "recompute": bool(recompute_solution)}
            self._depth += 1
            try:
                r = super().compute_time_step(iterations=iterations, recompute_solution=recompute_solution)
            except Exception as e:
                self._depth -= 1
                self._log.append((op, dict({"err": type(e).__name__}, **self.snap())))
                raise
            self._depth -= 1
            self._log.append((op, dict({"ret": None if r is None else frac(float(r))}, **self.snap())))
            return r

    _REC["cls"] = RecTM
    return RecTM


class _TapeEnd(BaseException):
    pass


def _real_loop(tm, outcomes):
    """Run the REAL time loop (run_time_dependent_model + SolutionStrategy hooks) on a stub model whose
    nonlinear solver is the outcome tape. Returns (status, accepted times, per-step records)."""
    import porepy as pp
    from porepy.models.solution_strategy import SolutionStrategy

    tape = list(outcomes)
    steps = []
    accepted = [float(tm.time)]

    class _ES:
        def get_variable_values(self, *a, **k):
            return None

        def set_variable_values(self, *a, **k):
            return None

    class _Model(SolutionStrategy):
        """Real SolutionStrategy (so that every helper the real hooks call exists) without its constructor:
        an empty mixed-dimensional grid (no subdomains, no boundary grids), a no-op equation system, and
        the storage / export steps switched off. Only the time manager is of interest here."""

        def __init__(self):  # deliberately not calling SolutionStrategy.__init__ (needs a full model)
            self.time_manager = tm
            self.mdg = pp.MixedDimensionalGrid()
            self.equation_system = _ES()
            self.nonlinear_solver_statistics = types.SimpleNamespace(num_iteration=0)
            self.convergence_status = False
            self.params = {}

        def update_solution(self, solution):
            pass

        def save_data_time_step(self):
            pass

        def _is_nonlinear_problem(self):
            return True

        def after_simulation(self):
            pass

    where = {"hook": None}

    class _Solver:
        def __init__(self, params):
            pass

        def solve(self, model):
            if not tape:
                # the step just taken is undone so that the summary describes the last completed step
                raise _TapeEnd()
            o = tape.pop(0)
            rec = {"t_prev": accepted[-1], "t": float(tm.time), "dt": float(tm.dt), "outcome": o, "recomp_before": int(tm._recomp_num)}
            steps.append(rec)
            if o >= 0:
                model.nonlinear_solver_statistics.num_iteration = o
                where["hook"] = "conv"
                accepted.append(float(tm.time))
                SolutionStrategy.after_nonlinear_convergence(model)
                rec["t_after"] = float(tm.time)
                return True
            where["hook"] = "fail"
            SolutionStrategy.after_nonlinear_failure(model)
            rec["t_after"] = float(tm.time)
            return False

    model = _Model()
    status = "finished"
    with warnings.catch_warnings():
        warnings.simplefilter("ignore")
        try:
            pp.run_time_dependent_model(model, {"prepare_simulation": False, "nonlinear_solver": _Solver, "progressbars": False})
        except _TapeEnd:
            status = "running"
        except Exception as e:
            _stub_guard(e)
            status = ("raised:" if where["hook"] == "fail" else "crashed:") + type(e).__name__
            if steps:
                steps[-1]["exc"] = type(e).__name__
    return status, accepted, steps


def _stub_guard(e):
    """An exception that escapes the real loop counts against the code under test only if the time manager
    is involved (a frame of time_step_control.py in the traceback) or it is one of the ValueErrors the
    hooks raise themselves. Anything else that comes from the stand-in model (missing attribute of
    `_Model` / `_ES`, frame of this file innermost) means the harness stub no longer fits the real hooks:
    that is a harness problem (exit 2, no verdict), never a violation."""
    import traceback

    frames = traceback.extract_tb(e.__traceback__)
    files = [f.filename for f in frames]
    if any(f.endswith("time_step_control.py") for f in files):
        return
    msg = str(e)
    from_stub = ("_Model" in msg or "_ES" in msg or "SimpleNamespace" in msg or (files and files[-1].endswith("props/c09.py")))
    if isinstance(e, (AttributeError, TypeError, NotImplementedError, KeyError)) and from_stub:
        print("harness error in C09: the stand-in model no longer fits the real SolutionStrategy hooks:\n"
              + "".join(traceback.format_exception(type(e), e, e.__traceback__))[-1500:], file=sys.stderr)
        print("harness error in C09 (exit 2, no verdict)")
        raise SystemExit(2)


def _construct(p):
    with warnings.catch_warnings():
        warnings.simplefilter("ignore")
        return _rec_class()(**_kwargs(p))


_CACHE = {}


def _impl(case):
    key = json.dumps(case, sort_keys=True)
    if key in _CACHE:
        return _CACHE[key]
    p = case["p"]
    out = {"init": None, "trace": [], "loop": None}
    try:
        tm = _construct(p)
    except Exception as e:
        out["init"] = {"err": type(e).__name__}
        _CACHE.clear()
        _CACHE[key] = out
        return out
    out["init"] = dict({"dt_min": frac(float(tm.dt_min_max[0])), "dt_max": frac(float(tm.dt_min_max[1]))}, **tm.snap())
    if case["kind"] == "restart":
        r = _restart(p, case)
        if r is None:
            out["trace"] = []
        else:
            tm2, t, dt, status, accepted = r
            out["trace"] = [({"op": "restore", "time": frac(t), "dt": frac(dt)}, tm2._restored)] + list(tm2._log)
            trace = out["trace"]
            if status == "running":
                while trace and trace[-1][0]["op"] in ("inc_time", "inc_index"):
                    trace.pop()
    elif case["kind"] == "loop":
        status, accepted, _ = _real_loop(tm, case["outcomes"])
        trace = list(tm._log)
        if status == "running":
            # the real loop had already called increase_time / increase_time_index for a step whose outcome is
            # not on the tape; cut these two calls
            while trace and trace[-1][0]["op"] in ("inc_time", "inc_index"):
                trace.pop()
            last = trace[-1][1] if trace and "time" in trace[-1][1] else None
            snap = None
            for op, o in reversed(trace):
                if "time" in o:
                    snap = {k: o[k] for k in ("time", "dt", "ti", "recomp", "idx", "about")}
                    break
            if snap is None:
                snap = {k: out["init"][k] for k in ("time", "dt", "ti", "recomp", "idx", "about")}
        else:
            snap = tm.snap()
        out["trace"] = trace
        out["loop"] = dict({"status": status, "accepted": [frac(a) for a in accepted]}, **snap)
    else:
        with warnings.catch_warnings():
            warnings.simplefilter("ignore")
            for c in case["calls"]:
                try:
                    if c["op"] == "final":
                        tm.final_time_reached()
                    elif c["op"] == "inc_time":
                        tm.increase_time()
                    elif c["op"] == "inc_index":
                        tm.increase_time_index()
                    else:
                        tm.compute_time_step(iterations=c["iterations"], recompute_solution=c["recompute"])
                except Exception:
                    pass  # logged by the recorder
        out["trace"] = list(tm._log)
    _CACHE.clear()
    _CACHE[key] = out
    return out


def _restart(p, case):
    """First manager runs `outcomes` while the loop is running, its state is exported with the real
    write_time_information; a FRESH manager loads it (load_time_information +
    set_time_and_dt_from_exported_steps, as load_data_from_vtu/pvd do) and runs `outcomes2`."""
    import tempfile, pathlib
    tm1 = _construct(p)
    status1, acc1, _ = _real_loop(tm1, case["outcomes"])
    if status1 != "running":
        return None
    # undo the increase_time of the step whose outcome is not on the tape (the loop was cut there)
    tm1.time = acc1[-1]
    path = pathlib.Path(tempfile.mkdtemp(prefix="c09_")) / "times.json"
    tm1.write_time_information(path)
    tm2 = _construct(p)
    tm2.load_time_information(path)
    tm2.set_time_and_dt_from_exported_steps(-1)
    tm2._restored = tm2.snap()
    tm2._log.clear()
    t, dt = float(tm2.time), float(tm2.dt)
    status, accepted, steps = _real_loop(tm2, case["outcomes2"])
    tm2._steps = steps
    tm2._pending1 = int(tm1._scheduled_idx) - (1 if tm1._is_about_to_hit_schedule else 0)
    return tm2, t, dt, status, accepted


def impl_run(case):
    r = _impl(case)
    return {"init": r["init"], "trace": [o for _, o in r["trace"]], "loop": r["loop"]}


def _init_op(p):
    return {"op": "init", "schedule": p["schedule"], "dt_init": p["dt_init"], "constant_dt": p["constant_dt"], "dt_min_max": p["dt_min_max"],
            "iter_max": p["iter_max"], "iter_low": p["iter_low"], "iter_upp": p["iter_upp"], "under": p["under"], "over": p["over"],
            "recomp_factor": p["recomp_factor"], "recomp_max": p["recomp_max"], "rtol": p["rtol"], "atol": p["atol"]}


def model_ops(case):
    r = _impl(case)
    ops = [_init_op(case["p"])]
    if r["init"].get("err"):
        return ops
    ops += [op for op, _ in r["trace"]]
    if case["kind"] == "loop":
        ops += [_init_op(case["p"]), {"op": "loop", "outcomes": case["outcomes"]}]
    return ops


def _expected_cursor(p, t):
    s = [_fl(x) for x in p["schedule"]]
    k = 1
    while k < len(s) and (t >= s[k] or _isclose(t, s[k], _fl(p["rtol"]), _fl(p["atol"]))):
        k += 1
    return k


def _oracle_restart(case):
    """Restart from exported (time, dt): the schedule cursor must point to the next scheduled time not yet
    reached, and the continued loop must keep the property (strict increase, final time, hits)."""
    p = case["p"]
    try:
        r = _restart(p, case)
    except ValueError:
        return None  # the constructor rejects the parameters
    if r is None:
        return None
    tm2, t, dt, status, accepted = r
    sched = [_fl(x) for x in p["schedule"]]
    rtol, atol = _fl(p["rtol"]), _fl(p["atol"])
    short = f"restart at t={t} dt={dt} schedule={sched} outcomes2={case['outcomes2'][:10]}"
    if tm2._restored["idx"] != _expected_cursor(p, t):
        return {"what": f"after set_time_and_dt_from_exported_steps the schedule cursor is {tm2._restored['idx']}, the next scheduled time not yet reached has index {_expected_cursor(p, t)} ({short})", "key": "restart-stale-schedule-cursor"}
    if not _valid_params(p):
        return None  # the cursor must be right for every constructible manager; the rest needs the premise
    if _isclose(t, sched[min(tm2._pending1, len(sched) - 1)], rtol, atol):
        return None  # outside the theorem's hypothesis (clock already within tolerance of the pending time)
    if status.startswith("crashed") or (status.startswith("raised") and status != "raised:ValueError"):
        return {"what": f"restarted loop ended with {status} ({short})", "key": "restart-unexpected-exception"}
    for a, b in zip(accepted, accepted[1:]):
        if not b > a:
            return {"what": f"restarted loop: accepted times not strictly increasing: {a} then {b} ({short})", "key": "restart-not-increasing"}
    if any(a > sched[-1] + 1e-9 * max(1.0, sched[-1]) for a in accepted):
        return {"what": f"restarted loop exceeds the final time ({short})", "key": "restart-exceeds-final"}
    if any(not st["dt"] > 0 for st in tm2._steps):
        return {"what": f"restarted loop takes a non-positive step ({short})", "key": "restart-dt-nonpositive"}
    if status == "finished":
        for x in sched:
            if x > t and not any(_isclose(a, x, rtol, atol) or abs(a - x) <= 1e-9 * max(1.0, abs(x)) for a in accepted):
                return {"what": f"restarted loop never hit the scheduled time {x} ({short})", "key": "restart-missed-scheduled"}
    return None


def model_decode(outs, case):
    if "err" in outs[0] and len(outs) == 1:
        return {"init": outs[0], "trace": [], "loop": None}
    if case["kind"] == "loop":
        return {"init": outs[0], "trace": outs[1:-2], "loop": outs[-1]}
    return {"init": outs[0], "trace": outs[1:], "loop": None}


_NUM = ("time", "dt", "ret", "dt_min", "dt_max")


def _cmp_entry(a, b, exact):
    """a: impl entry, b: model entry (may contain 'm'). Returns None or text."""
    kb = {k: v for k, v in b.items() if k != "m"}
    if set(a) != set(kb):
        return f"fields {sorted(a)} vs {sorted(kb)}"
    for k in a:
        x, y = a[k], kb[k]
        if k in _NUM and x is not None and y is not None:
            if exact:
                if F(x) != F(y):
                    return f"{k}: impl {x} vs model {y}"
            elif not close(x, y, 1e-9, 1e-12):
                return f"{k}: impl {float(F(x))!r} vs model {float(F(y))!r} (tol)"
        elif k == "accepted":
            if len(x) != len(y):
                return f"accepted: {len(x)} vs {len(y)} times"
            for u, v in zip(x, y):
                if (F(u) != F(v)) if exact else (not close(u, v, 1e-9, 1e-12)):
                    return f"accepted: impl {u} vs model {v}"
        elif x != y:
            return f"{k}: impl {x!r} vs model {y!r}"
    return None


def compare(impl, model, case):
    mi = model["init"]
    if "admissible" in mi:
        if case["p"]["dt_min_max"] is not None and mi["admissible"] != _valid_params(case["p"]):
            return f"premise: Lean `Admissible` = {mi['admissible']} but the oracle's premise check says {_valid_params(case['p'])}"
        if case["p"]["constant_dt"] and mi["small_tol"] != _small_tol(case["p"]):
            return f"premise: Lean `SmallTol` = {mi['small_tol']} but the oracle's check says {_small_tol(case['p'])}"
        model = dict(model, init={k: v for k, v in mi.items() if k not in ("admissible", "small_tol")})
    exact = bool(case.get("exact"))
    knife = False  # a comparison so far was closer to its threshold than rounding can resolve
    seq = [("init", impl["init"], model["init"])]
    if len(impl["trace"]) != len(model["trace"]):
        return f"trace lengths {len(impl['trace'])} vs {len(model['trace'])}"
    seq += [(f"call {i}", a, b) for i, (a, b) in enumerate(zip(impl["trace"], model["trace"]))]
    switched = False
    for name, a, b in seq:
        m = b.get("m")
        if m is not None:
            mv = float(F(m))
            if mv < KNIFE_THR and (not exact or mv > 0):
                knife = True
        if exact:
            for k in _NUM:
                if b.get(k) is not None and not _is_b64(F(b[k])):
                    exact = False  # binary64 cannot represent the exact value: class T from here on
                    switched = True
            if not exact and m is not None and float(F(m)) < KNIFE_THR:
                knife = True
        d = _cmp_entry(a, b, exact)
        if d:
            if knife:
                _COUNTERS["dropped_knife_edge"] += 1
                return None
            return f"{name}: {d}"
    if impl["loop"] is not None:
        d = _cmp_entry(impl["loop"], model["loop"], exact)
        if d:
            if knife:
                _COUNTERS["dropped_knife_edge"] += 1
                return None
            return f"loop summary: {d}"
    if switched:
        _COUNTERS["switched_to_tolerance"] += 1
    _COUNTERS["compared_exact" if exact else "compared_tol"] += 1
    return None


# ----------------------------------------------------------------------------- oracle
def _isclose(a, b, rtol, atol):
    return abs(a - b) <= atol + rtol * abs(b) or a == b  # np.isclose or-s with x == y


def _valid_params(p):
    """The property's premise, decided on the case itself (not on the code): constructor-valid adaptive
    parameters, initial step fits the first interval, non-negative tolerances, positive minimal step or
    positive factors (tolerances: rtol <= 1 or atol >= 0)."""
    s = [F(x) for x in p["schedule"]]
    if p["constant_dt"] or p["dt_min_max"] is None:
        return False
    dt0, mn, mx = F(p["dt_init"]), F(p["dt_min_max"][0]), F(p["dt_min_max"][1])
    un, ov, rf = F(p["under"]), F(p["over"]), F(p["recomp_factor"])
    ok = (len(s) >= 2 and all(x >= 0 for x in s) and all(a < b for a, b in zip(s, s[1:])) and 0 < dt0 <= s[-1]
          and mn <= dt0 <= mx and p["iter_max"] > 0 and 0 <= p["iter_low"] <= p["iter_upp"] <= p["iter_max"]
          and un < 1 < ov and mn * ov <= mx and mx * un >= mn and rf < 1 and p["recomp_max"] > 0)
    if not ok:
        return False
    if s[0] + dt0 > s[1]:
        return False
    if F(p["rtol"]) > 1 and F(p["atol"]) < 0:
        return False
    return mn > 0 or (un > 0 and rf > 0)


def oracle(case):
    """The property statement checked directly on the real TimeManager driven by the real time loop."""
    p = case["p"]
    if case["kind"] == "restart":
        return _oracle_restart(case)
    if case["kind"] == "loop" and p["constant_dt"]:
        return _oracle_constant(case)
    if case["kind"] != "loop" or not _valid_params(p):
        return None
    try:
        tm = _construct(p)
    except Exception as e:
        return {"what": f"constructor rejected valid parameters with {type(e).__name__}: {e}", "key": "valid-params-rejected"}
    status, accepted, steps = _real_loop(tm, case["outcomes"])
    sched = [_fl(x) for x in p["schedule"]]
    rtol, atol = _fl(p["rtol"]), _fl(p["atol"])
    mn, mx = _fl(p["dt_min_max"][0]), _fl(p["dt_min_max"][1])
    exact = bool(case.get("exact"))
    eps = 1e-12 if exact else 1e-9  # relative slack for binary64 rounding (violations on the dyadic stream are macroscopic)
    sl = lambda x: eps * max(1.0, abs(x))
    short = f"schedule={sched} dt_init={_fl(p['dt_init'])} dt_min_max=({mn},{mx}) outcomes={case['outcomes'][:12]}"
    if status.startswith("crashed") or (status.startswith("raised") and status != "raised:ValueError"):
        return {"what": f"time loop ended with {status} ({short})", "key": "unexpected-exception:" + status.split(":")[1]}
    # accepted times strictly increase and never exceed the final time
    for a, b in zip(accepted, accepted[1:]):
        if not b > a:
            return {"what": f"accepted times not strictly increasing: {a} then {b} ({short})", "key": "not-increasing"}
    for a in accepted:
        if a > sched[-1] + sl(sched[-1]):
            return {"what": f"accepted time {a} exceeds the final time {sched[-1]} ({short})", "key": "exceeds-final"}
    # every scheduled time is included once the loop has finished; the loop finishes only at the final time
    if status == "finished":
        for k, x in enumerate(sched):
            if not any(_isclose(a, x, rtol, atol) or abs(a - x) <= sl(x) for a in accepted):
                return {"what": f"scheduled time {x} (index {k}) was never hit; accepted={accepted[-6:]} ({short})", "key": "missed-scheduled"}
    else:
        # scheduled times that have been passed must have been hit
        for k, x in enumerate(sched):
            if accepted[-1] > x + sl(x) and not any(_isclose(a, x, rtol, atol) or abs(a - x) <= sl(x) for a in accepted):
                return {"what": f"scheduled time {x} (index {k}) was passed without being hit; accepted={accepted[-6:]} ({short})", "key": "missed-scheduled"}
    # step sizes
    for st in steps:
        dt, t0 = st["dt"], st["t_prev"]
        if dt > mx + sl(mx):
            return {"what": f"step {dt} from t={t0} larger than dt_max={mx} ({short})", "key": "dt-above-max"}
        if dt < mn - sl(mn):
            lands = any(abs(t0 + dt - x) <= sl(x) or (not exact and _isclose(t0 + dt, x, rtol, atol)) for x in sched)
            if not lands:
                return {"what": f"step {dt} from t={t0} smaller than dt_min={mn} without landing on a scheduled time ({short})", "key": "dt-below-min"}
        if not dt > 0:
            return {"what": f"non-positive step {dt} from t={t0} ({short})", "key": "dt-nonpositive"}
    # failed steps rewind or raise; raising is justified
    consecutive = 0
    for i, st in enumerate(steps):
        if st["outcome"] >= 0:
            consecutive = 0
            continue
        consecutive += 1
        if "exc" in st:
            just = consecutive > p["recomp_max"] or st["dt"] == mn
            if not just:
                return {"what": f"failed step {i} raised although recomputation was not exhausted ({consecutive} of {p['recomp_max']}) and dt={st['dt']} != dt_min ({short})", "key": "raise-unjustified"}
        else:
            if consecutive > p["recomp_max"]:
                return {"what": f"{consecutive} consecutive failed steps without an error (recomp_max={p['recomp_max']}) ({short})", "key": "raise-missing"}
            if abs(st["t_after"] - st["t_prev"]) > (0.0 if exact and _exact_rewind(st) else 1e-9 * max(1.0, abs(st["t_prev"]))):
                return {"what": f"failed step {i} left the clock at {st['t_after']} instead of the last accepted time {st['t_prev']} ({short})", "key": "no-rewind"}
    return None


def _small_tol(p):
    """`SmallTol` of the Lean statement, decided exactly on the case."""
    s = [F(x) for x in p["schedule"]]
    dt, r, a = F(p["dt_init"]), F(p["rtol"]), F(p["atol"])
    if dt <= 0 or len(s) < 2:
        return False
    n = max(0, math.ceil((s[-1] + dt - s[0]) / dt))
    if n > 5000:
        return False
    return all(2 * (a + r * abs(s[0] + i * dt)) < dt for i in range(n)) and 2 * (a + r * abs(s[-1])) < dt


def _oracle_constant(case):
    """Constant step: if the constructor accepts the parameters and the tolerance is small against the step
    (theorem constant_dt_hits), a loop of converged steps that ends has matched every scheduled time
    (np.isclose(y, a), the constructor's orientation), with times t0 + k*dt; a failed step raises ValueError."""
    p = case["p"]
    try:
        tm = _construct(p)
    except Exception:
        return None
    status, accepted, steps = _real_loop(tm, case["outcomes"])
    sched = [_fl(x) for x in p["schedule"]]
    rtol, atol, dt = _fl(p["rtol"]), _fl(p["atol"]), _fl(p["dt_init"])
    short = f"constant dt={dt} schedule={sched} rtol={rtol} atol={atol} outcomes={case['outcomes'][:12]}"
    failed = [i for i, o in enumerate(case["outcomes"][: len(steps)]) if o < 0]
    if failed:
        if status != "raised:ValueError" or len(steps) != failed[0] + 1:
            return {"what": f"constant dt: failed step {failed[0]} did not end the loop with ValueError (status {status}) ({short})", "key": "constant-failure-no-error"}
        return None
    if status not in ("finished", "running"):
        return {"what": f"constant dt: loop of converged steps ended with {status} ({short})", "key": "unexpected-exception:" + status.split(":")[1]}
    for k, a in enumerate(accepted):
        if abs(a - (sched[0] + k * dt)) > 1e-9 * max(1.0, abs(a)):
            return {"what": f"constant dt: accepted time {a} is not t0 + {k}*dt ({short})", "key": "constant-times-not-arithmetic"}
    if status == "finished" and _small_tol(p):
        for k, y in enumerate(sched):
            if not any(_isclose(y, a, rtol, atol) or abs(a - y) <= 1e-9 * max(1.0, abs(y)) for a in accepted):
                return {"what": f"constant dt: scheduled time {y} (index {k}) was never hit; accepted={accepted[-6:]} ({short})", "key": "constant-missed-scheduled"}
    return None


def _exact_rewind(st):
    """t_prev + dt was exact in binary64, so that subtracting dt again must give t_prev back exactly."""
    return F(st["t_prev"]) + F(st["dt"]) == F(st["t"])


# ----------------------------------------------------------------------------- generators
def _dy(rng, lo, hi, den):
    return F(rng.randint(lo, hi), den)


def _tol(rng, dyadic):
    r = rng.random()
    if r < 0.6:
        return frac(1e-10), frac(1e-16)
    if r < 0.7:
        return "0", "0"
    if r < 0.85:
        return frac(F(1, 2 ** 20)), frac(F(1, 2 ** 30))
    if r < 0.93:
        return frac(F(1, 16)), frac(F(1, 64))
    if not dyadic:
        return frac(1e-6), frac(1e-8)
    # unusual tolerances (dyadic stream only): large, negative (then only x == y counts as close), rtol > 1
    return rng.choice([(frac(F(1, 2)), frac(F(1, 4))), (frac(F(-1, 1024)), "0"), (frac(F(-1, 8)), frac(F(-1, 4))),
                       (frac(F(3, 2)), frac(F(1, 8))), (frac(F(2)), frac(F(-1, 8)))])


def _outcomes(rng, lo, up, imax, n):
    pf = rng.choice([0.0, 0.0, 0.0, 0.1, 0.2, 0.4, 0.7])
    pool = [lo - 1, lo, lo + 1, up - 1, up, up + 1, 0, imax, imax + 1, (lo + up) // 2]
    pool = [max(0, x) for x in pool]
    mode = rng.random()
    outs = []
    for _ in range(n):
        if rng.random() < pf:
            outs.append(-1)
        elif mode < 0.25:
            outs.append((lo + up) // 2 if up - lo >= 2 else rng.choice(pool))  # mostly unchanged dt
        else:
            outs.append(rng.choice(pool))
    return outs


def _gen_adaptive(rng, tier, dyadic):
    n = rng.randint(2, 6)
    if dyadic:
        den = rng.choice([1, 2, 4, 8, 16])
        t0 = _dy(rng, 0, 6 * den, den) if rng.random() < 0.8 else F(0)
        gaps = [F(rng.choice([1, 1, 2, 3, 4, 6, 8, 12, 16, 24]), den) for _ in range(n - 1)]
        unit = F(1, rng.choice([4, 8, 16, 32]))
        mn = unit * rng.randint(1, 6)
        mx = mn * rng.choice([2, 3, 4, 8, 16]) + unit * rng.randint(0, 3)
        un = rng.choice([F(1, 2), F(3, 4), F(1, 4), F(7, 8), F(1, 2)])
        ov = rng.choice([F(5, 4), F(3, 2), F(2), F(9, 8), F(2)])
        rf = rng.choice([F(1, 2), F(1, 4), F(3, 4), F(1, 2)])
    else:
        t0 = F(str(rng.choice([0, 0, 0.5, 1.2, 3.7, 10, 0.05])))
        gaps = [F(str(rng.choice([0.1, 0.2, 0.25, 0.3, 0.5, 0.7, 1, 1.2, 2.5, 3.3, 10]))) for _ in range(n - 1)]
        mn = F(str(rng.choice([0.001, 0.01, 0.05, 0.1, 0.2, 0.03])))
        mx = mn * rng.choice([2, 3, 5, 10, 50])
        un = F(str(rng.choice([0.7, 0.5, 0.9, 0.3, 0.75])))
        ov = F(str(rng.choice([1.3, 1.1, 2, 1.5, 1.25])))
        rf = F(str(rng.choice([0.5, 0.1, 0.7, 0.25, 0.9])))
    s = [t0]
    for g in gaps:
        s.append(s[-1] + g)
    # keep the validated relations dt_min*over <= dt_max, dt_max*under >= dt_min
    if mn * ov > mx:
        mx = mn * ov
    if mx * un < mn:
        un = F(3, 4) if dyadic else F("0.75")
        if mx * un < mn:
            mx = mn * 2
    r = rng.random()
    g0 = s[1] - s[0]
    if r < 0.35:
        dt0 = g0 / rng.choice([1, 2, 2, 4, 4, 8, 3, 5])  # divides the first gap: exact landing without correction
    elif r < 0.5:
        dt0 = mn
    elif r < 0.6:
        dt0 = mx
    else:
        dt0 = mn + (mx - mn) * F(rng.randint(0, 8), 8)
    if rng.random() < 0.9:
        dt0 = min(dt0, g0)  # the property's premise: the initial step fits
        if dt0 < mn:
            if rng.random() < 0.9:
                mn = dt0 / rng.choice([1, 2, 4])
        if dt0 > mx:
            mx = dt0
    if not dyadic:
        # decimal parameters are the binary64 neighbours of the decimal values
        s = [F(float(x)) for x in s]
        dt0, mn, mx, un, ov, rf = (F(float(x)) for x in (dt0, mn, mx, un, ov, rf))
    lo = rng.randint(0, 5)
    up = rng.randint(lo, lo + 5)
    imax = up + rng.randint(0, 5)
    rtol, atol = _tol(rng, dyadic)
    p = {"schedule": [frac(x) for x in s], "dt_init": frac(dt0), "constant_dt": False, "dt_min_max": [frac(mn), frac(mx)],
         "iter_max": max(imax, 1), "iter_low": lo, "iter_upp": up, "under": frac(un), "over": frac(ov), "recomp_factor": frac(rf),
         "recomp_max": rng.randint(1, 5), "rtol": rtol, "atol": atol}
    if dyadic and all(x.denominator == 1 for x in s) and rng.random() < 0.3:
        p["int_schedule"] = True
    nout = rng.randint(5, 40 if tier == "quick" else 60)
    return {"kind": "loop", "stream": "A" if dyadic else "B", "exact": dyadic, "p": p, "outcomes": _outcomes(rng, lo, up, p["iter_max"], nout)}


def _gen_constant(rng, tier):
    dyadic = rng.random() < 0.6
    n = rng.randint(2, 6)
    dt = F(rng.randint(1, 8), rng.choice([1, 2, 4, 8])) if dyadic else F(str(rng.choice([0.1, 0.2, 0.25, 0.3, 0.5, 1.5])))
    t0 = dt * rng.randint(0, 5) if rng.random() < 0.5 else (F(rng.randint(0, 12), 4) if dyadic else F(str(rng.choice([0, 0.5, 1.1]))))
    s = [t0]
    for _ in range(n - 1):
        s.append(s[-1] + dt * rng.randint(1, 4))
    r = rng.random()
    if r < 0.25:  # incompatible schedule
        k = rng.randrange(1, n)
        s[k] = s[k] - dt / rng.choice([2, 3, 4]) if s[k] - dt / 2 > s[k - 1] else s[k] + dt / 3
        s = sorted(set(s))
        if len(s) < 2:
            s = [t0, t0 + dt * F(3, 2)]
    if not dyadic:
        s = [F(float(x)) for x in s]
        dt = F(float(dt))
    rtol, atol = _tol(rng, dyadic) if rng.random() < 0.5 else (frac(1e-10), frac(1e-16))
    p = {"schedule": [frac(x) for x in s], "dt_init": frac(dt), "constant_dt": True, "dt_min_max": None if rng.random() < 0.5 else [frac(dt / 2), frac(dt * 2)],
         "iter_max": 15, "iter_low": 4, "iter_upp": 7, "under": frac(0.7), "over": frac(1.3), "recomp_factor": frac(0.5), "recomp_max": 10,
         "rtol": rtol, "atol": atol}
    nsteps = int((s[-1] - s[0]) / dt) + 2
    outs = [(-1 if rng.random() < 0.05 else rng.randint(0, 9)) for _ in range(min(nsteps, rng.randint(1, 45)))]
    return {"kind": "loop", "stream": "C", "exact": dyadic, "p": p, "outcomes": outs}


_BREAKS = ["short", "negative", "nonincreasing", "dt0_nonpos", "dt0_gt_final", "dt0_lt_min", "dt0_gt_max", "itermax", "range_inverted", "upp_gt_max",
           "low_negative", "under_ge_1", "over_le_1", "min_over_gt_max", "max_under_lt_min", "rf_ge_1", "recomp_max", "default_minmax", "default_minmax_big_dt"]


def _gen_malformed(rng, tier):
    c = _gen_adaptive(rng, tier, dyadic=rng.random() < 0.7)
    p = c["p"]
    s = [F(x) for x in p["schedule"]]
    b = rng.choice(_BREAKS)
    if b == "short":
        p["schedule"] = p["schedule"][:1]
    elif b == "negative":
        p["schedule"] = [frac(-F(1, 2))] + p["schedule"][1:]
    elif b == "nonincreasing":
        k = rng.randrange(1, len(s))
        s[k] = s[k - 1] if rng.random() < 0.5 else s[k - 1] - F(1, 4)
        p["schedule"] = [frac(x) for x in s]
    elif b == "dt0_nonpos":
        p["dt_init"] = rng.choice(["0", "-1/2"])
    elif b == "dt0_gt_final":
        p["dt_init"] = frac(s[-1] + F(1, 2))
        p["dt_min_max"] = [p["dt_min_max"][0], frac(s[-1] + 1)]
    elif b == "dt0_lt_min":
        p["dt_init"] = frac(F(p["dt_min_max"][0]) / 2)
    elif b == "dt0_gt_max":
        p["dt_init"] = frac(F(p["dt_min_max"][1]) * F(9, 8))
    elif b == "itermax":
        p["iter_max"] = rng.choice([0, -1])
    elif b == "range_inverted":
        p["iter_low"], p["iter_upp"] = p["iter_upp"] + 1, p["iter_upp"]
    elif b == "upp_gt_max":
        p["iter_upp"] = p["iter_max"] + 1
    elif b == "low_negative":
        p["iter_low"] = -1
    elif b == "under_ge_1":
        p["under"] = rng.choice(["1", "9/8"])
    elif b == "over_le_1":
        p["over"] = rng.choice(["1", "7/8"])
    elif b == "min_over_gt_max":
        p["over"] = frac(F(p["dt_min_max"][1]) / F(p["dt_min_max"][0]) + F(1, 8))
    elif b == "max_under_lt_min":
        p["under"] = frac(F(p["dt_min_max"][0]) / F(p["dt_min_max"][1]) / 2)
    elif b == "rf_ge_1":
        p["recomp_factor"] = rng.choice(["1", "3/2"])
    elif b == "recomp_max":
        p["recomp_max"] = rng.choice([0, -2])
    elif b == "default_minmax":
        p["dt_min_max"] = None
        p["dt_init"] = frac(float(F(p["schedule"][-1]) * F(rng.randint(1, 90), 1000)))
        c["exact"] = False
    else:
        p["dt_min_max"] = None
        p["dt_init"] = frac(float(F(p["schedule"][-1]) * F(rng.randint(11, 60), 100)))
        c["exact"] = False
    c["stream"] = "D"
    c["broken"] = b
    return c


def _gen_raw(rng, tier):
    c = _gen_adaptive(rng, tier, dyadic=True) if rng.random() < 0.8 else _gen_constant(rng, tier)
    p = c["p"]
    calls = []
    for _ in range(rng.randint(3, 30)):
        r = rng.random()
        if r < 0.3:
            calls.append({"op": "inc_time"})
            if rng.random() < 0.8:
                calls.append({"op": "inc_index"})
        elif r < 0.4:
            calls.append({"op": "final"})
        else:
            q = rng.random()
            if q < 0.55:
                calls.append({"op": "compute", "iterations": rng.randint(0, p["iter_max"] + 1), "recompute": False})
            elif q < 0.85:
                calls.append({"op": "compute", "iterations": None, "recompute": True})
            elif q < 0.93:
                calls.append({"op": "compute", "iterations": None, "recompute": False})
            else:
                calls.append({"op": "compute", "iterations": rng.randint(0, 9), "recompute": True})
    return {"kind": "raw", "stream": "E", "exact": c["exact"], "p": p, "calls": calls}


def _normalize(case):
    """Every real parameter becomes the binary64 value the real code is given; `exact` survives only if
    nothing had to be rounded (then exact rational arithmetic and binary64 start from the same numbers)."""
    p = case["p"]
    changed = False

    def fix(x):
        nonlocal changed
        q = F(x)
        q2 = F(float(q))
        if q2 != q:
            changed = True
        return frac(q2)

    p["schedule"] = [fix(x) for x in p["schedule"]]
    for k in ("dt_init", "under", "over", "recomp_factor", "rtol", "atol"):
        p[k] = fix(p[k])
    if p["dt_min_max"] is not None:
        p["dt_min_max"] = [fix(x) for x in p["dt_min_max"]]
    if changed:
        case["exact"] = False
        p.pop("int_schedule", None)
    return case


def _gen_restart(rng, tier):
    c = _gen_adaptive(rng, tier, dyadic=rng.random() < 0.8)
    outs = [o if o >= 0 else c["p"]["iter_low"] for o in c["outcomes"]]  # phase 1: converged steps only
    k = rng.randint(0, min(len(outs), 12))
    return {"kind": "restart", "stream": "R", "exact": c["exact"], "p": c["p"], "outcomes": outs[:k], "outcomes2": c["outcomes"][k:k + 25]}


def _gen_scale(rng, tier):
    """extreme scale: the whole problem multiplied by 2**e (seconds vs. years), exact in binary64"""
    c = _gen_adaptive(rng, tier, dyadic=True)
    f = F(2) ** rng.choice([-30, -12, 20, 40])
    p = c["p"]
    p["schedule"] = [frac(F(x) * f) for x in p["schedule"]]
    p["dt_init"] = frac(F(p["dt_init"]) * f)
    p["dt_min_max"] = [frac(F(x) * f) for x in p["dt_min_max"]]
    c["stream"] = "S"
    return c


def gen_case(rng, tier):
    r = rng.random()
    if r < 0.08:
        return _normalize(_gen_restart(rng, tier))
    if r < 0.12:
        return _normalize(_gen_scale(rng, tier))
    r = rng.random()
    if r < 0.55:
        c = _gen_adaptive(rng, tier, dyadic=True)
    elif r < 0.75:
        c = _gen_adaptive(rng, tier, dyadic=False)
    elif r < 0.85:
        c = _gen_constant(rng, tier)
    elif r < 0.93:
        c = _gen_malformed(rng, tier)
    else:
        c = _gen_raw(rng, tier)
    return _normalize(c)


def nontrivial(case):
    return case["kind"] == "loop" and _valid_params(case["p"]) and len(case["outcomes"]) >= 3


def shrink_candidates(case):
    if case["kind"] == "restart":
        for k in range(len(case["outcomes2"])):
            yield dict(case, outcomes2=case["outcomes2"][:k])
        for k in range(len(case["outcomes"])):
            yield dict(case, outcomes=case["outcomes"][:k])
        return
    if case["kind"] != "loop":
        return
    outs = case["outcomes"]
    for k in range(1, len(outs)):
        yield dict(case, outcomes=outs[:k])
    for i in range(len(outs)):
        yield dict(case, outcomes=outs[:i] + outs[i + 1:])
    lo, up = case["p"]["iter_low"], case["p"]["iter_upp"]
    mid = (lo + up) // 2
    for i, o in enumerate(outs):
        if o >= 0 and o != mid:
            yield dict(case, outcomes=outs[:i] + [mid] + outs[i + 1:])


def stats(cases, impl_outs):
    st = {"strata": {"two_point_schedule": sum(1 for c in cases if len(c["p"]["schedule"]) == 2),
                     "six_point_schedule": sum(1 for c in cases if len(c["p"]["schedule"]) == 6),
                     "schedule_starts_at_0": sum(1 for c in cases if F(c["p"]["schedule"][0]) == 0),
                     "dt_init_equals_dt_min": sum(1 for c in cases if c["p"]["dt_min_max"] and c["p"]["dt_init"] == c["p"]["dt_min_max"][0]),
                     "dt_init_equals_first_gap": sum(1 for c in cases if len(c["p"]["schedule"]) > 1 and F(c["p"]["dt_init"]) == F(c["p"]["schedule"][1]) - F(c["p"]["schedule"][0])),
                     "iter_low_equals_upp": sum(1 for c in cases if c["p"]["iter_low"] == c["p"]["iter_upp"]),
                     "zero_or_negative_tolerance": sum(1 for c in cases if F(c["p"]["rtol"]) <= 0),
                     "all_failed_tape": sum(1 for c in cases if c.get("outcomes") and all(o < 0 for o in c["outcomes"])),
                     "restart": sum(1 for c in cases if c["kind"] == "restart"),
                     "restart_cursor_moves": sum(1 for c, o in zip(cases, impl_outs) if c["kind"] == "restart" and isinstance(o, dict) and o.get("trace") and _expected_cursor(c["p"], float(F(o["trace"][0]["time"]))) > 1),
                     "extreme_scale": sum(1 for c in cases if c.get("stream") == "S")},
          "streams": {}, "loop_status": {}, "init_errors": 0, "compute_calls": 0, "recompute_calls": 0, "raised_in_compute": 0,
          "landed_exactly_without_correction": 0, "index_advanced_by_2": 0, "steps_below_dt_min": 0, "premise_holds": 0}
    for c, o in zip(cases, impl_outs):
        st["streams"][c.get("stream", "?")] = st["streams"].get(c.get("stream", "?"), 0) + 1
        if not isinstance(o, dict) or "init" not in o:
            continue
        if o["init"].get("err"):
            st["init_errors"] += 1
            continue
        if c["kind"] == "loop" and _valid_params(c["p"]):
            st["premise_holds"] += 1
        if o["loop"]:
            k = o["loop"]["status"]
            st["loop_status"][k] = st["loop_status"].get(k, 0) + 1
        sched = {F(x) for x in c["p"]["schedule"]}
        mn = F(o["init"]["dt_min"])
        prev = o["init"]
        for e in o["trace"]:
            if "ret" in e or "err" in e:
                st["compute_calls"] += 1
                if "err" in e:
                    st["raised_in_compute"] += 1
                if e["idx"] - prev["idx"] >= 2:
                    st["index_advanced_by_2"] += 1
                if "ret" in e and e["ret"] is not None and F(e["dt"]) < mn:
                    st["steps_below_dt_min"] += 1
                if e["recomp"] > prev["recomp"]:
                    st["recompute_calls"] += 1
            if "time" in e:
                if F(e["time"]) in sched and F(e["time"]) != F(prev["time"]) and not prev["about"]:
                    st["landed_exactly_without_correction"] += 1
                prev = e
    st.update(_COUNTERS)
    return st
