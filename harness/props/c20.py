"""C20 Grid geometry is equivariant under rigid motions (Grid.compute_geometry, 1-D / 2-D / 3-D, embedded grids)."""
import math
import warnings
from fractions import Fraction as F

import numpy as np

from harness.common import frac, err_kind, deep_compare


PID = "C20"
THEOREMS = [
    "PorepyVerif.C20.dot_rotate",
    "PorepyVerif.C20.norm2_rotate",
    "PorepyVerif.C20.cross_rotate",
    "PorepyVerif.C20.diff_translate",
    "PorepyVerif.C20.quat_rotation_isRot",
    "PorepyVerif.C20.tri_normal_equivariant",
    "PorepyVerif.C20.tri_area2_invariant",
    "PorepyVerif.C20.tet_volume_invariant",
    "PorepyVerif.C20.centroid_equivariant",
    "PorepyVerif.C20.tangent_equivariant",
    "PorepyVerif.C20.plane_normal_equivariant",
    "PorepyVerif.C20.geom1_equivariant",
    "PorepyVerif.C20.geom2_equivariant",
    "PorepyVerif.C20.geom2_branches_invariant",
    "PorepyVerif.C20.polygon_cell_geometry_equivariant",
    "PorepyVerif.C20.face3_geometry_equivariant",
    "PorepyVerif.C20.cell3_geometry_equivariant",
    "PorepyVerif.C20.geom3_equivariant",
    "PorepyVerif.C20.geom0_equivariant",
    "PorepyVerif.C20.cell_diameter_invariant",
    "PorepyVerif.C20.geom1_equivariant_wf",
    "PorepyVerif.C20.geom2_equivariant_wf",
    "PorepyVerif.C20.geom3_equivariant_wf",
    "PorepyVerif.C20.euclidean_length_real",
    "PorepyVerif.C20.norm_rotate_real",
    "PorepyVerif.C20.unit_normal_is_unit_real",
    "PorepyVerif.C20.unit_normal_equivariant_real",
    "PorepyVerif.C20.geom1_equivariant_real",
    "PorepyVerif.C20.geom2_equivariant_real",
    "PorepyVerif.C20.geom3_equivariant_real",
    "PorepyVerif.C20.rodrigues_isRot",
    "PorepyVerif.C20.project_matrix_real",
    "PorepyVerif.C20.map_grid_isometry_real",
    "PorepyVerif.C20.map_grid_flat_real",
    "PorepyVerif.C20.map_grid_of_moved_grid2_real",
    "PorepyVerif.C20.map_grid_of_moved_grid1_real",
]
LEAN_MODULES = ["PorepyVerif.C20.Props"]
AUDIT = "PorepyVerif/C20/Audit.lean"
DRIVER = "PorepyVerif/C20/Driver.lean"
N = {"quick": 90, "thorough": 5000}
TOL = 1e-10          # oracle tolerance (relative to the size of the coordinates)
CTOL = 1e-9          # correspondence tolerance (class T)

RULE = ("one grid + one rigid motion per case. Grids: 1-D (uniform / non-uniform tensor), 2-D (Cartesian, tensor, structured triangles, Delaunay "
        "triangles, hand-built polygon meshes with non-convex cells and random star-shaped single cells, node-perturbed versions), 3-D (Cartesian, "
        "tensor, structured and Delaunay tetrahedra, node-perturbed hexahedra with non-planar faces, prisms over the polygon meshes with non-convex faces); all node coordinates dyadic. 2-D variants "
        "exercise every orientation branch of _compute_geometry_2d: consistently oriented, all faces reversed, some faces reversed (check 1 fails "
        "-> plane fitting with map_geometry.compute_normal + convex fallback), two disconnected patches of equal area with opposite orientation "
        "(check 2), of unequal area (check 3). Motion: proper rotation from an integer quaternion (all rational rotations; identity, half turns, "
        "quarter turns and generic ones) + dyadic translation; with probability 0.4 the grid is first embedded by another such motion, so that both "
        "the reference and the moved grid lie in a generic line / plane of 3-D. For 1-D / 2-D grids map_grid is run on both grids as well, "
        "cell_diameters() on all grids; 4% of the cases are 0-d point grids. Strata (counted in input_distribution.strata): scaled (all coordinates times 2^k, "
        "k in -20,-10,10,20, results divided back exactly), permuted (random renumbering of nodes, faces, cells), extra-node (a node no face uses, 1-D/2-D), "
        "single-cell, size-0-faces (point grid); every compute_geometry is repeated on the same object (idempotence). non-trivial = rotation is not the identity; distinct = distinct cases")
TRUSTED = [
    "the real square root is now INSIDE the theorems: model and lemmas are generic over a linearly ordered field K and a function sq : K -> K; the *_real theorems "
    "instantiate K = R, sq = Real.sqrt (Mathlib) and quantify over every real proper rotation matrix. What stays outside: the driver runs the same definitions "
    "with K = Rat and a rational square root accurate to 2^-64 (asqrt), compared with the implementation at 1e-9",
    "modelled, not verified: binary64 rounding, in particular the tie-breaking of np.argmax in compute_tangent / compute_normal between points that are "
    "equally far from the mean (the model breaks ties exactly, the theorems show the selected index is invariant in exact arithmetic); the geometry "
    "fields do not depend on that choice; the map_grid rotation does, so its comparison is skipped (and counted) when the model reports a relative argmax margin < 1e-7",
    "modelled, not verified: compute_normal's collinearity test np.allclose(normal, 0, atol=tol*|v1|^2) is component-wise and therefore not rotation invariant "
    "inside a band of width sqrt(3) around the tolerance (point clouds that are collinear up to ~1e-5); the model reproduces the test for the correspondence "
    "(RuntimeError), the theorems are about the returned normal, generated grids stay far from the band",
    "modelled, not verified: the trigonometric step of project_plane_matrix / project_line_matrix: the model uses cos(arccos c) = c and sin(arccos c) = sqrt(1 - c^2) "
    "in rotation_matrix; points_are_planar / the numerical 'active dimension' thresholds of map_grid are reproduced for the correspondence, the theorem "
    "map_grid_flat_real states the exact counterpart (third local coordinate constant)",
    "3-d grids with sub-tetrahedra of exactly zero volume (a face edge collinear with the mean of the face's nodes, e.g. the prism over the L-shaped polygon) "
    "are generated in every stratum, also scaled: since fix 1b09c50fb the negative-volume test of _compute_geometry_3d is relative to the largest sub-tetrahedron, "
    "and the model's negTets / tetTol mirror it (former finding, corpus/C20/f-prism-L-zero-subtet-absolute-tolerance.json)",
    "modelled, not verified: numpy / scipy.sparse glue that gathers node coordinates per face and per cell (done by the harness when it resolves the grid "
    "for the driver), np.bincount, sparse products, np.unique(return_index)",
]
EXPLANATION = ("Clause map: cell volumes unchanged / face areas unchanged / centres and normals transformed by the motion = fields cv / fa / cc, fc / fn of "
               "geom0_equivariant, geom1/2/3_equivariant(_wf, _real); embedding of 1-D and 2-D grids in arbitrary lines and planes = the same theorems with an arbitrary "
               "3-D motion, plus tangent_equivariant / plane_normal_equivariant for the fitting path; 'proper rotations' = IsRot, established for the generator by "
               "quat_rotation_isRot and decided by the driver per case; the remaining hypotheses (nodes exist, cells have faces, non-zero volumes / areas) are the decidable "
               "conditions wf1/wf2/wf3, evaluated by the driver on every grid (answer field hyp, required true). Neighbouring entry points: cell_diameters "
               "(cell_diameter_invariant) and map_grid (map_grid_*_real). "
               "CORE: the model mirrors _compute_geometry_1d/_2d/_3d, compute_tangent, compute_normal, rotation_matrix, project_plane/line_matrix and map_grid formula by "
               "formula, generic over an ordered field K with an abstract square root; theorems (for every K, every sq): cross/dot/norm equivariance of rotations "
               "(R^T R = 1, det R = 1), equivariance of every geometry field of the three grid-level functions (volumes/areas invariant, centres moved, normals rotated), "
               "all orientation branches included; instantiated at K = R with Real.sqrt for EVERY real proper rigid motion (geom1/2/3_equivariant_real, Euclidean length, "
               "unit normals). map_geometry: the Rodrigues matrix of a unit vector is a proper rotation taking it to the reference (any field); over R the coded "
               "project matrix is that rotation, map_grid returns a rigid copy of the fields (distances and dot products preserved, planar grids land in a coordinate "
               "plane), also when applied to the moved grid. Correspondence compares all geometry fields of the reference and of the moved grid, and map_grid's rotation, "
               "active dimensions and local fields, with the model (1e-9); the oracle checks the equivariance statement and the map_grid isometry on the real code (1e-10). "
               "The generated motions are tied to the hypothesis of the theorems: quat_rotation_isRot proves that every non-zero quaternion gives a proper rotation, "
               "and the driver re-computes the exact motion of the reference nodes with the model's act/quatMat (compared exactly) and decides IsRot.")
ASSUMPTIONS = ["cells have at least one face, faces at least one node, cell volumes and (3-D) face areas are non-zero (otherwise the code divides by zero)",
               "2-D cells on the convex fallback path are convex (the code's own assumption)"]


# ----------------------------------------------------------------------------- rational rigid motions
def quat_matrix(q):
    w, x, y, z = [F(v) for v in q]
    n = w * w + x * x + y * y + z * z
    return [[(w * w + x * x - y * y - z * z) / n, 2 * (x * y - w * z) / n, 2 * (x * z + w * y) / n],
            [2 * (x * y + w * z) / n, (w * w - x * x + y * y - z * z) / n, 2 * (y * z - w * x) / n],
            [2 * (x * z - w * y) / n, 2 * (y * z + w * x) / n, (w * w - x * x - y * y + z * z) / n]]


def apply_motion_exact(mot, nodes):
    """nodes: 3 x n list of Fractions -> exact image R p + t"""
    R = quat_matrix(mot["q"])
    t = [F(v) for v in mot["t"]]
    n = len(nodes[0])
    out = [[None] * n for _ in range(3)]
    for j in range(n):
        p = [nodes[0][j], nodes[1][j], nodes[2][j]]
        for i in range(3):
            out[i][j] = R[i][0] * p[0] + R[i][1] * p[1] + R[i][2] * p[2] + t[i]
    return out


def apply_motion(mot, nodes):
    """exact image, rounded once to binary64 (returned again as Fractions): the node coordinates the real code is given"""
    return [[F(float(v)) for v in row] for row in apply_motion_exact(mot, nodes)]


def gen_motion(rng):
    r = rng.random()
    if r < 0.08:
        q = [1, 0, 0, 0]
    elif r < 0.2:
        q = [0, 0, 0, 0]
        q[rng.randrange(1, 4)] = 1                      # half turn about an axis
    elif r < 0.32:
        q = [1, 0, 0, 0]
        q[rng.randrange(1, 4)] = rng.choice([1, -1])    # quarter turn about an axis
    else:
        while True:
            q = [rng.randint(-4, 4) for _ in range(4)]
            if any(q):
                break
    den = rng.choice([1, 2, 4, 8])
    mag = rng.choice([0, 1, 4, 32, 256])
    t = [frac(F(rng.randint(-mag * den, mag * den), den)) for _ in range(3)]
    return {"q": q, "t": t}


# ----------------------------------------------------------------------------- grids
def _topology(g):
    fn, cf = g.face_nodes.tocsc(), g.cell_faces.tocsc()
    return ({"indices": [int(i) for i in fn.indices], "indptr": [int(i) for i in fn.indptr]},
            {"indices": [int(i) for i in cf.indices], "indptr": [int(i) for i in cf.indptr], "data": [int(v) for v in cf.data]})


def _dy(rng, lo, hi, den):
    return F(rng.randint(lo * den, hi * den), den)


def _increasing(rng, n):
    den = rng.choice([1, 2, 4, 8])
    x = [_dy(rng, -3, 3, den)]
    for _ in range(n):
        x.append(x[-1] + F(rng.randint(1, 3 * den), den))
    return np.array([float(v) for v in x])


def _polys_to_grid(pts, polys):
    """2-D polygon mesh -> (fn, cf) with the porepy orientation convention (closed signed node loops)."""
    faces, fkey = [], {}
    ci, cp, cd = [], [0], []
    for loop in polys:
        for k in range(len(loop)):
            a, b = loop[k], loop[(k + 1) % len(loop)]
            key = (min(a, b), max(a, b))
            if key not in fkey:
                fkey[key] = len(faces)
                faces.append((a, b))
            f = fkey[key]
            ci.append(f)
            cd.append(1 if faces[f] == (a, b) else -1)
        cp.append(len(ci))
    fi = [n for f in faces for n in f]
    return ({"indices": fi, "indptr": list(range(0, 2 * len(faces) + 1, 2))}, {"indices": ci, "indptr": cp, "data": cd})


def _poly_meshes(rng):
    k = rng.randrange(7)
    if k == 6:    # chevron whose vertex mean (2, 31/32) lies just below the notch, i.e. outside the polygon: as a face of a prism
        # it has sub-triangles of negative orientation (sub_normals_sign = -1) while the prism's centre still sees all its faces
        pts = [(0, 0), (2, 1), (4, 0), (2, 23 / 8)]
        polys = [[0, 1, 2, 3]]
    elif k == 5:    # L with long arms: the average of the edge midpoints lies outside the cell (negative sub-simplices)
        pts = [(0, 0), (4, 0), (4, 1), (1, 1), (1, 4), (0, 4), (4, 4)]
        polys = [[0, 1, 2, 3, 4, 5]] + ([[3, 2, 6, 4]] if rng.random() < 0.5 else [])
    elif k == 0:    # L-shaped (non-convex) cell + the square filling the notch
        pts = [(0, 0), (2, 0), (2, 1), (1, 1), (1, 2), (0, 2), (2, 2)]
        polys = [[0, 1, 2, 3, 4, 5], [3, 2, 6, 4]]
    elif k == 1:  # pentagon with three triangles around it
        pts = [(0, 0), (2, 0), (3, 2), (1, 3), (-1, 2), (3, 0), (3, 3), (-1, 3)]
        polys = [[0, 1, 2, 3, 4], [1, 5, 2], [2, 6, 3], [3, 7, 4]]
    elif k == 2:  # arrow-shaped quadrilateral (non-convex) and its complement triangle
        pts = [(0, 0), (2, 1), (4, 0), (2, 4)]
        polys = [[0, 1, 2, 3], [0, 2, 1]]
    elif k == 3:  # random star-shaped polygon, one cell
        m = rng.randint(3, 8)
        angs = sorted(rng.sample(range(32), m))
        pts = []
        for a in angs:
            r = rng.choice([1, 1.5, 2, 3, 0.75])
            th = 2 * math.pi * a / 32
            pts.append((round(r * math.cos(th) * 16) / 16, round(r * math.sin(th) * 16) / 16))
        polys = [list(range(m))]
    else:         # a strip of mixed quadrilaterals / triangles
        n = rng.randint(1, 4)
        pts = [(i, 0) for i in range(n + 1)] + [(i + rng.choice([0, 0.25, -0.25]), 1 + rng.choice([0, 0.5])) for i in range(n + 1)]
        polys = []
        for i in range(n):
            a, b, c, d = i, i + 1, n + 2 + i, n + 1 + i
            if rng.random() < 0.5:
                polys.append([a, b, c, d])
            else:
                polys += [[a, b, c], [a, c, d]]
    return pts, polys


def _extrude(pts, polys, h):
    """prisms over a 2-D polygon mesh: nodes, fn, cf of the 3-D grid (faces with closed node loops, signs = outward)"""
    n = len(pts)
    nodes = np.array([[p[0] for p in pts] * 2, [p[1] for p in pts] * 2, [0.0] * n + [float(h)] * n], dtype=float)
    faces, fkey = [], {}
    ci, cp, cd = [], [0], []
    for loop in polys:
        faces.append(list(loop))                    # bottom, counter-clockwise: normal +z = inward
        ci.append(len(faces) - 1); cd.append(-1)
        faces.append([v + n for v in loop])         # top: normal +z = outward
        ci.append(len(faces) - 1); cd.append(1)
        for k in range(len(loop)):
            a, b = loop[k], loop[(k + 1) % len(loop)]
            key = (min(a, b), max(a, b))
            if key not in fkey:
                fkey[key] = (len(faces), (a, b))
                faces.append([a, b, b + n, a + n])  # outward for the cell that runs a -> b
            f, ab = fkey[key]
            ci.append(f); cd.append(1 if ab == (a, b) else -1)
        cp.append(len(ci))
    fi, fp = [], [0]
    for f in faces:
        fi += f
        fp.append(len(fi))
    return nodes, {"indices": fi, "indptr": fp}, {"indices": ci, "indptr": cp, "data": cd}


def gen_grid(rng, tier):
    """-> dict(dim, kind, nodes (3 x n floats), fn, cf, convex)"""
    import porepy as pp
    big = tier == "thorough"
    dim = rng.choice([1, 2, 2, 2, 3, 3])
    convex = True
    if dim == 1:
        n = rng.randint(1, 6 if big else 4)
        if rng.random() < 0.4:
            kind, g = "cart1", pp.CartGrid(np.array([n]), np.array([float(rng.choice([1, 2, 0.5, 3]))]))
        else:
            kind, g = "tensor1", pp.TensorGrid(_increasing(rng, n))
        nodes = g.nodes.copy()
    elif dim == 2:
        r = rng.random()
        nx, ny = rng.randint(1, 4 if big else 3), rng.randint(1, 4 if big else 3)
        if r < 0.2:
            kind, g = "cart2", pp.CartGrid(np.array([nx, ny]), np.array([float(rng.choice([1, 2, 3])), float(rng.choice([1, 0.5, 2]))]))
        elif r < 0.35:
            kind, g = "tensor2", pp.TensorGrid(_increasing(rng, nx), _increasing(rng, ny))
        elif r < 0.55:
            kind, g = "tri_struct", pp.StructuredTriangleGrid(np.array([nx, ny]), np.array([float(rng.choice([1, 2])), float(rng.choice([1, 3]))]))
        elif r < 0.7:
            m = rng.randint(3, 9 if big else 7)
            while True:
                p = np.array([[rng.randint(-16, 16) / 4 for _ in range(m)] for _ in range(2)])
                if len({(a, b) for a, b in p.T}) == m and np.linalg.matrix_rank(p[:, 1:] - p[:, :1]) == 2:
                    break
            kind, g = "tri_delaunay", pp.TriangleGrid(p)
        else:
            kind, g = "poly", None
        if g is not None:
            nodes = g.nodes.copy()
            fn, cf = _topology(g)
            if rng.random() < 0.4:      # perturb the nodes (dyadic, small w.r.t. the smallest spacing): cells stay convex
                kind += "+pert"
                h = min(np.min(np.diff(np.unique(nodes[0]))), np.min(np.diff(np.unique(nodes[1])))) if "delaunay" not in kind else 0.25
                for j in range(nodes.shape[1]):
                    nodes[0, j] += h * rng.randint(-2, 2) / 16
                    nodes[1, j] += h * rng.randint(-2, 2) / 16
        else:
            pts, polys = _poly_meshes(rng)
            nodes = np.array([[p[0] for p in pts], [p[1] for p in pts], [0.0] * len(pts)], dtype=float)
            fn, cf = _polys_to_grid(pts, polys)
            convex = False
        return {"dim": 2, "kind": kind, "nodes": nodes, "fn": fn, "cf": cf, "convex": convex}
    else:
        r = rng.random()
        if r < 0.15:     # prisms over a polygon mesh: non-convex faces, sub-triangles of either sign
            pts, polys = _poly_meshes(rng)
            nodes, fn, cf = _extrude(pts, polys, rng.choice([1, 0.5, 2]))
            return {"dim": 3, "kind": "prism3", "nodes": nodes, "fn": fn, "cf": cf, "convex": False}
        r = rng.random()
        if r < 0.25:
            dims = rng.choice([[1, 1, 1], [2, 1, 1], [1, 2, 1], [2, 2, 1], [1, 1, 3], [2, 2, 2] if big else [1, 2, 2]])
            kind, g = "cart3", pp.CartGrid(np.array(dims), np.array([float(rng.choice([1, 2])), float(rng.choice([1, 0.5])), float(rng.choice([1, 3]))]))
        elif r < 0.4:
            kind, g = "tensor3", pp.TensorGrid(_increasing(rng, rng.randint(1, 2)), _increasing(rng, rng.randint(1, 2)), _increasing(rng, 1))
        elif r < 0.6:
            dims = rng.choice([[1, 1, 1], [2, 1, 1], [1, 1, 2]])
            kind, g = "tet_struct", pp.StructuredTetrahedralGrid(np.array(dims), np.array([float(rng.choice([1, 2])), 1.0, float(rng.choice([1, 0.5]))]))
        elif r < 0.8:
            m = rng.randint(4, 7)
            while True:
                p = np.array([[rng.randint(-8, 8) / 4 for _ in range(m)] for _ in range(3)])
                if len({tuple(c) for c in p.T}) == m and np.linalg.matrix_rank(p[:, 1:] - p[:, :1]) == 3:
                    break
            kind, g = "tet_delaunay", pp.TetrahedralGrid(p)
        else:
            dims = rng.choice([[1, 1, 1], [2, 1, 1], [1, 2, 2]])
            kind, g = "cart3+pert", pp.CartGrid(np.array(dims))
        nodes = g.nodes.copy()
        if kind == "cart3+pert":    # non-planar quadrilateral faces
            for j in range(nodes.shape[1]):
                for i in range(3):
                    nodes[i, j] += rng.randint(-2, 2) / 16
    fn, cf = _topology(g)
    return {"dim": dim, "kind": kind, "nodes": nodes, "fn": fn, "cf": cf, "convex": convex}


def _reverse_faces(fn, faces):
    ind = list(fn["indices"])
    for f in faces:
        a, b = fn["indptr"][f], fn["indptr"][f + 1]
        ind[a:b] = ind[a:b][::-1]
    return {"indices": ind, "indptr": list(fn["indptr"])}


def _two_patches(rng, g1, g2):
    """disjoint union of two 2-D grids (second one shifted to the right of the first)"""
    n1, f1 = g1["nodes"].shape[1], len(g1["fn"]["indptr"]) - 1
    shift = float(np.max(g1["nodes"][0]) - np.min(g2["nodes"][0]) + rng.choice([1, 2, 0.5]))
    nodes2 = g2["nodes"].copy()
    nodes2[0] += shift
    nodes = np.hstack([g1["nodes"], nodes2])
    fn = {"indices": g1["fn"]["indices"] + [i + n1 for i in g2["fn"]["indices"]],
          "indptr": g1["fn"]["indptr"] + [p + g1["fn"]["indptr"][-1] for p in g2["fn"]["indptr"][1:]]}
    cf = {"indices": g1["cf"]["indices"] + [i + f1 for i in g2["cf"]["indices"]],
          "indptr": g1["cf"]["indptr"] + [p + g1["cf"]["indptr"][-1] for p in g2["cf"]["indptr"][1:]],
          "data": g1["cf"]["data"] + g2["cf"]["data"]}
    return nodes, fn, cf, list(range(f1, f1 + len(g2["fn"]["indptr"]) - 1))


def gen_case(rng, tier):
    if rng.random() < 0.04:
        return gen_point_case(rng)
    g = gen_grid(rng, tier)
    variant = "plain"
    nodes, fn, cf = g["nodes"], g["fn"], g["cf"]
    if g["dim"] == 2:
        nf = len(fn["indptr"]) - 1
        r = rng.random()
        if r < 0.12:
            variant, fn = "all-reversed", _reverse_faces(fn, range(nf))
        elif r < 0.3 and g["convex"]:
            variant = "some-reversed"     # check 1 fails -> compute_normal + convex fallback
            fn = _reverse_faces(fn, rng.sample(range(nf), rng.randint(1, max(1, nf // 2))))
        elif r < 0.45 and g["convex"]:
            # two disconnected patches, the second with reversed orientation: same patch twice -> areas cancel exactly (check 2),
            # different patches -> check 3 (negative volumes)
            same = rng.random() < 0.5
            for _ in range(20):
                g2 = g if same else gen_grid(rng, tier)
                if g2["dim"] == 2 and g2["convex"]:
                    break
            else:
                g2, same = g, True
            variant = "patch-flip-equal" if same else "patch-flip"
            nodes, fn, cf, f2 = _two_patches(rng, g, g2)
            fn = _reverse_faces(fn, f2)
    strata = []
    if g["dim"] < 3 and variant == "plain" and rng.random() < 0.12:
        # a node that no face uses (in the line / plane of the grid): only compute_tangent / compute_normal / the mean see it
        strata.append("extra-node")
        nodes = np.hstack([nodes, (2 * nodes[:, -1] - nodes[:, 0] + (nodes[:, nodes.shape[1] // 2] - nodes[:, 0]) * (g["dim"] - 1)).reshape(3, 1)])
    if rng.random() < 0.15:
        strata.append("permuted")
        nodes, fn, cf = _permute(rng, nodes, fn, cf)
    case = {"dim": g["dim"], "kind": g["kind"], "variant": variant,
            "nodes": [[frac(v) for v in row] for row in nodes], "fn": fn, "cf": cf, "motion": gen_motion(rng)}
    if rng.random() < 0.4:
        case["pre"] = gen_motion(rng)
    if rng.random() < 0.15:
        strata.append("scaled")
        case["scale"] = rng.choice([-20, -10, 10, 20])     # all coordinates (and the translation) times 2^k (2^30 * 256 exceeds what map_grid's absolute planarity tolerance 1e-5 admits)
    if len(cf["indptr"]) - 1 == 1:
        strata.append("single-cell")
    case["strata"] = strata
    return case


def gen_point_case(rng):
    """0-d grid (PointGrid): the fourth branch of compute_geometry"""
    pt = [[frac(F(rng.randint(-64, 64), rng.choice([1, 2, 8])))] for _ in range(3)]
    return {"dim": 0, "kind": "point0", "variant": "plain", "nodes": pt, "fn": {"indices": [], "indptr": [0]}, "cf": {"indices": [], "indptr": [0, 0], "data": []},
            "motion": gen_motion(rng), "strata": ["size-0-faces"]}


def _permute(rng, nodes, fn, cf):
    """renumber nodes, faces and cells at random (node order inside a face and face order inside a cell are kept)"""
    nn, nf, nc = nodes.shape[1], len(fn["indptr"]) - 1, len(cf["indptr"]) - 1
    pn, pf, pc = list(range(nn)), list(range(nf)), list(range(nc))
    rng.shuffle(pn); rng.shuffle(pf); rng.shuffle(pc)          # new index i holds old entity p[i]
    inv_n = {old: new for new, old in enumerate(pn)}
    inv_f = {old: new for new, old in enumerate(pf)}
    nodes2 = nodes[:, pn]
    fi, fp = [], [0]
    for f in pf:
        fi += [inv_n[k] for k in fn["indices"][fn["indptr"][f]:fn["indptr"][f + 1]]]
        fp.append(len(fi))
    ci, cd, cp = [], [], [0]
    for c in pc:
        a, b = cf["indptr"][c], cf["indptr"][c + 1]
        ci += [inv_f[k] for k in cf["indices"][a:b]]
        cd += cf["data"][a:b]
        cp.append(len(ci))
    return nodes2, {"indices": fi, "indptr": fp}, {"indices": ci, "indptr": cp, "data": cd}


# ----------------------------------------------------------------------------- running the real code
def base_nodes(case):
    nodes = [[F(v) for v in row] for row in case["nodes"]]
    if case.get("pre"):
        nodes = apply_motion(case["pre"], nodes)
    return nodes


def has_zero_subtriangle(case):
    """3-d: some face has an edge collinear with the mean of the face's nodes (e.g. the L-shaped face, whose node mean is its
    re-entrant corner): a sub-triangle of exactly zero area, hence sub-tetrahedra of exactly zero volume"""
    if case["dim"] != 3:
        return False
    nodes = [[F(v) for v in row] for row in case["nodes"]]
    fn = case["fn"]
    for f in range(len(fn["indptr"]) - 1):
        ns = fn["indices"][fn["indptr"][f]:fn["indptr"][f + 1]]
        P = [[nodes[i][k] for i in range(3)] for k in ns]
        c = [sum(p[i] for p in P) / len(P) for i in range(3)]
        for j in range(len(P)):
            p, q = P[j], P[(j + 1) % len(P)]
            u, w = [q[i] - p[i] for i in range(3)], [c[i] - p[i] for i in range(3)]
            if (u[1] * w[2] - u[2] * w[1], u[2] * w[0] - u[0] * w[2], u[0] * w[1] - u[1] * w[0]) == (0, 0, 0):
                return True
    return False


def sigma(case):
    return F(2) ** int(case.get("scale", 0))


def both_nodes(case):
    """node coordinates of the reference and of the moved grid as given to the code; with case["scale"] = k both (and thus the
    translation) are multiplied by 2^k, which is exact in binary64"""
    b = base_nodes(case)
    m = apply_motion(case["motion"], b)
    sg = sigma(case)
    if sg != 1:
        b, m = [[v * sg for v in row] for row in b], [[v * sg for v in row] for row in m]
    return b, m


def build_grid(case, nodes):
    import porepy as pp
    import scipy.sparse as sps
    xyz = np.array([[float(v) for v in row] for row in nodes], dtype=float).reshape(3, -1)
    nn = xyz.shape[1]
    if case["dim"] == 0:
        return pp.PointGrid(xyz[:, 0])
    fn, cf = case["fn"], case["cf"]
    nf, nc = len(fn["indptr"]) - 1, len(cf["indptr"]) - 1
    fnm = sps.csc_matrix((np.ones(len(fn["indices"]), dtype=bool), np.array(fn["indices"], dtype=int), np.array(fn["indptr"], dtype=int)), shape=(nn, nf))
    cfm = sps.csc_matrix((np.array(cf["data"], dtype=int), np.array(cf["indices"], dtype=int), np.array(cf["indptr"], dtype=int)), shape=(nf, nc))
    return pp.Grid(case["dim"], xyz, fnm, cfm, "c20")


def geometry(case, nodes, repeat=False):
    """compute_geometry on the real code -> dict of plain float lists, or {"err": kind}"""
    g = build_grid(case, nodes)
    try:
        with warnings.catch_warnings():
            warnings.simplefilter("ignore")
            with np.errstate(all="ignore"):
                g.compute_geometry()
    except Exception as e:
        return err_kind(e)
    out = {"fa": [float(v) for v in g.face_areas], "fc": [[float(v) for v in c] for c in g.face_centers.T],
           "fn": [[float(v) for v in c] for c in g.face_normals.T], "cv": [float(v) for v in g.cell_volumes],
           "cc": [[float(v) for v in c] for c in g.cell_centers.T]}
    if repeat:   # repeated operation: a second compute_geometry on the same object must reproduce the fields bit for bit
        # (checked before cell_diameters(): that query sorts the stored indices of cell_faces in place, which changes summation order)
        with warnings.catch_warnings():
            warnings.simplefilter("ignore")
            with np.errstate(all="ignore"):
                g.compute_geometry()
        again = {"fa": [float(v) for v in g.face_areas], "fc": [[float(v) for v in c] for c in g.face_centers.T],
                 "fn": [[float(v) for v in c] for c in g.face_normals.T], "cv": [float(v) for v in g.cell_volumes],
                 "cc": [[float(v) for v in c] for c in g.cell_centers.T]}
        out["idempotent"] = all(np.array_equal(np.array(out[k]), np.array(again[k]), equal_nan=True) for k in again)
    if case["dim"] > 0:
        try:
            out["diam"] = [float(v) for v in g.cell_diameters()]
        except Exception as e:
            out["diam"] = type(e).__name__
    return _unscale(case, out)


def mapgrid_impl(case, nodes):
    """compute_geometry + map_grid on the real code -> rotation, active dimensions, local coordinates (or {"err": kind})"""
    import porepy as pp
    g = build_grid(case, nodes)
    try:
        with warnings.catch_warnings():
            warnings.simplefilter("ignore")
            with np.errstate(all="ignore"):
                g.compute_geometry()
                cc, fn, fc, R, dim, nd = pp.map_geometry.map_grid(g)
    except Exception as e:
        return err_kind(e)
    cols = lambda a: [[float(v) for v in c] for c in np.atleast_2d(a).T]
    return _unscale(case, {"R": [[float(v) for v in row] for row in R], "dim": [bool(d) for d in dim], "cc": cols(cc), "fn": cols(fn), "fc": cols(fc), "nodes": cols(nd)})


def impl_run(case):
    b, m = both_nodes(case)
    out = {"base": geometry(case, b), "moved": geometry(case, m)}
    if 0 < case["dim"] < 3:
        out["map_base"], out["map_moved"] = mapgrid_impl(case, b), mapgrid_impl(case, m)
    return out


# ----------------------------------------------------------------------------- oracle: the equivariance statement on the real code
def _scale(case, nodes):
    return max(1.0, max(abs(float(v / sigma(case))) for row in nodes for v in row))


def _unscale(case, fields):
    """divide the fields of a grid whose coordinates were multiplied by 2^k by the matching power (exact), so that tolerances
    can be those of the unscaled grid"""
    sg = sigma(case)
    if sg == 1 or not isinstance(fields, dict) or "err" in fields or "skipped" in fields:
        return fields
    d = case["dim"]
    pw = {"fa": d - 1, "fn": d - 1, "cv": d, "fc": 1, "cc": 1, "nodes": 1, "diam": 1}
    def div(x, k):
        if isinstance(x, list):
            return [div(y, k) for y in x]
        return F(x) / sg ** k if isinstance(x, str) else float(F(x) / sg ** k)
    out = {}
    for k, v in fields.items():
        if k in ("fa", "fn") and d == 1:
            out[k] = v
        elif k in pw:
            out[k] = div(v, pw[k])
        else:
            out[k] = v
    return out


def oracle(case):
    b, m = both_nodes(case)
    g0, g1 = geometry(case, b, repeat=True), geometry(case, m, repeat=True)
    tag = f"{case['dim']}d:{case.get('variant', 'plain')}"
    for gg in (g0, g1):
        if gg.get("idempotent") is False:
            return {"what": f"a second compute_geometry() on the same grid changed the fields ({case['kind']})", "key": f"{tag}:not-idempotent"}
    if "err" in g0 or "err" in g1:
        if g0 == g1:
            return None
        key = f"{tag}:error-not-invariant"
        if {g0.get("err", "ok"), g1.get("err", "ok")} == {"ok", "ValueError"} and has_zero_subtriangle(case):
            key = "3d:ValueError-depends-on-motion:zero-volume-subtetrahedron-vs-absolute-tolerance"
        return {"what": f"compute_geometry: reference grid gives {g0.get('err', 'a result')}, moved grid gives {g1.get('err', 'a result')} ({case['kind']})",
                "key": key}
    R = np.array([[float(v) for v in row] for row in quat_matrix(case["motion"]["q"])])
    t = np.array([float(F(v)) for v in case["motion"]["t"]])
    s = max(_scale(case, b), _scale(case, m))
    L = max(1.0, max(g0["fa"], default=1.0))

    def bad(a, bb, tol):
        a, bb = np.asarray(a, dtype=float), np.asarray(bb, dtype=float)
        if a.shape != bb.shape:
            return True
        if a.size == 0:
            return False
        return not np.all(np.abs(a - bb) <= tol)

    for name, fld, tol in (("cell_volumes", "cv", TOL * s * L * L), ("face_areas", "fa", TOL * s * L)):
        if bad(g0[fld], g1[fld], tol * max(1.0, np.max(np.abs(g0[fld]), initial=0.0))):
            i = int(np.argmax(np.abs(np.array(g0[fld]) - np.array(g1[fld]))))
            return {"what": f"{name}[{i}] = {g0[fld][i]!r} before and {g1[fld][i]!r} after the motion ({case['kind']}, {case.get('variant')})", "key": f"{tag}:{name}-not-invariant"}
    for name, fld in (("cell_centers", "cc"), ("face_centers", "fc")):
        want = (R @ np.array(g0[fld]).reshape(-1, 3).T).T + t
        if bad(want, np.array(g1[fld]).reshape(-1, 3), TOL * s * 10):
            i = int(np.argmax(np.max(np.abs(want - np.array(g1[fld]).reshape(-1, 3)), axis=1)))
            return {"what": f"{name}[{i}] = {g1[fld][i]} after the motion, expected the moved reference centre {want[i].tolist()} ({case['kind']}, {case.get('variant')})",
                    "key": f"{tag}:{name}-not-equivariant"}
    want = (R @ np.array(g0["fn"]).reshape(-1, 3).T).T
    if bad(want, np.array(g1["fn"]).reshape(-1, 3), TOL * s * L * 10):
        i = int(np.argmax(np.max(np.abs(want - np.array(g1["fn"]).reshape(-1, 3)), axis=1)))
        return {"what": f"face_normals[{i}] = {g1['fn'][i]} after the motion, expected the rotated reference normal {want[i].tolist()} ({case['kind']}, {case.get('variant')})",
                "key": f"{tag}:face_normals-not-equivariant"}
    if "diam" in g0:
        d0, d1 = g0["diam"], g1.get("diam")
        if isinstance(d0, str) or isinstance(d1, str):
            if d0 != d1:
                return {"what": f"cell_diameters: {d0!r} before, {d1!r} after the motion", "key": f"{tag}:cell_diameters-error-not-invariant"}
        elif bad(d0, d1, TOL * s * 10):
            return {"what": f"cell_diameters {d0} before and {d1} after the motion ({case['kind']})", "key": f"{tag}:cell_diameters-not-invariant"}
    if 0 < case["dim"] < 3:
        return _mapgrid_check(case, m, tag)
    return None


def _mapgrid_check(case, nodes, tag):
    """oracle only: map_grid / project_plane_matrix / project_line_matrix on the embedded grid give an isometric local copy"""
    import porepy as pp
    g = build_grid(case, nodes)
    try:
        with warnings.catch_warnings():
            warnings.simplefilter("ignore")
            g.compute_geometry()
    except Exception:
        return None
    try:
        cc, fn, fc, R, dim, nd = pp.map_geometry.map_grid(g)
    except Exception as e:
        return {"what": f"map_grid raised {type(e).__name__} on the embedded grid ({case['kind']}, {case.get('variant')})", "key": f"{tag}:map_grid-raises"}
    s = max(1.0, float(np.max(np.abs(g.nodes))))
    if not (np.allclose(R.T @ R, np.eye(3), atol=1e-10) and abs(np.linalg.det(R) - 1) < 1e-10):
        return {"what": "map_grid: the projection matrix is not a proper rotation", "key": f"{tag}:map_grid-not-rotation"}
    d3 = np.linalg.norm(g.nodes[:, :, None] - g.nodes[:, None, :], axis=0)
    d2 = np.linalg.norm(nd[:, :, None] - nd[:, None, :], axis=0)
    c3 = np.linalg.norm(g.cell_centers[:, :, None] - g.face_centers[:, None, :], axis=0)
    c2 = np.linalg.norm(cc[:, :, None] - fc[:, None, :], axis=0)
    if int(np.sum(dim)) != g.dim or not np.allclose(d3, d2, atol=1e-9 * s) or not np.allclose(c3, c2, atol=1e-9 * s) \
            or not np.allclose(np.linalg.norm(fn, axis=0), np.linalg.norm(g.face_normals, axis=0), atol=1e-9 * s):
        return {"what": f"map_grid: local coordinates of the embedded grid are not an isometric copy ({case['kind']}, {case.get('variant')})", "key": f"{tag}:map_grid-not-isometric"}
    return None


def nontrivial(case):
    q = case["motion"]["q"]
    return any(q[1:])


# ----------------------------------------------------------------------------- model side: resolve the grid for the driver
def _v(nodes, j):
    return [frac(nodes[0][j]), frac(nodes[1][j]), frac(nodes[2][j])]


def resolve(case, nodes):
    """gather node coordinates per face and faces per cell, in csc storage order (the numpy/scipy glue of the code)"""
    fn, cf, dim = case["fn"], case["cf"], case["dim"]
    nn = len(nodes[0])
    if dim == 0:
        return {"nodes": [], "centers": [_v(nodes, 0)]}     # PointGrid(pt): no nodes, the point is the cell centre
    nf, nc = len(fn["indptr"]) - 1, len(cf["indptr"]) - 1
    fnodes = [fn["indices"][fn["indptr"][f]:fn["indptr"][f + 1]] for f in range(nf)]
    ccols = [[(cf["indices"][k], cf["data"][k]) for k in range(cf["indptr"][c], cf["indptr"][c + 1])] for c in range(nc)]
    if dim == 1:
        # face_centers = nodes[:, face_nodes.indices]; cells pair up cell_faces.indices[::2] / [1::2]
        flat = [x for col in ccols for x in col]
        cells = [[{"f": f, "s": s, "x": _v(nodes, fn["indices"][f])} for f, s in flat[2 * c:2 * c + 2]] for c in range(len(flat) // 2)]
        return {"nodes": [_v(nodes, j) for j in range(nn)], "faces": [_v(nodes, j) for j in fn["indices"]], "cells": cells}
    if dim == 2:
        return {"nodes": [_v(nodes, j) for j in range(nn)],
                "faces": [[_v(nodes, ns[0]), _v(nodes, ns[1])] for ns in fnodes],
                "cells": [[{"f": f, "s": s, "n0": fnodes[f][0], "n1": fnodes[f][1], "a": _v(nodes, fnodes[f][0]), "b": _v(nodes, fnodes[f][1])}
                           for f, s in col] for col in ccols]}
    return {"faces": [[_v(nodes, j) for j in ns] for ns in fnodes],
            "cells": [[{"s": s, "ps": [_v(nodes, j) for j in fnodes[f]]} for f, s in col] for col in ccols]}


_MAPSTAT = {"compared": 0, "skipped_argmax_tie": 0, "errors": 0}   # filled by compare(), reported by stats()
MARGIN = 1e-7   # below this relative gap an argmax inside compute_tangent / compute_normal may be decided differently by rounding


def model_ops(case):
    b, m = both_nodes(case)
    rb, rm = resolve(case, b), resolve(case, m)
    ops = [{"op": "geom", "dim": case["dim"], "grid": rb}, {"op": "geom", "dim": case["dim"], "grid": rm},
           {"op": "motion", "q": [str(v) for v in case["motion"]["q"]], "t": case["motion"]["t"], "pts": [_v(b, j) for j in range(len(b[0]))]}]
    if case["dim"] > 0:
        ops += [{"op": "diam", "cells": _cell_nodes(case, b)}, {"op": "diam", "cells": _cell_nodes(case, m)}]
    if 0 < case["dim"] < 3:
        ops += [{"op": "mapgrid", "dim": case["dim"], "grid": rb}, {"op": "mapgrid", "dim": case["dim"], "grid": rm}]
    return ops


def _cell_nodes(case, nodes):
    """node coordinates of every cell (g.cell_nodes(): the nodes of its faces, each once)"""
    fn, cf = case["fn"], case["cf"]
    out = []
    for c in range(len(cf["indptr"]) - 1):
        ns = sorted({k for f in cf["indices"][cf["indptr"][c]:cf["indptr"][c + 1]] for k in fn["indices"][fn["indptr"][f]:fn["indptr"][f + 1]]})
        out.append([_v(nodes, k) for k in ns])
    return out


def _decode_map(o):
    """mask the rotated fields with the active dimensions, as map_grid does; flag unsafe argmax decisions"""
    if "err" in o:
        return o
    if float(F(o["margin"])) < MARGIN:
        return {"skipped": "argmax-tie"}
    act = [i for i in range(3) if o["dim"][i]]
    pick = lambda pts: [[p[i] for i in act] for p in pts]
    return {"R": o["R"], "dim": o["dim"], "cc": pick(o["cc"]), "fn": pick(o["fn"]), "fc": pick(o["fc"]), "nodes": pick(o["nodes"])}


def model_decode(outs, case):
    d = {"base": dict(outs[0]), "moved": dict(outs[1]), "motion": outs[2]}
    if case["dim"] > 0:
        for k, o in (("base", outs[3]), ("moved", outs[4])):
            if "err" not in d[k]:
                d[k]["diam"] = o
    if 0 < case["dim"] < 3:
        d["map_base"], d["map_moved"] = _decode_map(outs[5]), _decode_map(outs[6])
    return {k: (_unscale(case, v) if k != "motion" else v) for k, v in d.items()}


def compare(impl, model, case):
    if "harness_exc" in impl:
        return "harness exception in impl_run: " + impl["harness_exc"]
    b, m = both_nodes(case)
    # the harness' motion is the model's `act (quatMat q, t)`, exactly, and the model decides it is a proper rotation
    ex = apply_motion_exact(case["motion"], b)
    want = {"isrot": True, "pts": [[frac(ex[0][j]), frac(ex[1][j]), frac(ex[2][j])] for j in range(len(b[0]))]}
    d = deep_compare(want, model.get("motion") if isinstance(model, dict) else None, path="motion")
    if d:
        return d
    for k in ("base", "moved"):     # the decidable hypotheses of the theorems (wf1 / wf2 / wf3) hold for the grid the driver was given
        if isinstance(model.get(k), dict) and "err" not in model[k]:
            if model[k].get("hyp") is not True:
                return f"{k}: the hypothesis of the equivariance theorem (wf{case['dim']}) is false for this grid"
            _MAPSTAT["hypotheses_checked"] = _MAPSTAT.get("hypotheses_checked", 0) + 1
    model = {k: ({kk: vv for kk, vv in v.items() if kk != "hyp"} if isinstance(v, dict) else v) for k, v in model.items()}
    impl = {k: ({kk: vv for kk, vv in v.items() if kk != "idempotent"} if isinstance(v, dict) else v) for k, v in impl.items()}
    s = max(_scale(case, b), _scale(case, m))
    keys = ["base", "moved"] + [k for k in ("map_base", "map_moved") if k in model and "skipped" not in model[k]]
    for k in ("map_base", "map_moved"):
        if k in model:
            _MAPSTAT["skipped_argmax_tie" if "skipped" in model[k] else "errors" if "err" in model[k] else "compared"] += 1
    return deep_compare({k: impl.get(k) for k in keys}, {k: model[k] for k in keys}, tol=CTOL * s)


def signature(case):
    import json
    return json.dumps({k: case[k] for k in ("dim", "nodes", "fn", "cf", "motion", "scale") if k in case} | {"pre": case.get("pre")}, sort_keys=True)


def shrink_candidates(case):
    if case.get("pre"):
        c = dict(case)
        c.pop("pre")
        yield c
    m = case["motion"]
    if any(F(v) != 0 for v in m["t"]):
        yield dict(case, motion={"q": m["q"], "t": ["0", "0", "0"]})
    for q in ([1, 1, 0, 0], [1, 0, 1, 0], [1, 0, 0, 1], [0, 1, 0, 0], [0, 0, 1, 0], [1, 1, 1, 0], [1, 2, 0, 0]):
        if q != m["q"]:
            yield dict(case, motion={"q": q, "t": m["t"]})


def stats(cases, impl_outs):
    from collections import Counter
    kinds = Counter(f"{c['dim']}d:{c['kind']}" for c in cases)
    variants = Counter(c.get("variant", "plain") for c in cases if c["dim"] == 2)
    rots = Counter("identity" if not any(c["motion"]["q"][1:]) else "half-turn" if c["motion"]["q"][0] == 0 and sum(1 for v in c["motion"]["q"] if v) == 1
                   else "quarter-turn" if sorted(map(abs, c["motion"]["q"])) == [0, 0, 1, 1] and c["motion"]["q"][0] else "generic" for c in cases)
    errs = Counter(o["base"].get("err") for o in impl_outs if isinstance(o, dict) and "base" in o and "err" in o["base"])
    cells = [len(c["cf"]["indptr"]) - 1 for c in cases if c["dim"] > 0]
    return {"grid_kinds": dict(kinds), "variants_2d": dict(variants), "rotations": dict(rots), "pre_embedded": sum(1 for c in cases if c.get("pre")),
            "errors_raised_by_reference": {str(k): v for k, v in errs.items()}, "cells_min_max": [min(cells, default=0), max(cells, default=0)],
            "map_grid_comparisons": dict(_MAPSTAT),
            "strata": dict(Counter(st for c in cases for st in c.get("strata", []))),
            "scales_2^k": dict(Counter(str(c["scale"]) for c in cases if "scale" in c)),
            "max_translation": max((abs(float(F(v))) for c in cases for v in c["motion"]["t"]), default=0)}
