"""C32 Coordinate maps and tangential-normal bases are orthonormal.

map_geometry: rotation_matrix, project_plane_matrix, project_line_matrix, compute_normal, compute_tangent,
compute_normals_1d, map_grid;  tangential_normal_projection.TangentialNormalProjection."""
import math
import warnings
from fractions import Fraction

import numpy as np

from harness.common import frac, err_kind

PID = "C32"
THEOREMS = [
    "PorepyVerif.C32.rotation_matrix_formula_orthogonal",
    "PorepyVerif.C32.rotationMatrix_eq_rodrigues",
    "PorepyVerif.C32.rotation_matrix_orthogonal",
    "PorepyVerif.C32.rotation_maps_n_to_ref",
    "PorepyVerif.C32.rotation_preserves_dist",
    "PorepyVerif.C32.project_plane_third_coord_const",
    "PorepyVerif.C32.project_matrix_orthogonal",
    "PorepyVerif.C32.project_matrix_maps_normal_to_axis",
    "PorepyVerif.C32.compute_normal_orthogonal",
    "PorepyVerif.C32.compute_tangent_on_line",
    "PorepyVerif.C32.normals_1d_orthogonal",
    "PorepyVerif.C32.tn_projection_blocks_orthonormal",
    "PorepyVerif.C32.tn_projection_det",
    "PorepyVerif.C32.tn3_tangents_orthogonal",
    "PorepyVerif.C32.tn2_projection_orthonormal",
    "PorepyVerif.C32.sin_cos_arccos",
    "PorepyVerif.C32.rotation_matrix_real_eq_rodrigues",
    "PorepyVerif.C32.gram_schmidt_orthonormal",
    "PorepyVerif.C32.gram_schmidt_orthonormal_real",
    "PorepyVerif.C32.force_point_collinearity_spec",
    "PorepyVerif.C32.force_point_collinearity_real",
]
LEAN_MODULES = ["PorepyVerif.C32.Props"]
AUDIT = "PorepyVerif/C32/Audit.lean"
DRIVER = "PorepyVerif/C32/Driver.lean"
N = {"quick": 500, "thorough": 12000}
RULE = ("six kinds of cases. rot: rotation_matrix(a, vect) for rational points (sin a, cos a) of the unit circle (Pythagorean "
        "triples, also a = 0, pi/2, pi) and float axes (axis-aligned, tiny, huge, generic). dir: project_plane_matrix / "
        "project_line_matrix with a given normal / tangent: Pythagorean-quadruple directions, axis-aligned, exactly parallel and "
        "anti-parallel to the reference, nearly (anti-)parallel with |n x ref| from 1e-12 to 1e-3, arbitrary irrational non-unit "
        "floats; reference default, a coordinate axis, or a unit vector. plane: planar point clouds (3-9 points, duplicates, "
        "large offsets, tiny scale, nearly horizontal, axis-aligned, symmetric = argmax ties) plus malformed ones (<3 points, "
        "collinear, non-planar). line: collinear point sets (2-6 points, along z / -z / x / generic, symmetric) plus coincident "
        "points. tn: TangentialNormalProjection for 1-5 normals in 2-D / 3-D (random, small integers with ties in |n_i|, +-axes, "
        "nearly axis-aligned with off-axis norm log-uniform in 1e-9..1e-2 (a quarter of the normals), scaled), with num=None and num=k. grid: map_grid on 1-D / 2-D Cartesian grids rotated into a "
        "rational plane / line. fpc: force_point_collinearity on 2-7 exactly or nearly collinear points (noise 1e-10..1e-2, "
        "first point at an extremum or inside, shuffled, duplicates). Non-trivial = everything except exact axis-aligned identity cases; distinct = distinct inputs.")
TRUSTED = [
    "modelled, not verified in the executable (rational) model: x/|x| (square roots) and arccos/sin/cos of the rotation angle: "
    "the rational theorems take unit vectors and (sin a, cos a) with s^2+c^2=1 as hypotheses and the Lean driver normalises with "
    "a 30-digit rational square root; the real-number theorems rotation_matrix_real_eq_rodrigues (Real.sqrt, arccos, sin, cos as "
    "coded), gram_schmidt_orthonormal(_real) and force_point_collinearity_real close that gap on the proof side, "
    "np.linalg.inv (modelled as the exact Cramer inverse), numpy argmax on values that tie up to rounding (model reports ties; "
    "either sign of the computed normal / tangent is then accepted), scipy block-diagonal assembly (modelled on dense rows), "
    "binary64 rounding (comparison with tolerance 1e-9)",
    "knife edge: where |n x ref| < 1e-6 the code's own parallel threshold (1e-8, identity returned) and the conditioning of "
    "arccos limit the accuracy of 'R n = ref' to about 3e-8; there the oracle and the comparison use 5e-8 for that statement "
    "(orthogonality, determinant and distance preservation are always checked to 1e-9); likewise 3e-8 for the 3-D basis of a "
    "normal within 1e-8 of a coordinate axis",
]
EXPLANATION = ("CORE: the rotation of project_plane_matrix/project_line_matrix is modelled by the rational Rodrigues matrix "
               "between unit vectors; theorems: orthogonal, det 1, maps n to ref (n || ref read as +-ref for the identity "
               "fallback), distances preserved, last coordinate constant on planes, computed normals/tangents orthogonal to "
               "the set, tangential-normal blocks orthonormal (2-D determinant is the sign fixed by the code's documented "
               "tangent convention); over the reals: rotation_matrix(arccos(n.r), n x r) as coded equals the rational Rodrigues matrix, "
               "Gram-Schmidt of the 3-D basis with the square roots inside is orthonormal, force_point_collinearity keeps distances to "
               "the first point and the order along the line. Correspondence compares all matrices, normals and mapped points with tolerance 1e-9.")
ASSUMPTIONS = [
    "the reference vector handed to project_plane_matrix / project_line_matrix is a unit vector (the code does not normalise it)",
    "'unit determinant' of a 2-D tangential-normal block is read as |det| = 1: the code deliberately orients the tangent "
    "towards +x, which gives det = -1 for normals pointing downwards (theorem tn2_projection_orthonormal states the sign)",
]

TOL = 1e-9
BAND = 1e-6        # |n x ref| below which 'R n = ref' is limited by the code's own 1e-8 threshold
TOL_BAND = 5e-8
EZ = [0.0, 0.0, 1.0]


# ----------------------------------------------------------------------------- generators
def _q(rng, lo=-6, hi=6, dens=(1, 2, 3, 4, 5, 8)):
    return Fraction(rng.randint(lo, hi), rng.choice(dens))


def _unit_rational(rng):
    """rational unit 3-vector by inverse stereographic projection, random axis permutation and signs"""
    a, b = _q(rng), _q(rng)
    d = 1 + a * a + b * b
    v = [2 * a / d, 2 * b / d, (1 - a * a - b * b) / d]
    rng.shuffle(v)
    return [x * rng.choice([1, -1]) for x in v]


def _rand_float_vec(rng, scale=1.0):
    while True:
        v = [rng.gauss(0, 1) * scale for _ in range(3)]
        if math.sqrt(sum(x * x for x in v)) > 1e-3 * scale:
            return v


def _unitf(v):
    l = math.sqrt(sum(x * x for x in v))
    return [x / l for x in v]


def _perp(rng, r):
    """float unit vector orthogonal to r"""
    while True:
        d = _rand_float_vec(rng)
        dr = sum(x * y for x, y in zip(d, r)) / sum(x * x for x in r)
        d = [x - dr * y for x, y in zip(d, r)]
        if math.sqrt(sum(x * x for x in d)) > 1e-2:
            return _unitf(d)


def _axis(rng):
    e = [0.0, 0.0, 0.0]
    e[rng.randrange(3)] = 1.0
    return e


def _gen_ref(rng):
    k = rng.random()
    if k < 0.45:
        return None
    if k < 0.7:
        return _axis(rng)
    if k < 0.85:
        return [float(x) for x in _unit_rational(rng)]
    return _unitf(_rand_float_vec(rng))


def _gen_dir(rng):
    ref = _gen_ref(rng)
    r = ref if ref is not None else EZ
    cls = rng.choice(["quad", "quad", "axis", "par", "anti", "near", "near", "nearanti", "irr", "irr"])
    scale = rng.choice([1.0, 1.0, 2.0, 0.5, 1e-3, 1e4, 3.7])
    if cls == "quad":
        n = [float(x) * scale for x in _unit_rational(rng)]
    elif cls == "axis":
        n = [x * rng.choice([1, -1]) * scale for x in _axis(rng)]
    elif cls == "par":
        n = [x * scale for x in r]
    elif cls == "anti":
        n = [-x * scale for x in r]
    elif cls in ("near", "nearanti"):
        eps = 10 ** rng.uniform(-12, -3)
        d = _perp(rng, r)
        sg = 1.0 if cls == "near" else -1.0
        n = [(sg * x + eps * y) * scale for x, y in zip(r, d)]
    else:
        n = _rand_float_vec(rng, scale)
    return {"kind": "dir", "fn": rng.choice(["plane", "line"]), "n": n, "ref": ref, "cls": cls}


def _gen_rot(rng):
    k = rng.random()
    if k < 0.7:
        p, q = rng.randint(-7, 7), rng.randint(1, 7)
        c, s = Fraction(q * q - p * p, q * q + p * p), Fraction(2 * p * q, q * q + p * p)
        if rng.random() < 0.5:
            c = -c
    else:
        c, s = rng.choice([(1, 0), (0, 1), (-1, 0), (0, -1)])
        c, s = Fraction(c), Fraction(s)
    cls = rng.choice(["quad", "axis", "irr", "irr", "tiny", "huge"])
    if cls == "quad":
        v = [float(x) * rng.choice([1.0, 2.0, 0.25]) for x in _unit_rational(rng)]
    elif cls == "axis":
        v = [x * rng.choice([1.0, -1.0, 5.0]) for x in _axis(rng)]
    elif cls == "tiny":
        v = _rand_float_vec(rng, 10 ** rng.uniform(-11, -6))
    elif cls == "huge":
        v = _rand_float_vec(rng, 1e6)
    else:
        v = _rand_float_vec(rng)
    return {"kind": "rot", "s": frac(s), "c": frac(c), "vect": v, "cls": cls}


def _plane_frame(rng, cls):
    """(unit normal, two spanning vectors) as Fractions or floats"""
    if cls == "axisplane":
        i = rng.randrange(3)
        e = [[Fraction(int(a == b)) for b in range(3)] for a in range(3)]
        return e[i], e[(i + 1) % 3], e[(i + 2) % 3]
    if cls == "nearhoriz":
        t = 10 ** rng.uniform(-9, -3)
        u = [1.0, 0.0, t * rng.uniform(-1, 1)]
        w = [0.0, 1.0, t * rng.uniform(-1, 1)]
        return None, u, w
    if cls == "irr":
        return None, _rand_float_vec(rng), _rand_float_vec(rng)
    n = _unit_rational(rng)
    cr = lambda a, b: [a[1] * b[2] - a[2] * b[1], a[2] * b[0] - a[0] * b[2], a[0] * b[1] - a[1] * b[0]]
    e = [Fraction(0)] * 3
    k = min(range(3), key=lambda i: abs(n[i]))
    e[k] = Fraction(1)
    u = cr(n, e)
    w = cr(n, u)
    return n, u, w


def _gen_plane(rng):
    cls = rng.choice(["quad", "quad", "quad", "axisplane", "nearhoriz", "irr", "irr", "symmetric", "few", "collinear", "nonplanar"])
    frame_cls = cls if cls in ("axisplane", "nearhoriz", "irr") else "quad"
    _, u, w = _plane_frame(rng, frame_cls)
    off_scale = rng.choice([0, 1, 1, 1000])
    o = [_q(rng) * off_scale for _ in range(3)]
    sc = rng.choice([1, 1, Fraction(1, 1000), 50])
    npts = rng.randint(3, 9)
    if cls == "symmetric":
        a, b = rng.randint(1, 4), rng.randint(1, 4)
        coef = [(-a, -b), (a, -b), (a, b), (-a, b)]
        if rng.random() < 0.5:
            coef = coef + [(0, 0)]
    elif cls == "few":
        coef = [(_q(rng), _q(rng)) for _ in range(rng.randint(0, 2))]
    elif cls == "collinear":
        a, b = _q(rng), _q(rng)
        if a == 0 and b == 0:
            a = Fraction(1)
        coef = [(a * t, b * t) for t in (_q(rng) for _ in range(npts))]
    else:
        while True:
            coef = [(_q(rng), _q(rng)) for _ in range(npts)]
            if rng.random() < 0.3:
                coef.append(coef[rng.randrange(len(coef))])  # duplicate point
            # clearly non-collinear: the largest triangle has a reasonable area
            m = max(abs((coef[j][0] - coef[0][0]) * (coef[k][1] - coef[0][1]) - (coef[j][1] - coef[0][1]) * (coef[k][0] - coef[0][0]))
                    for j in range(len(coef)) for k in range(len(coef)))
            if m >= 1:
                break
    exact = all(isinstance(x, Fraction) for x in list(u) + list(w))  # rational frame: round once, at the end
    pts = []
    for (a, b) in coef:
        if exact:
            pts.append([float(o[i] + sc * (a * u[i] + b * w[i])) for i in range(3)])
        else:
            pts.append([float(o[i]) + float(sc) * (float(a) * float(u[i]) + float(b) * float(w[i])) for i in range(3)])
    if cls == "nonplanar" and pts:
        nrm = np.cross(np.array(u, dtype=float), np.array(w, dtype=float))
        nrm = nrm / np.linalg.norm(nrm)
        j = rng.randrange(len(pts))
        h = float(sc) * rng.choice([0.5, -1.0, 2.0])
        pts[j] = [pts[j][i] + h * float(nrm[i]) for i in range(3)]
    ref = None if rng.random() < 0.7 else _axis(rng)
    return {"kind": "plane", "pts": pts, "tol": 1e-5, "ref": ref,
            "check_planar": cls == "nonplanar" or rng.random() < 0.8, "cls": cls}


def _gen_line(rng):
    cls = rng.choice(["z", "negz", "x", "quad", "quad", "irr", "irr", "symmetric", "coincident", "nearz"])
    if cls == "z":
        d = [0.0, 0.0, 1.0]
    elif cls == "negz":
        d = [0.0, 0.0, -1.0]
    elif cls == "x":
        d = [rng.choice([1.0, -1.0]), 0.0, 0.0]
    elif cls == "irr":
        d = _rand_float_vec(rng)
    elif cls == "nearz":
        e = 10 ** rng.uniform(-10, -3)
        d = [e * rng.uniform(-1, 1), e * rng.uniform(-1, 1), rng.choice([1.0, -1.0])]
    else:
        d = [float(x) for x in _unit_rational(rng)]
    off = rng.choice([0, 1, 1, 100])
    o = [float(_q(rng)) * off for _ in range(3)]
    k = rng.randint(2, 6)
    if cls == "symmetric":
        a = rng.randint(1, 5)
        lam = [-a, a] + ([0] if rng.random() < 0.5 else [])
    elif cls == "coincident":
        lam = [0] * k
    else:
        while True:
            lam = [rng.randint(-8, 8) / rng.choice([1, 2, 4]) for _ in range(k)]
            m = sum(lam) / k
            dev = sorted(abs(x - m) for x in lam)
            if dev[-1] > 0.2 and (rng.random() < 0.15 or dev[-1] - dev[-2] > 1e-3):
                break
    pts = [[o[i] + l * d[i] for i in range(3)] for l in lam]
    ref = None if rng.random() < 0.6 else rng.choice([[1.0, 0.0, 0.0], [0.0, 1.0, 0.0]])
    return {"kind": "line", "pts": pts, "ref": ref, "cls": cls}


def _gen_tn(rng):
    dim = rng.choice([2, 3, 3])
    nv = rng.randint(1, 5)
    normals = []
    for _ in range(nv):
        cls = rng.choice(["rand", "rand", "int", "int", "axis", "nearaxis", "nearaxis", "scaled"])
        if cls == "rand":
            v = _rand_float_vec(rng)[:dim]
        elif cls == "int":
            while True:
                v = [float(rng.randint(-3, 3)) for _ in range(dim)]
                if any(v):
                    break
        elif cls == "axis":
            v = [0.0] * dim
            v[rng.randrange(dim)] = rng.choice([1.0, -1.0, 2.5, -0.125])
        elif cls == "nearaxis":
            # off-axis part of norm 1e-9 ... 1e-2 (log-uniform) in a random direction of the other coordinates
            off = 10 ** rng.uniform(-9, -2)
            i = rng.randrange(dim)
            u = [rng.choice([rng.gauss(0, 1), rng.gauss(0, 1), 0.0]) for _ in range(dim)]
            u[i] = 0.0
            lu = math.sqrt(sum(x * x for x in u))
            if lu == 0:
                u[(i + 1) % dim], lu = 1.0, 1.0
            sc = rng.choice([1.0, 1.0, 3.0, 1e-3])
            v = [off * x / lu * sc for x in u]
            v[i] = rng.choice([1.0, -1.0]) * sc
        else:
            s = 10 ** rng.uniform(-6, 6)
            v = [x * s for x in _rand_float_vec(rng)[:dim]]
        if math.sqrt(sum(x * x for x in v)) == 0:
            v[0] = 1.0
        normals.append(v)
    num = 0 if rng.random() < 0.7 else rng.randint(1, 4)
    return {"kind": "tn", "dim": dim, "normals": normals, "num": num}


def _gen_grid(rng):
    dim = rng.choice([1, 2, 2])
    nx = [rng.randint(1, 4) for _ in range(dim)]
    phys = [float(rng.choice([1, 2, 3, 0.5])) for _ in range(dim)]
    cls = rng.choice(["quad", "quad", "identity", "flip", "irr"])
    if cls == "identity":
        M = np.eye(3).tolist()
    elif cls == "flip":
        M = np.diag([1.0, -1.0, -1.0]).tolist() if dim == 2 else np.diag([-1.0, -1.0, 1.0]).tolist()
    else:
        # an orthogonal matrix with rational (quad) or irrational (irr) entries: Cayley / QR
        if cls == "quad":
            a = [_q(rng, -3, 3, (1, 2)) for _ in range(3)]
            S = [[0, -a[2], a[1]], [a[2], 0, -a[0]], [-a[1], a[0], 0]]
            I = [[Fraction(int(i == j)) for j in range(3)] for i in range(3)]
            A = np.array([[float(I[i][j] - S[i][j]) for j in range(3)] for i in range(3)])
            B = np.array([[float(I[i][j] + S[i][j]) for j in range(3)] for i in range(3)])
            M = (np.linalg.inv(A) @ B).tolist()
        else:
            Q, _ = np.linalg.qr(np.array([_rand_float_vec(rng) for _ in range(3)]))
            if np.linalg.det(Q) < 0:
                Q[:, 0] *= -1
            M = Q.tolist()
    shift = [float(_q(rng)) * rng.choice([0, 1, 10]) for _ in range(3)]
    return {"kind": "grid", "dim": dim, "nx": nx, "phys": phys, "M": M, "shift": shift, "cls": cls}


def _gen_fpc(rng):
    cls = rng.choice(["exact", "exact", "noisy", "noisy", "first-inside", "two"])
    d = [float(x) for x in _unit_rational(rng)] if rng.random() < 0.6 else _rand_float_vec(rng)
    o = [float(_q(rng)) * rng.choice([0, 1, 100]) for _ in range(3)]
    k = 2 if cls == "two" else rng.randint(3, 7)
    while True:
        lam = sorted(rng.randint(0, 12) / rng.choice([1, 2, 4]) for _ in range(k))
        if cls == "first-inside":
            j = rng.randrange(1, k)
            lam[0], lam[j] = lam[j], lam[0]
        dist = sorted(set(abs(x - lam[0]) for x in lam))
        if dist[-1] > 0.4 and (len(dist) < 2 or dist[-1] - dist[-2] > 1e-3):
            break
    if rng.random() < 0.5:
        lam[1:] = rng.sample(lam[1:], len(lam) - 1)
    noise = 0.0 if cls in ("exact", "two") else 10 ** rng.uniform(-10, -2)
    pts = [[o[i] + l * d[i] + (noise * rng.uniform(-1, 1) if n else 0.0) for i in range(3)] for n, l in enumerate(lam)]
    return {"kind": "fpc", "pts": pts, "cls": cls, "noise": noise}


def gen_case(rng, tier):
    kind = rng.choices(["rot", "dir", "plane", "line", "tn", "grid", "fpc"], weights=[2, 6, 5, 3, 5, 1.5, 1.5])[0]
    return {"rot": _gen_rot, "dir": _gen_dir, "plane": _gen_plane, "line": _gen_line, "tn": _gen_tn, "grid": _gen_grid,
            "fpc": _gen_fpc}[kind](rng)


# ----------------------------------------------------------------------------- the real code
def _mg():
    from porepy.geometry import map_geometry
    return map_geometry


def _lst(a):
    a = np.asarray(a, dtype=float)
    if a.ndim == 0:
        return float(a) if np.isfinite(a) else "nan"
    return [_lst(x) for x in a]


def _pts(case):
    return np.array(case["pts"], dtype=float).reshape((-1, 3)).T


def _ref(case):
    return None if case.get("ref") is None else np.array(case["ref"], dtype=float)


def _grid(case):
    import porepy as pp
    g = pp.CartGrid(np.array(case["nx"]), np.array(case["phys"]))
    g.nodes = np.array(case["M"]) @ g.nodes + np.array(case["shift"]).reshape((3, 1))
    g.compute_geometry()
    return g


def _call(f):
    try:
        with warnings.catch_warnings():
            warnings.simplefilter("ignore")
            return f()
    except Exception as e:  # noqa: BLE001 - mapped to the protocol's error enum
        return err_kind(e)


def _raw(case):
    """Everything the oracle and the comparison need from the real code, as numpy arrays / error dicts."""
    mg = _mg()
    k = case["kind"]
    if k == "rot":
        a = math.atan2(float(Fraction(case["s"])), float(Fraction(case["c"])))
        return {"R": _call(lambda: mg.rotation_matrix(a, np.array(case["vect"], dtype=float))), "a": a}
    if k == "dir":
        n = np.array(case["n"], dtype=float)
        if case["fn"] == "plane":
            return {"R": _call(lambda: mg.project_plane_matrix(np.zeros((3, 3)), normal=n, reference=_ref(case), check_planar=False))}
        return {"R": _call(lambda: mg.project_line_matrix(np.zeros((3, 2)), tangent=n, reference=_ref(case)))}
    if k == "plane":
        pts = _pts(case)
        return {"normal": _call(lambda: mg.compute_normal(pts, tol=case["tol"])),
                "R": _call(lambda: mg.project_plane_matrix(pts, tol=case["tol"], reference=_ref(case), check_planar=case["check_planar"]))}
    if k == "line":
        pts = _pts(case)
        return {"tangent": _call(lambda: mg.compute_tangent(pts)),
                "R": _call(lambda: mg.project_line_matrix(pts, reference=_ref(case))),
                "normals": _call(lambda: mg.compute_normals_1d(pts))}
    if k == "fpc":
        return {"out": _call(lambda: mg.force_point_collinearity(_pts(case)))}
    if k == "tn":
        import porepy as pp
        nrm = np.array(case["normals"], dtype=float).T
        num = case["num"] or None

        def f():
            tn = pp.TangentialNormalProjection(nrm)
            return {"full": tn.project_tangential_normal(num).toarray(), "tangential": tn.project_tangential(num).toarray(),
                    "normal": tn.project_normal(num).toarray(), "normals_attr": tn.normals}
        return _call(f)
    if k == "grid":
        g = _call(lambda: _grid(case))  # compute_geometry of a 1-d grid itself uses compute_tangent
        if _is_err(g):
            return g

        def f():
            cc, fn, fc, R, dim, nodes = mg.map_grid(g)
            return {"cc": cc, "fn": fn, "fc": fc, "R": R, "dim": np.asarray(dim), "nodes": nodes}
        out = _call(f)
        out["_g"] = g
        return out
    raise ValueError(k)


def _is_err(x):
    return isinstance(x, dict) and "err" in x


def impl_run(case):
    r = _raw(case)
    k = case["kind"]
    if _is_err(r):
        return {"err": r["err"]}
    out = {}
    for key, v in r.items():
        if key.startswith("_") or key == "a":
            continue
        if _is_err(v):
            out[key] = v
        elif key == "dim":
            out[key] = [bool(x) for x in v]
        else:
            out[key] = _lst(v)
    if k in ("plane", "line") and not _is_err(r["R"]):
        out["mapped"] = _lst((r["R"] @ _pts(case)).T)
    if k == "line" and not _is_err(r["normals"]):
        out["normals"] = _lst(np.asarray(r["normals"]).T)
    if k == "fpc" and not _is_err(r["out"]):
        out["out"] = _lst(np.asarray(r["out"]).T)
    if k == "tn":
        out.pop("normals_attr", None)
    if k == "grid":
        for key in ("cc", "fn", "fc"):
            out.pop(key, None)
        out["nodes"] = _lst(np.asarray(r["nodes"]).T)
    return out


# ----------------------------------------------------------------------------- the model
def _fr(v):
    return [frac(float(x)) for x in v]


def model_ops(case):
    k = case["kind"]
    ref = _fr(case["ref"] if case.get("ref") is not None else EZ)
    if k == "rot":
        return [{"op": "rot", "s": case["s"], "c": case["c"], "vect": _fr(case["vect"])}]
    if k == "dir":
        return [{"op": "dir", "n": _fr(case["n"]), "ref": ref}]
    if k == "plane":
        return [{"op": "plane", "pts": [_fr(p) for p in case["pts"]], "tol": frac(case["tol"]), "ref": ref, "check_planar": case["check_planar"]}]
    if k == "line":
        return [{"op": "line", "pts": [_fr(p) for p in case["pts"]], "ref": ref}]
    if k == "fpc":
        return [{"op": "fpc", "pts": [_fr(p) for p in case["pts"]]}]
    if k == "tn":
        return [{"op": "tn", "dim": case["dim"], "normals": [_fr(v) for v in case["normals"]], "num": case["num"]}]
    if k == "grid":
        g = _call(lambda: _grid(case))
        if _is_err(g):
            return [{"op": "grid-construction-failed"}]
        pts = [_fr(p) for p in g.nodes.T]
        if case["dim"] == 2:
            return [{"op": "plane", "pts": pts, "tol": frac(1e-5), "ref": _fr(EZ), "check_planar": True}]
        return [{"op": "line", "pts": pts, "ref": _fr(EZ)}]
    raise ValueError(k)


def _fl(x):
    if isinstance(x, dict):
        return {k: _fl(v) for k, v in x.items()}
    if isinstance(x, list):
        return [_fl(v) for v in x]
    if isinstance(x, str) and x not in ("ValueError", "RuntimeError", "AssertionError"):
        try:
            return float(Fraction(x))
        except (ValueError, ZeroDivisionError):
            return x
    return x


def model_decode(outs, case):
    return _fl(outs[0])


def _maxdiff(a, b):
    a, b = np.asarray(a, dtype=float), np.asarray(b, dtype=float)
    if a.shape != b.shape:
        return math.inf
    if a.size == 0:
        return 0.0
    d = np.abs(a - b)
    if not np.all(np.isfinite(d)):
        return math.inf
    return float(d.max())


def _band_tol(nhat, ref):
    v = np.linalg.norm(np.cross(nhat, ref))
    return TOL_BAND if v < BAND else TOL


def compare(impl, model, case):
    k = case["kind"]
    if k not in ("plane", "line") and (_is_err(impl) or _is_err(model)):
        return None if impl == model else f"error class: impl {impl} vs model {model}"
    ref = np.array(case["ref"] if case.get("ref") is not None else EZ, dtype=float)
    if k == "rot":
        d = _maxdiff(impl["R"], model["R"])
        return None if d <= TOL else f"rotation_matrix differs from the model by {d:.3g}"
    if k == "dir":
        if _is_err(impl["R"]):
            return f"impl raised {impl['R']}"
        tol = _band_tol(np.array(model["n"]), ref)
        d = _maxdiff(impl["R"], model["R"])
        return None if d <= tol else f"project_{case['fn']}_matrix differs from the model by {d:.3g} (tol {tol})"
    if k in ("plane", "line", "grid"):
        is_plane = k == "plane" or (k == "grid" and case["dim"] == 2)
        vec = "normal" if is_plane else "tangent"
        if _is_err(model):
            keys = [vec, "R"] + (["normals"] if k == "line" else [])
            bad = [key for key in keys if impl.get(key) != model] if k != "grid" else ["map_grid"]
            return None if not bad else f"model answers {model} but impl {[(key, impl.get(key) if _is_err(impl.get(key)) else 'value') for key in bad]}"
        mv = np.array(model[vec])
        sgns = [1.0, -1.0] if model.get("tied") else [1.0]
        if k == "grid":
            pts_scale = 1.0 + float(np.abs(np.array(model["mapped"])).max())
            cond = 0.0
        else:
            P = np.array(case["pts"], dtype=float).reshape((-1, 3))
            pts_scale = 1.0 + (float(np.abs(P).max()) if P.size else 0.0)
            if _is_err(impl[vec]):
                return f"{vec}: impl {impl[vec]} vs model value"
            # conditioning of the input: the code centres the points in binary64, the model exactly;
            # a centred vector carries a relative rounding error of about eps * |p| / spread
            spread = float(np.linalg.norm(P - P.mean(axis=0), axis=1).max())
            cond = 50 * 2.2e-16 * pts_scale / max(spread, 1e-300)
        msg = None
        for sg in sgns:
            if k != "grid" and _maxdiff(impl[vec], sg * mv) > TOL + cond:
                msg = msg or f"{vec} differs from the model by {_maxdiff(impl[vec], sg * mv):.3g}"
                continue
            mR = model["R"] if sg > 0 else model["R_flipped"]
            if _is_err(mR) or _is_err(impl["R"]):
                if mR == impl["R"]:
                    return None
                msg = f"matrix: impl {impl['R'] if _is_err(impl['R']) else 'value'} vs model {mR if _is_err(mR) else 'value'}"
                continue
            tol = _band_tol(sg * mv, ref) + cond
            if float(np.dot(sg * mv, ref)) < 0:  # rotation by almost pi about n x ref: the axis direction is ill-conditioned
                tol += 2 * cond / max(float(np.linalg.norm(np.cross(mv, ref))), 1e-300)
            d = _maxdiff(impl["R"], mR)
            if d > tol:
                msg = msg or f"matrix differs from the model by {d:.3g} (tol {tol:.3g})"
                continue
            mm = np.array(model["mapped"] if sg > 0 else model["mapped_flipped"])
            if k == "grid":
                sel = [i for i, b in enumerate(impl["dim"]) if b]
                d2 = _maxdiff(impl["nodes"], mm[:, sel])
            else:
                d2 = _maxdiff(impl["mapped"], mm)
            if d2 > tol * pts_scale:
                msg = f"mapped points differ from the model by {d2:.3g}"
                continue
            if k == "line" and not model.get("tied"):
                d3 = _maxdiff(impl["normals"], model["normals"])
                tv = np.array(model["tangent"])  # (t_y, -t_x, 0)/hypot(t_x, t_y) is ill-conditioned for t close to the z-axis
                if d3 > TOL + cond * (1 + 1 / max(math.hypot(tv[0], tv[1]), 1e-300)):
                    msg = f"compute_normals_1d differs from the model by {d3:.3g}"
                    continue
            return None
        return msg
    if k == "fpc":
        if _is_err(impl["out"]):
            return f"force_point_collinearity raised {impl['out']}"
        P = np.array(case["pts"], dtype=float)
        scale = 1.0 + float(np.abs(P).max())
        ext = float(np.linalg.norm(P - P[0], axis=1).max())
        d = _maxdiff(impl["out"], model["out"])
        # the relative distances are quotients of lengths measured from the first point
        return None if d <= (TOL + 50 * 2.2e-16 * scale / ext) * scale else f"force_point_collinearity differs from the model by {d:.3g}"
    if k == "tn":
        for key in ("full", "tangential", "normal"):
            d = _maxdiff(impl[key], model[key])
            if d > TOL:
                return f"TangentialNormalProjection {key} differs from the model by {d:.3g}"
        return None
    return f"unknown kind {k}"


# ----------------------------------------------------------------------------- oracle (the property, on the real code)
def _orth_fail(R, what, tol=TOL):
    R = np.asarray(R, dtype=float)
    if not np.all(np.isfinite(R)):
        return {"what": f"{what}: matrix has non-finite entries", "key": "nonfinite"}
    e = float(np.abs(R.T @ R - np.eye(3)).max())
    if e > tol:
        return {"what": f"{what}: |R^T R - I| = {e:.3g}", "key": "not-orthogonal"}
    d = float(np.linalg.det(R))
    if abs(d - 1) > tol:
        return {"what": f"{what}: det R = {d!r}", "key": "det-not-one"}
    return None


def _dist_fail(R, P, what, scale=1.0):
    """pairwise distances of the columns of P are preserved by R"""
    Q = R @ P
    n = P.shape[1]
    for i in range(n):
        for j in range(i + 1, n):
            a, b = np.linalg.norm(P[:, i] - P[:, j]), np.linalg.norm(Q[:, i] - Q[:, j])
            if abs(a - b) > TOL * scale:
                return {"what": f"{what}: distance {a!r} became {b!r}", "key": "distance-changed"}
    return None


def _axis_fail(R, nhat, ref, what, expect_plus):
    """R n || ref (as a line); = +ref when expect_plus"""
    tol = _band_tol(nhat, ref)
    Rn = R @ nhat
    c = float(np.linalg.norm(np.cross(Rn, ref)))
    if c > tol:
        return {"what": f"{what}: R n = {Rn.tolist()} is not parallel to the reference {ref.tolist()} (|R n x ref| = {c:.3g})", "key": "normal-not-mapped-to-axis"}
    if expect_plus and float(np.linalg.norm(Rn - ref)) > tol:
        return {"what": f"{what}: R n = {Rn.tolist()} but the reference is {ref.tolist()}", "key": "normal-mapped-to-minus-axis"}
    return None


def _anti(nhat, ref):
    """anti-parallel up to the code's own threshold: the identity is returned and R n = n = -ref"""
    return float(np.dot(nhat, ref)) < 0 and float(np.linalg.norm(np.cross(nhat, ref))) < 2e-8


def _k(f, prefix):
    if f is not None:
        f = dict(f, key=prefix + ":" + f["key"])
    return f


_PROBE = np.array([[0.3, -1.2, 2.0, 0.0, 5.5], [1.1, 0.4, -3.0, 0.0, -2.5], [-0.7, 2.2, 0.5, 0.0, 1.25]])


def oracle(case):
    k = case["kind"]
    r = _raw(case)
    ref = np.array(case["ref"] if case.get("ref") is not None else EZ, dtype=float)
    if k == "rot":
        R = r["R"]
        if _is_err(R):
            return {"what": f"rotation_matrix raised {R}", "key": "rot:raised"}
        f = _orth_fail(R, "rotation_matrix")
        if f:
            return _k(f, "rot")
        v = np.array(case["vect"], dtype=float)
        if np.allclose(v, 0):
            return None if np.array_equal(R, np.eye(3)) else {"what": "rotation_matrix about a zero vector is not the identity", "key": "rot:zero-axis"}
        w = v / np.linalg.norm(v)
        if np.linalg.norm(R @ w - w) > TOL:
            return {"what": "rotation_matrix does not fix its axis", "key": "rot:axis-moved"}
        s, c = float(Fraction(case["s"])), float(Fraction(case["c"]))
        if abs(np.trace(R) - (1 + 2 * c)) > TOL:
            return {"what": f"rotation_matrix: trace {np.trace(R)!r} but 1 + 2 cos a = {1 + 2 * c!r}", "key": "rot:wrong-angle"}
        u = np.cross(w, [1.0, 0, 0]) if abs(w[0]) < 0.9 else np.cross(w, [0, 1.0, 0])
        u /= np.linalg.norm(u)
        if abs(np.dot(np.cross(u, R @ u), w) - s) > TOL:
            return {"what": "rotation_matrix rotates by the wrong (sign of the) angle", "key": "rot:wrong-sense"}
        return _k(_dist_fail(R, _PROBE, "rotation_matrix", 10.0), "rot")
    if k == "dir":
        R = r["R"]
        name = f"project_{case['fn']}_matrix"
        if _is_err(R):
            return {"what": f"{name} raised {R} for n = {case['n']}", "key": "dir:raised"}
        n = np.array(case["n"], dtype=float)
        nhat = n / np.linalg.norm(n)
        if not np.all(np.isfinite(R)):
            axis_ref = sorted(np.abs(ref).tolist()) == [0.0, 0.0, 1.0]
            v = np.linalg.norm(np.cross(nhat, ref))
            key = "dir:nan-near-parallel-nonaxis-reference" if (not axis_ref and v < 1e-7) else "dir:nonfinite"
            return {"what": f"{name}(normal={case['n']}, reference={case['ref']}) has non-finite entries (|n x ref| = {v:.3g})", "key": key}
        f = _orth_fail(R, name) or _dist_fail(R, _PROBE, name, 10.0)
        if f:
            return _k(f, "dir")
        return _k(_axis_fail(R, nhat, ref, name, expect_plus=not _anti(nhat, ref)), "dir")
    if k == "plane":
        P = _pts(case)
        cls = case["cls"]
        nrm, R = r["normal"], r["R"]
        scale = 1.0 + (float(np.abs(P).max()) if P.size else 0.0)
        if P.shape[1] < 3:
            return None if (nrm == {"err": "ValueError"}) else {"what": "compute_normal accepted fewer than three points", "key": "plane:too-few-accepted"}
        if cls == "collinear":
            return None if _is_err(nrm) else {"what": "compute_normal returned a normal for collinear points", "key": "plane:collinear-accepted"}
        if _is_err(nrm):
            return {"what": f"compute_normal raised {nrm} on a non-degenerate point set {case['pts']}", "key": "plane:normal-raised"}
        nrm = np.asarray(nrm, dtype=float)
        if abs(np.linalg.norm(nrm) - 1) > TOL:
            return {"what": f"compute_normal is not a unit vector: {nrm.tolist()}", "key": "plane:normal-not-unit"}
        planar = cls != "nonplanar"
        if planar:
            dev = float(np.abs(nrm @ (P - P[:, [0]])).max())
            if dev > TOL * scale:
                return {"what": f"computed normal {nrm.tolist()} is not orthogonal to the planar point set (max |n.(p-p0)| = {dev:.3g})", "key": "plane:normal-not-orthogonal"}
        if _is_err(R):
            if not planar and case["check_planar"] and R == {"err": "AssertionError"}:
                return None
            return {"what": f"project_plane_matrix raised {R} on {case['pts']}", "key": "plane:matrix-raised"}
        f = _orth_fail(R, "project_plane_matrix") or _dist_fail(R, P[:, :6], "project_plane_matrix", scale)
        if f:
            return _k(f, "plane")
        f = _axis_fail(R, nrm, ref, "project_plane_matrix", expect_plus=not _anti(nrm, ref))
        if f:
            return _k(f, "plane")
        if planar:
            h = (R @ P).T @ ref
            tol = _band_tol(nrm, ref)
            if float(np.ptp(h)) > 2 * tol * scale:
                return {"what": f"coordinate along the reference axis is not constant on the mapped planar set: {h.tolist()}", "key": "plane:last-coordinate-not-constant"}
        return None
    if k == "line":
        P = _pts(case)
        t, R, nn = r["tangent"], r["R"], r["normals"]
        scale = 1.0 + float(np.abs(P).max())
        if case["cls"] == "coincident":
            return None if _is_err(t) else {"what": "compute_tangent returned a tangent for coincident points", "key": "line:coincident-accepted"}
        if _is_err(t) or _is_err(R):
            return {"what": f"compute_tangent / project_line_matrix raised {t} / {R} on {case['pts']}", "key": "line:raised"}
        t = np.asarray(t, dtype=float)
        D = P - P[:, [0]]
        j = int(np.argmax(np.linalg.norm(D, axis=0)))
        dhat = D[:, j] / np.linalg.norm(D[:, j])
        if abs(np.linalg.norm(t) - 1) > TOL or np.linalg.norm(np.cross(t, dhat)) > 1e-7:
            return {"what": f"compute_tangent {t.tolist()} is not the unit direction of the line {dhat.tolist()}", "key": "line:tangent-wrong"}
        f = _orth_fail(R, "project_line_matrix") or _dist_fail(R, P, "project_line_matrix", scale)
        if f:
            return _k(f, "line")
        f = _axis_fail(R, t, ref, "project_line_matrix", expect_plus=not _anti(t, ref))
        if f:
            return _k(f, "line")
        Q = R @ P
        off = Q - np.outer(ref, ref @ Q)  # components orthogonal to the reference axis: constant on a line
        tol = _band_tol(t, ref)
        if float(np.abs(off - off[:, [0]]).max()) > 2 * tol * scale:
            return {"what": "points of a line are not mapped onto a line parallel to the reference axis", "key": "line:not-on-axis"}
        if _is_err(nn):
            return {"what": f"compute_normals_1d raised {nn}", "key": "line:normals-raised"}
        nn = np.asarray(nn, dtype=float)
        if not np.all(np.isfinite(nn)):
            zal = abs(t[0]) == 0 and abs(t[1]) == 0
            return {"what": f"compute_normals_1d returns nan for points {case['pts']} (tangent {t.tolist()})",
                    "key": "line:normals-1d-nan-tangent-along-z" if zal else "line:normals-1d-nonfinite"}
        G = nn.T @ nn
        if nn.shape != (3, 2) or float(np.abs(G - np.eye(2)).max()) > TOL or float(np.abs(t @ nn).max()) > TOL:
            return {"what": f"compute_normals_1d {nn.T.tolist()} is not an orthonormal pair orthogonal to the tangent {t.tolist()}", "key": "line:normals-1d-not-orthonormal"}
        return None
    if k == "fpc":
        Q = r["out"]
        if _is_err(Q):
            return {"what": f"force_point_collinearity raised {Q}", "key": "fpc:raised"}
        P, Q = _pts(case), np.asarray(Q, dtype=float)
        scale = 1.0 + float(np.abs(P).max())
        if Q.shape != P.shape or not np.all(np.isfinite(Q)):
            return {"what": "force_point_collinearity: wrong shape or non-finite output", "key": "fpc:shape"}
        dp, dq = np.linalg.norm(P - P[:, [0]], axis=0), np.linalg.norm(Q - Q[:, [0]], axis=0)
        e = int(np.argmax(dp))
        tol = TOL * scale
        if np.abs(Q[:, 0] - P[:, 0]).max() > tol or np.abs(Q[:, e] - P[:, e]).max() > tol:
            return {"what": "force_point_collinearity moves the first point or the end point", "key": "fpc:end-points-moved"}
        c = np.cross((Q - Q[:, [0]]).T, Q[:, e] - Q[:, 0])
        if float(np.abs(c).max()) > tol * (1.0 + dp[e]):
            return {"what": "force_point_collinearity: output points are not on the line through the end points", "key": "fpc:not-collinear"}
        if float(np.abs(dp - dq).max()) > tol:
            return {"what": f"force_point_collinearity changes the distance to the first point: {dp.tolist()} -> {dq.tolist()}", "key": "fpc:distance-changed"}
        t = (Q - Q[:, [0]]).T @ (Q[:, e] - Q[:, 0]) / dp[e]
        if float(np.abs(t - dp).max()) > tol:  # same side of the first point as the end point, same order along the line
            return {"what": "force_point_collinearity does not keep the order of the points along the line", "key": "fpc:order-changed"}
        if case["cls"] in ("exact", "two") and float(np.abs(Q - P).max()) > tol:
            return {"what": "force_point_collinearity moves points that are collinear already", "key": "fpc:collinear-moved"}
        return None
    if k == "tn":
        if _is_err(r):
            return {"what": f"TangentialNormalProjection raised {r} for {case['normals']}", "key": "tn:raised"}
        dim, nrm = case["dim"], np.array(case["normals"], dtype=float).T
        nv = nrm.shape[1]
        F, T, Nn = r["full"], r["tangential"], r["normal"]
        un = nrm / np.linalg.norm(nrm, axis=0)
        knife = False
        if dim == 3:
            for col in un.T:
                i = int(np.argmax(np.abs(col)))
                o = np.linalg.norm(np.delete(col, i))
                knife = knife or (0 < o < 1e-8 * 1.5)
        tol = 3e-8 if knife else TOL
        if case["num"]:
            nb = case["num"]
            un = np.tile(un[:, [0]], (1, nb))
        else:
            nb = nv
        if F.shape != (dim * nb, dim * nb) or T.shape != ((dim - 1) * nb, dim * nb) or Nn.shape != (nb, dim * nb):
            return {"what": f"projection shapes {F.shape} {T.shape} {Nn.shape}", "key": "tn:shape"}
        if not (np.all(np.isfinite(F)) and np.all(np.isfinite(T)) and np.all(np.isfinite(Nn))):
            return {"what": "projection has non-finite entries", "key": "tn:nonfinite"}
        mask = np.kron(np.eye(nb), np.ones((dim, dim))) > 0
        if np.any(F[~mask] != 0):
            return {"what": "full projection is not block diagonal", "key": "tn:not-block-diagonal"}
        if float(np.abs(F @ F.T - np.eye(dim * nb)).max()) > tol or float(np.abs(F.T @ F - np.eye(dim * nb)).max()) > tol:
            return {"what": f"tangential-normal blocks are not orthogonal: |F F^T - I| = {np.abs(F @ F.T - np.eye(dim * nb)).max():.3g}", "key": "tn:not-orthogonal"}
        if float(np.abs(T @ T.T - np.eye((dim - 1) * nb)).max()) > tol or float(np.abs(Nn @ Nn.T - np.eye(nb)).max()) > tol or float(np.abs(T @ Nn.T).max()) > tol:
            return {"what": "tangential and normal projections are not orthonormal / mutually orthogonal", "key": "tn:parts-not-orthonormal"}
        stack = un.ravel("F")
        if float(np.abs(Nn @ stack - 1).max()) > tol or float(np.abs(T @ stack).max()) > tol:
            return {"what": "the normal is not mapped to the last local axis", "key": "tn:normal-not-last-axis"}
        if float(np.abs(F @ stack - np.tile(np.eye(dim)[:, -1], nb)).max()) > tol:
            return {"what": "full projection does not map the normal to the last local axis", "key": "tn:full-normal-not-last-axis"}
        # rows of the full projection are the tangential rows followed by the normal row, block by block
        idx_n = np.arange(dim - 1, dim * nb, dim)
        idx_t = np.setdiff1d(np.arange(dim * nb), idx_n)
        if not (np.array_equal(F[idx_n], Nn) and np.array_equal(F[idx_t], T)):
            return {"what": "project_tangential / project_normal are not the corresponding rows of project_tangential_normal", "key": "tn:row-selection"}
        for b in range(nb):
            B = F[b * dim:(b + 1) * dim, b * dim:(b + 1) * dim]
            d = float(np.linalg.det(B))
            if dim == 3 and abs(d - 1) > tol:
                return {"what": f"3-D block {b} has determinant {d!r}", "key": "tn:det-not-one"}
            if dim == 2:
                if abs(abs(d) - 1) > tol:
                    return {"what": f"2-D block {b} has determinant {d!r}", "key": "tn:det-not-unit"}
                if B[0, 0] < 0 or (B[0, 0] == 0 and B[0, 1] != 1):
                    return {"what": f"2-D tangent {B[0].tolist()} does not point in the positive x-direction", "key": "tn:tangent-convention"}
        if not case["num"] and float(np.abs(np.asarray(r["normals_attr"]) - un).max()) > TOL:
            return {"what": "stored normals are not the normalised input", "key": "tn:normals-attr"}
        return None
    if k == "grid":
        if _is_err(r):
            return {"what": f"map_grid raised {r}", "key": "grid:raised"}
        g = r["_g"]
        R, dimm = np.asarray(r["R"]), np.asarray(r["dim"])
        f = _orth_fail(R, "map_grid R")
        if f:
            return _k(f, "grid")
        if int(dimm.sum()) != g.dim:
            return {"what": f"map_grid keeps {int(dimm.sum())} coordinates of a {g.dim}-d grid", "key": "grid:dim"}
        scale = 1.0 + float(np.abs(g.nodes).max())
        for name, X, Y in (("nodes", g.nodes, r["nodes"]), ("cell_centers", g.cell_centers, r["cc"]), ("face_centers", g.face_centers, r["fc"])):
            X, Y = np.asarray(X)[:, :7], np.asarray(Y)[:, :7]
            if Y.shape[0] != g.dim:
                return {"what": f"mapped {name} have {Y.shape[0]} rows", "key": "grid:rows"}
            for i in range(X.shape[1]):
                for j in range(i + 1, X.shape[1]):
                    a, b = np.linalg.norm(X[:, i] - X[:, j]), np.linalg.norm(Y[:, i] - Y[:, j])
                    if abs(a - b) > 1e-7 * scale:
                        return {"what": f"map_grid changes the distance between {name} {i},{j}: {a!r} -> {b!r}", "key": "grid:distance-changed"}
        a, b = np.linalg.norm(g.face_normals, axis=0), np.linalg.norm(np.asarray(r["fn"]), axis=0)
        if float(np.abs(a - b).max()) > 1e-7 * scale:
            return {"what": "map_grid changes the length of face normals", "key": "grid:face-normal-length"}
        return None
    raise ValueError(k)


# ----------------------------------------------------------------------------- bookkeeping
def nontrivial(case):
    k = case["kind"]
    if k == "dir":
        return case["cls"] not in ("par",)
    if k == "plane":
        return len(case["pts"]) >= 3
    return True


def shrink_candidates(case):
    k = case["kind"]
    if k in ("plane", "line"):
        pts = case["pts"]
        lo = 3 if k == "plane" else 2
        if len(pts) > lo:
            for i in range(len(pts)):
                yield dict(case, pts=pts[:i] + pts[i + 1:])
    if k == "tn":
        ns = case["normals"]
        if len(ns) > 1:
            for i in range(len(ns)):
                yield dict(case, normals=ns[:i] + ns[i + 1:])
        if case["num"]:
            yield dict(case, num=0)
    if case.get("ref") is not None and k != "dir":
        yield dict(case, ref=None)


def stats(cases, impl_outs):
    kinds, classes = {}, {}
    for c in cases:
        kinds[c["kind"]] = kinds.get(c["kind"], 0) + 1
        key = c["kind"] + ":" + str(c.get("cls", c.get("dim")))
        classes[key] = classes.get(key, 0) + 1
    errs = sum(1 for o in impl_outs if isinstance(o, dict) and (_is_err(o) or any(_is_err(v) for v in o.values())))
    band = 0
    for c in cases:
        if c["kind"] == "dir":
            n = np.array(c["n"], dtype=float)
            ref = np.array(c["ref"] if c.get("ref") is not None else EZ)
            if np.linalg.norm(np.cross(n / np.linalg.norm(n), ref)) < BAND:
                band += 1
    return {"kinds": kinds, "classes": dict(sorted(classes.items())), "cases_with_error_result": errs,
            "dir_cases_in_parallel_band": band, "non_default_reference": sum(1 for c in cases if c.get("ref") is not None)}
