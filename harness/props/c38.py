"""C38 Exported states are restored exactly on import (Exporter vtu/pvd round trip, time information)."""
import contextlib
import io
import json
import os
import shutil
import tempfile
import warnings
from fractions import Fraction
from pathlib import Path

import numpy as np

from harness.common import frac as _frac

PID = "C38"


def frac(x):
    """exact wire form; non-finite floats (np.empty garbage after a wrong import) as words, never an exception"""
    try:
        return _frac(x)
    except (ValueError, OverflowError):
        return repr(float(x))

THEOREMS = [
    "PorepyVerif.C38.groups_partition_cells",
    "PorepyVerif.C38.groups_partition_cells_as_coded",
    "PorepyVerif.C38.chop_concat_id",
    "PorepyVerif.C38.import_export_id",
    "PorepyVerif.C38.import_export_id_vector",
    "PorepyVerif.C38.gatherCols_eq_gather",
    "PorepyVerif.C38.roundtrip_dim",
    "PorepyVerif.C38.time_info_roundtrip",
    "PorepyVerif.C38.time_history_roundtrip",
    "PorepyVerif.C38.restart_time_restored",
    "PorepyVerif.C38.restart_time_restored_last",
    "PorepyVerif.C38.pvd_selects_latest",
]
LEAN_MODULES = ["PorepyVerif.C38.Props"]
AUDIT = "PorepyVerif/C38/Audit.lean"
DRIVER = "PorepyVerif/C38/Driver.lean"
N = {"quick": 24, "thorough": 500}
RULE = ("md-grids from a recipe: hand-built 2-d strips mixing triangles, quadrilaterals, pentagons, hexagons; Cartesian and "
        "structured simplex grids in 1-3 d; 3-d prisms extruded from the strips, tensor (non-Cartesian) hexahedra; point grids; "
        "mdg_library squares/cubes with 1-3 fractures (interfaces with two sides) plus extra subdomains; 1-3 subdomains per "
        "dimension in both creation orders. Data: distinct dyadic values per cell (scalar, vector nd 1-3 handed over 2-d or flat), "
        "tuple input or state keys, binary or ascii, 1-3 exported time steps with different values, constants in the same or "
        "separate files. Every case is exported once and imported three ways (list of vtu files, md pvd of the last step, "
        "conventional pvd). non-trivial = some dimension has >= 2 cell-id blocks or >= 2 entities; distinct = distinct recipes")
TRUSTED = [
    "modelled, not verified: meshio's vtu writer/reader (file format, base64/zlib, cell blocks; its regrouping of polyhedral cell data by ascending node count is modelled as `readBack`), numpy fancy indexing/hstack/reshape glue, the node ordering of polygons/polyhedra (connectivity), point data",
    "the per-cell type keys (number of nodes / faces per cell, isinstance CartGrid) and MortarGrid.num_cells = sum of side grids are computed by the harness from the porepy grids and compared with the exporter's cell_ids only through the correspondence check",
    "time information: the theorem assumes a number codec with dec(enc x) = some x; for the real code this is json.dump/json.load of Python floats (repr round-trips every finite binary64) and ints - trusted, and exercised by the oracle with arbitrary floats",
    "pvd files: the XML layer (ElementTree, '%f' formatting of times) is not modelled; the model only says which step must be selected",
]
EXPLANATION = ("FULL for the permutation logic: model = grouping of cells by type per dimension with offsets, block-wise export, "
               "import by scatter through cell_ids and chopping per entity (subdomains and two-sided mortar grids), incl. meshio's "
               "regrouping of polyhedral data; theorems groups_partition_cells, import_export_id (scalar and vector), chop_concat_id, "
               "roundtrip_dim, time_info_roundtrip, pvd_selects_latest. Correspondence compares cell_ids, the blocks read back from the "
               "files with meshio, and the imported values, exactly. The file format itself is outside (partial in that sense).")
ASSUMPTIONS = ["cell values are dyadic rationals (binary64 exact) so that the ascii writer and the rational model agree exactly",
               "times passed to write_pvd increase with the time-step index (as in a simulation)"]

SHIFT = 4096  # values written at the j-th exported step (j = 0, 1, ..) are base + SHIFT*j
ROUTES = ("vtu", "mdg_pvd", "pvd")
KEY_POLY = "polyhedron-blocks-not-in-ascending-node-count"
KEY_PVD_SORT = "pvd-latest-step-chosen-by-string-order"
KEY_PVD_INDEX = "pvd-time-index-taken-from-time-label"


# ----------------------------------------------------------------------------- grids from recipes
def _strip(cells):
    """Planar strip of polygons between a bottom (y=0) and a top (y=1) node row. cells: list of
    (a, c) = number of bottom and top edges of the cell (a + c >= 1); the cell has a + c + 2 nodes."""
    import porepy as pp
    import scipy.sparse as sps

    nb = sum(a for a, c in cells) + 1
    nt = sum(c for a, c in cells) + 1
    nodes = np.zeros((3, nb + nt))
    nodes[0, :nb] = np.arange(nb)
    nodes[0, nb:] = np.arange(nt)
    nodes[1, nb:] = 1.0
    faces = []

    def face(n0, n1):
        faces.append((n0, n1))
        return len(faces) - 1

    bi = ti = 0
    left = face(0, nb)
    rows, cols, data = [], [], []
    for ci, (a, c) in enumerate(cells):
        fl = [(left, -1.0 if ci > 0 else 1.0)]
        for k in range(a):
            fl.append((face(bi + k, bi + k + 1), 1.0))
        bi += a
        for k in range(c):
            fl.append((face(nb + ti + k, nb + ti + k + 1), 1.0))
        ti += c
        right = face(bi, nb + ti)
        fl.append((right, 1.0))
        left = right
        for f, s in fl:
            rows.append(f)
            cols.append(ci)
            data.append(s)
    nf = len(faces)
    fn = sps.csc_matrix((np.ones(2 * nf, dtype=bool), np.array(faces).ravel(), np.arange(0, 2 * nf + 1, 2)), shape=(nb + nt, nf))
    cf = sps.csc_matrix((data, (rows, cols)), shape=(nf, len(cells)))
    g = pp.Grid(2, nodes, fn, cf, "strip")
    g.compute_geometry()
    return g


def _build_grid(spec):
    import porepy as pp

    t = spec["t"]
    if t == "strip":
        return _strip([tuple(c) for c in spec["cells"]])
    if t == "prism":
        g2 = _strip([tuple(c) for c in spec["cells"]])
        g, _, _ = pp.grid_extrusion.extrude_grid(g2, np.arange(spec["layers"] + 1, dtype=float))
        return g
    if t == "cart":
        g = pp.CartGrid(np.array(spec["n"]))
    elif t == "tri":
        g = pp.StructuredTriangleGrid(np.array(spec["n"]))
    elif t == "tet":
        g = pp.StructuredTetrahedralGrid(np.array(spec["n"]))
    elif t == "tensor3":
        g = pp.TensorGrid(*[np.arange(k + 1, dtype=float) for k in spec["n"]])
    elif t == "point":
        g = pp.PointGrid(np.array(spec.get("x", [0.0, 0.0, 0.0]), dtype=float))
    else:
        raise ValueError(f"unknown grid spec {spec}")
    g.compute_geometry()
    return g


def _spec_dim(spec):
    t = spec["t"]
    return {"strip": 2, "prism": 3, "tri": 2, "tet": 3, "tensor3": 3, "point": 0}.get(t) if t != "cart" else len(spec["n"])


def _spec_keys(spec):
    """number of nodes per cell of a 3-d grid spec, in cell order (what the polyhedron export groups by)"""
    t = spec["t"]
    if t == "prism":
        return [2 * (a + c + 2) for a, c in spec["cells"]] * spec["layers"]
    if t in ("cart", "tensor3"):
        return [8] * int(np.prod(spec["n"]))
    if t == "tet":
        return [4] * (6 * int(np.prod(spec["n"])))
    raise ValueError(spec)


def _poly_mode(specs3):
    """does the exporter use the polyhedron writer for these 3-d grids (mirror of _export_grid_3d on recipes)"""
    tys = set()
    for s in specs3:
        tys.add("tetra" if s["t"] == "tet" else "hex" if s["t"] == "cart" else "poly")
    return not (tys == {"tetra"} or tys == {"hex"})


def _first_occurrence_keys(key_lists):
    order = []
    for ks in key_lists:
        for k in sorted(set(ks)):
            if k not in order:
                order.append(k)
    return order


def _build_mdg(case):
    import porepy as pp

    extra_specs = case.get("extra", [])
    base = case.get("base")
    extras = []
    if case.get("extra_first", False):
        extras = [_build_grid(s) for s in extra_specs]
    if base is None:
        mdg = pp.MixedDimensionalGrid()
    else:
        fn = pp.mdg_library.square_with_orthogonal_fractures if base["lib"] == "square" else pp.mdg_library.cube_with_orthogonal_fractures
        mdg, _ = fn(base["grid_type"], meshing_args={"cell_size": base["cell_size"]}, fracture_indices=list(base["fracs"]))
    if not case.get("extra_first", False):
        extras = [_build_grid(s) for s in extra_specs]
    if extras:
        mdg.add_subdomains(extras)
    return mdg


# ----------------------------------------------------------------------------- data
def _entities(mdg):
    """[(kind, dim, [entities in listing order])] for every dimension with subdomains / interfaces"""
    out = []
    for d in sorted({sd.dim for sd in mdg.subdomains()}, reverse=True):
        out.append(("sd", d, mdg.subdomains(dim=d)))
    for d in sorted({i.dim for i in mdg.interfaces(codim=1)}, reverse=True):
        out.append(("intf", d, mdg.interfaces(dim=d, codim=1)))
    return out


def _base_data(case, ents):
    """distinct dyadic values: {(kind,dim): {"s": [Fraction per cell, per entity], "v": [columns per entity]}}"""
    import random

    rng = random.Random(f"C38-data-{case['data_seed']}")
    nd = case["nd"]
    explicit = case.get("values")
    out = {}
    for kind, d, es in ents:
        sizes = [int(e.num_cells) for e in es]
        tot = sum(sizes)
        if explicit is not None and f"{kind}{d}" in explicit:
            flat_s = [Fraction(x) for part in explicit[f"{kind}{d}"] for x in part]
        else:
            flat_s = [Fraction(k, 8) for k in rng.sample(range(-4 * tot - 8, 4 * tot + 8), tot)]
        flat_v = [Fraction(k, 4) for k in rng.sample(range(-2 * tot * nd - 8, 2 * tot * nd + 8), tot * nd)]
        s, v, o = [], [], 0
        for n in sizes:
            s.append(flat_s[o:o + n])
            v.append([flat_v[(o + c) * nd:(o + c + 1) * nd] for c in range(n)])
            o += n
        out[(kind, d)] = {"s": s, "v": v}
    return out


def _arrays(case, part_s, part_v, j, flat_vec):
    """numpy arrays handed to the exporter for one entity at the j-th exported step"""
    off = SHIFT * j
    s = np.array([float(x) + off for x in part_s])
    n, nd = len(part_v), case["nd"]
    A = np.array([[float(col[i]) + off for col in part_v] for i in range(nd)]).reshape(nd, n)
    if flat_vec:
        return s, A.ravel("F")  # cell-major flat array, as the models store vector variables
    return s, A


def _exp_s(part_s, j):
    return [frac(x + SHIFT * j) for x in part_s]


def _exp_v(part_v, j):
    return [frac(x + SHIFT * j) for col in part_v for x in col]


# ----------------------------------------------------------------------------- the real code, once per case
_CACHE = {}


def _case_key(case):
    return json.dumps(case, sort_keys=True)


@contextlib.contextmanager
def _workdir():
    d = tempfile.mkdtemp(prefix="c38_")
    cwd = os.getcwd()
    os.chdir(d)  # gmsh drops its .geo/.msh files into the working directory
    try:
        yield Path(d)
    finally:
        os.chdir(cwd)
        shutil.rmtree(d, ignore_errors=True)


def _grid_info(g):
    """what the model needs to know about a grid, computed independently of the exporter"""
    import porepy as pp

    nc = int(g.num_cells)
    if g.dim == 0:
        return {"cart": False, "nfaces": [0] * nc, "nnodes": [0] * nc}
    cn = g.cell_nodes()
    nn = np.diff(cn.tocsc().indptr)
    nf = np.diff(g.cell_faces.tocsc().indptr)
    return {"cart": bool(isinstance(g, pp.CartGrid)), "nfaces": [int(x) for x in nf], "nnodes": [int(x) for x in nn]}


def _zero(mdg, ents, case):
    import porepy as pp

    for kind, d, es in ents:
        for e in es:
            data = mdg.subdomain_data(e) if kind == "sd" else mdg.interface_data(e)
            data.pop(pp.TIME_STEP_SOLUTIONS, None)
            if case["style"] == "state":  # keys=None on import looks the keys up in the data dictionaries
                pp.set_solution_values(name="s", values=np.zeros(e.num_cells), data=data, time_step_index=0)
                pp.set_solution_values(name="v", values=np.zeros(e.num_cells * case["nd"]), data=data, time_step_index=0)


def _read_imported(mdg, ents):
    import porepy as pp

    out = {}
    for kind, d, es in ents:
        s, v = [], []
        for e in es:
            data = mdg.subdomain_data(e) if kind == "sd" else mdg.interface_data(e)
            sol = data.get(pp.TIME_STEP_SOLUTIONS, {})
            s.append([frac(x) for x in np.asarray(sol["s"][0]).ravel()] if "s" in sol else None)
            v.append([frac(x) for x in np.asarray(sol["v"][0]).ravel()] if "v" in sol else None)
        out[f"{kind}{d}"] = {"s": s, "v": v}
    return out


def _run(case):
    k = _case_key(case)
    if k not in _CACHE:
        if len(_CACHE) > 5000:
            _CACHE.clear()
        with warnings.catch_warnings(), contextlib.redirect_stderr(io.StringIO()), contextlib.redirect_stdout(io.StringIO()):
            warnings.simplefilter("ignore")  # meshio's ascii warning, geometry warnings of the hand-built grids
            with _workdir() as d:
                _CACHE[k] = _run_real(case, d)
    return _CACHE[k]


def _run_real(case, folder):
    import meshio
    import porepy as pp

    mdg = _build_mdg(case)
    ents = _entities(mdg)
    base = _base_data(case, ents)
    steps = case["steps"]
    last = len(steps) - 1
    keys = ["s", "v"]
    rec = {"dims": [], "routes": {}, "errors": {}}

    # ---- export
    ex = pp.Exporter(mdg, "c38", folder, binary=case["binary"], export_constants_separately=case["sep_const"])
    for j, st in enumerate(steps):
        tuples = []
        for kind, d, es in ents:
            for e, ps, pv in zip(es, base[(kind, d)]["s"], base[(kind, d)]["v"]):
                if case["style"] == "state":
                    s, v = _arrays(case, ps, pv, j, True)
                    data = mdg.subdomain_data(e) if kind == "sd" else mdg.interface_data(e)
                    pp.set_solution_values(name="s", values=s, data=data, time_step_index=0)
                    pp.set_solution_values(name="v", values=v, data=data, time_step_index=0)
                else:
                    s, v = _arrays(case, ps, pv, j, case["flat_vec"])
                    tuples += [(e, "s", s), (e, "v", v)]
        ex.write_vtu(keys if case["style"] == "state" else tuples, time_step=st)
    ex.write_pvd(times=None if case["times"] is None else np.array(case["times"], dtype=float))

    def fname(kind, d, st):
        return folder / ("c38_" + ("mortar_" if kind == "intf" else "") + f"{d}_{st:06d}.vtu")

    # ---- what the exporter grouped, and what is in the files of the last step
    for kind, d, es in ents:
        geom = ex.meshio_geom[d] if kind == "sd" else ex.m_meshio_geom[d]
        grids = list(es) if kind == "sd" else [g for i in es for _, g in i.side_grids.items()]
        sides = [1] * len(es) if kind == "sd" else [len(i.side_grids) for i in es]
        r = {"kind": kind, "dim": d, "grids": [_grid_info(g) for g in grids], "sides": sides,
             "sizes": [int(e.num_cells) for e in es],
             "cell_ids": [[int(x) for x in ids] for ids in geom.cell_ids],
             "types": [c.type for c in geom.connectivity]}
        try:
            m = meshio.read(fname(kind, d, steps[last]))
            r["s_blocks"] = [[frac(x - SHIFT * last) for x in np.asarray(b).ravel()] for b in m.cell_data["s"]]
            r["v_blocks"] = [[[frac(x - SHIFT * last) for x in row] for row in np.asarray(b).reshape(len(b), -1)] for b in m.cell_data["v"]]
        except Exception as e:  # meshio refuses the file (finding: polyhedron block order)
            r["s_blocks"] = r["v_blocks"] = {"err": type(e).__name__, "msg": str(e)[:200]}
        rec["dims"].append(r)

    # ---- import, three ways, each into the zeroed md-grid through a new Exporter (as after a restart)
    ikeys = None if case["style"] == "state" else keys
    for route in ROUTES:
        _zero(mdg, ents, case)
        ex2 = pp.Exporter(mdg, "c38", folder, binary=case["binary"], export_constants_separately=case["sep_const"])
        info = {}
        try:
            if route == "vtu":
                for kind, d, es in ents:  # file by file, so that a failure in one dimension does not hide the others
                    try:
                        ex2.import_state_from_vtu([fname(kind, d, steps[last])], keys=ikeys)
                    except Exception as e:
                        rec["errors"][f"vtu:{kind}{d}"] = f"{type(e).__name__}: {str(e)[:200]}"
            elif route == "mdg_pvd":
                info["time_index"] = int(ex2.import_from_pvd(folder / f"c38_{steps[last]:06d}.pvd", is_mdg_pvd=True, keys=ikeys))
            else:
                info["time_index"] = int(ex2.import_from_pvd(folder / "c38.pvd", keys=ikeys))
        except Exception as e:
            rec["errors"][route] = f"{type(e).__name__}: {str(e)[:200]}"
        info["imp"] = _read_imported(mdg, ents)
        rec["routes"][route] = info

    # ---- expected values (independent of the exporter): what was handed over at each step
    rec["expected"] = {j: {f"{kind}{d}": {"s": [_exp_s(p, j) for p in base[(kind, d)]["s"]], "v": [_exp_v(p, j) for p in base[(kind, d)]["v"]]}
                           for kind, d, es in ents} for j in range(len(steps))}
    rec["base"] = {f"{kind}{d}": {"s": [[frac(x) for x in p] for p in base[(kind, d)]["s"]],
                                   "v": [[[frac(x) for x in col] for col in p] for p in base[(kind, d)]["v"]]} for kind, d, es in ents}

    # ---- time information
    rec["time"] = _run_time(case, folder)
    return rec


def _num(x):
    return np.int64(x) if isinstance(x, int) else float(x)


def _run_time(case, folder):
    import porepy as pp

    tc = case["time"]
    path = folder / "sub" / "times.json"
    tm = pp.TimeManager(schedule=[0.0, 1.0], dt_init=0.5, constant_dt=True)
    for t, dt in tc["writes"]:
        tm.time, tm.dt = _num(t), _num(dt)
        tm.write_time_information(path)
    tm2 = pp.TimeManager(schedule=[0.0, 1.0], dt_init=0.5, constant_dt=True)
    tm2.load_time_information(path)
    out = {"times": [frac(x) for x in tm2.exported_times], "dts": [frac(x) for x in tm2.exported_dt],
           "types_ok": all(type(x) in (int, float) for x in list(tm2.exported_times) + list(tm2.exported_dt))}
    try:
        tm2.set_time_and_dt_from_exported_steps(tc["index"])
        out["set"] = {"time": frac(tm2.time), "dt": frac(tm2.dt), "times": [frac(x) for x in tm2.exported_times], "dts": [frac(x) for x in tm2.exported_dt]}
    except Exception as e:
        out["set"] = {"err": type(e).__name__}
    return out


# ----------------------------------------------------------------------------- classes of inputs hit by the known findings
def _class_poly(rec):
    """3-d subdomains go through the polyhedron writer and the node counts first occur in non-ascending order"""
    for r in rec["dims"]:
        if r["kind"] == "sd" and r["dim"] == 3 and any(t.startswith("polyhedron") for t in r["types"]):
            order = _first_occurrence_keys([g["nnodes"] for g in r["grids"]])
            return order != sorted(order)
    return False


def _labels(case):
    times = case["times"] if case["times"] is not None else case["steps"]
    return ["%f" % float(t) for t in times]


def _class_pvd_sort(case):
    lab = _labels(case)
    return sorted(set(lab))[-1] != lab[-1]


def _class_pvd_index(case):
    times = case["times"] if case["times"] is not None else case["steps"]
    return int(float("%f" % float(times[-1]))) != case["steps"][-1]


def _data_step(case, rec, imp):
    """which exported step do the imported scalar values belong to (None: none of them)"""
    for j in range(len(case["steps"])):
        if all(imp[k]["s"] == rec["expected"][j][k]["s"] and imp[k]["v"] == rec["expected"][j][k]["v"] for k in imp):
            return j
    return None


# ----------------------------------------------------------------------------- harness interface
def impl_run(case):
    rec = _run(case)
    last = len(case["steps"]) - 1
    dims = []
    for r in rec["dims"]:
        k = f"{r['kind']}{r['dim']}"
        imp = {}
        for route in ROUTES:
            got = rec["routes"][route]["imp"][k]
            sub = lambda part: None if part is None else [frac(Fraction(x) - SHIFT * last) for x in part]
            imp[route] = {"s": [sub(p) for p in got["s"]], "v": [sub(p) for p in got["v"]]}
        dims.append({"kind": r["kind"], "dim": r["dim"], "cell_ids": r["cell_ids"], "sizes": r["sizes"],
                     "s_blocks": r["s_blocks"], "v_blocks": r["v_blocks"], "imp": imp})
    t = rec["time"]
    return {"dims": dims, "time": {"times": t["times"], "dts": t["dts"], "set": t["set"]},
            "pvd": {"time_index": rec["routes"]["pvd"].get("time_index"), "errors": sorted(rec["errors"])}}


def model_ops(case):
    rec = _run(case)
    ops = []
    for r in rec["dims"]:
        k = f"{r['kind']}{r['dim']}"
        ops.append({"op": "dim", "dim": r["dim"], "grids": r["grids"], "sides": r["sides"],
                    "scalar": rec["base"][k]["s"], "vector": rec["base"][k]["v"]})
    ops.append({"op": "time", "writes": [[frac(_num(t)), frac(_num(dt))] for t, dt in case["time"]["writes"]], "index": case["time"]["index"]})
    ops.append({"op": "pvd", "steps": case["steps"]})
    return ops


def model_decode(outs, case):
    rec = _run(case)
    dims = []
    for r, o in zip(rec["dims"], outs):
        if "err" in o:
            dims.append(o)
            continue
        imp = {route: {"s": o["s_imp"], "v": o["v_imp"]} for route in ROUTES}
        dims.append({"kind": r["kind"], "dim": r["dim"], "cell_ids": o["cell_ids"], "sizes": o["sizes"],
                     "s_blocks": o["s_blocks"], "v_blocks": o["v_blocks"], "imp": imp})
    t, p = outs[-2], outs[-1]
    return {"dims": dims, "time": t, "pvd": {"time_index": p.get("step"), "errors": []}}


def oracle(case):
    """The property on the real code: every subdomain and interface gets back, cell by cell, what was written at the
    most recent time step - through each of the three import routes; the time information is restored."""
    rec = _run(case)
    last = len(case["steps"]) - 1
    fails = []

    def add(what, key):
        fails.append({"what": what, "key": key})

    poly = _class_poly(rec)
    want = rec["expected"][last]
    for route in ROUTES:
        info = rec["routes"][route]
        errs = {k: v for k, v in rec["errors"].items() if k == route or k.startswith(route + ":")}
        known_poly_err = False
        for k, msg in errs.items():
            if poly and "Incompatible cell data" in msg and (k in ("mdg_pvd", "pvd", "vtu:sd3")):
                known_poly_err = True
                add(f"import ({k}) raised {msg} for 3-d grids whose polyhedron blocks are not in ascending node count", KEY_POLY)
            else:
                add(f"import ({k}) raised {msg}", f"import-raises-{route}")
        if known_poly_err and route != "vtu":
            continue  # the whole import was aborted
        if route == "pvd":
            j = _data_step(case, rec, info["imp"])
            if j is not None and j != last:
                cls = _class_pvd_sort(case)
                add(f"import_from_pvd restored the data of time step {case['steps'][j]} although {case['steps'][last]} is the most recent one "
                    f"(labels {_labels(case)})", KEY_PVD_SORT if cls else "pvd-wrong-step")
                continue
        for k in want:
            for name in ("s", "v"):
                for e, (w, g) in enumerate(zip(want[k][name], info["imp"][k][name])):
                    if w != g:
                        bad = None if g is None else [i for i, (a, b) in enumerate(zip(w, g)) if a != b][:4]
                        if poly and k == "sd3" and g is None and known_poly_err:
                            continue  # already reported: meshio refused the file
                        if poly and k == "sd3":
                            key = KEY_POLY  # the values of another block arrived here
                        else:
                            key = f"roundtrip-differs-{route}-{k}-{name}"
                        add(f"{route}: entity {e} of {k}, field {name}: written {w[:6]}.. imported {None if g is None else g[:6]}.. (first differing positions {bad})", key)
        if "time_index" in info and info["time_index"] != case["steps"][last]:
            if route == "pvd" and _class_pvd_index(case) and not _class_pvd_sort(case):
                add(f"import_from_pvd returned time index {info['time_index']} for the files of time step {case['steps'][last]} "
                    f"(int of the time label {_labels(case)[-1]})", KEY_PVD_INDEX)
            elif route == "pvd" and _class_pvd_sort(case):
                add(f"import_from_pvd returned time index {info['time_index']}, most recent step is {case['steps'][last]} (labels {_labels(case)})", KEY_PVD_SORT)
            else:
                add(f"{route}: returned time index {info['time_index']}, exported step {case['steps'][last]}", f"time-index-{route}")

    # time information
    t = rec["time"]
    writes = case["time"]["writes"]
    wt, wd = [frac(_num(a)) for a, b in writes], [frac(_num(b)) for a, b in writes]
    if t["times"] != wt or t["dts"] != wd or not t["types_ok"]:
        add(f"time information: written {writes}, loaded {t['times']} / {t['dts']}", "time-info-roundtrip")
    idx, n = case["time"]["index"], len(writes)
    if -n <= idx < n:
        i = idx % n
        exp = {"time": wt[i], "dt": wd[i], "times": wt[:idx], "dts": wd[:idx]}
        if t["set"] != exp:
            add(f"set_time_and_dt_from_exported_steps({idx}) gave {t['set']}, expected {exp}", "time-info-restart")
    elif t["set"] != {"err": "IndexError"}:
        add(f"set_time_and_dt_from_exported_steps({idx}) on {n} entries gave {t['set']}", "time-info-restart-range")

    known = (KEY_POLY, KEY_PVD_SORT, KEY_PVD_INDEX)
    for f in fails:  # anything outside the classes of the known findings is reported first
        if f["key"] not in known:
            return f
    return fails[0] if fails else None


def compare(impl, model, case):
    from harness.common import deep_compare

    return deep_compare(impl, model)


def nontrivial(case):
    rec = _run(case)
    return any(len(r["cell_ids"]) >= 2 or len(r["sizes"]) >= 2 for r in rec["dims"])


def signature(case):
    c = dict(case)
    c.pop("data_seed", None)
    return json.dumps(c, sort_keys=True)


# ----------------------------------------------------------------------------- generator
def _rand_strip(rng, tier):
    n = rng.randint(1, 5 if tier == "quick" else 9)
    shapes = [(1, 0), (0, 1), (1, 1), (1, 1), (2, 0), (0, 2), (2, 1), (1, 2), (2, 2), (3, 1), (3, 2)]
    if rng.random() < 0.15:  # uniform strip: one block only
        return [list(rng.choice(shapes))] * n
    return [list(rng.choice(shapes)) for _ in range(n)]


def _rand_2d(rng, tier):
    r = rng.random()
    if r < 0.6:
        return {"t": "strip", "cells": _rand_strip(rng, tier)}
    if r < 0.8:
        return {"t": "cart", "n": [rng.randint(1, 3), rng.randint(1, 2)]}
    return {"t": "tri", "n": [rng.randint(1, 2), rng.randint(1, 2)]}


def _rand_3d(rng, tier):
    r = rng.random()
    if r < 0.35:
        return {"t": "prism", "cells": _rand_strip(rng, "quick")[:4], "layers": rng.randint(1, 2)}
    if r < 0.6:
        return {"t": "cart", "n": [rng.randint(1, 3), rng.randint(1, 2), rng.randint(1, 2)]}
    if r < 0.85:
        return {"t": "tet", "n": [rng.randint(1, 2), 1, 1]}
    return {"t": "tensor3", "n": [rng.randint(1, 2), rng.randint(1, 2), 1]}


def _rand_low(rng):
    out = []
    for _ in range(rng.choice([0, 0, 1, 2])):
        out.append({"t": "cart", "n": [rng.randint(1, 4)]})
    for _ in range(rng.choice([0, 0, 1, 2])):
        out.append({"t": "point", "x": [rng.randint(0, 3), rng.randint(0, 3), 0]})
    return out


def _case_poly_class(case):
    specs3 = [s for s in case["extra"] if _spec_dim(s) == 3]
    lists = [_spec_keys(s) for s in specs3]
    base = case.get("base")
    if base is not None and base["lib"] == "cube":
        if base["grid_type"] != "cartesian":
            return False  # not generated together with 3-d extras
        blist = [8] * 8
        lists = lists + [blist] if case["extra_first"] else [blist] + lists
        specs3 = specs3 + [{"t": "cart"}]
    if not specs3 or not _poly_mode(specs3):
        return False
    order = _first_occurrence_keys(lists)
    return order != sorted(order)


def gen_case(rng, tier):
    import itertools

    for _ in range(200):
        r = rng.random()
        case = {"base": None, "extra": [], "extra_first": False}
        if r < 0.33:
            case["extra"] = [_rand_2d(rng, tier) for _ in range(rng.randint(1, 3))] + _rand_low(rng)
        elif r < 0.58:
            case["extra"] = [_rand_3d(rng, tier) for _ in range(rng.randint(1, 3))]
            if rng.random() < 0.3:
                case["extra"] += [_rand_2d(rng, tier)] + _rand_low(rng)
        else:
            if rng.random() < 0.6:
                gt = rng.choice(["cartesian", "cartesian", "simplex"])
                case["base"] = {"lib": "square", "grid_type": gt, "fracs": rng.choice([[0], [1], [0, 1]]), "cell_size": rng.choice([0.5, 0.5, 0.25])}
                if rng.random() < 0.6:
                    case["extra"] = [_rand_2d(rng, tier) for _ in range(rng.randint(1, 2))]
            else:
                simplex = tier == "thorough" and rng.random() < 0.2
                case["base"] = {"lib": "cube", "grid_type": "simplex" if simplex else "cartesian",
                                "fracs": [0] if simplex else rng.choice([[0], [0, 1], [0, 1, 2]]), "cell_size": 0.5}
                if not simplex and rng.random() < 0.5:
                    case["extra"] = [_rand_3d(rng, tier)] + ([_rand_2d(rng, tier)] if rng.random() < 0.5 else [])
            case["extra_first"] = rng.random() < 0.5
        rng.shuffle(case["extra"])
        if _case_poly_class(case) and rng.random() < 0.8:
            # mostly avoid the class of the known polyhedron finding: look for a creation order that is fine
            fixed = False
            for ef in (case["extra_first"], not case["extra_first"]):
                for perm in itertools.islice(itertools.permutations(case["extra"]), 24):
                    c2 = dict(case, extra=list(perm), extra_first=ef)
                    if not _case_poly_class(c2):
                        case, fixed = c2, True
                        break
                if fixed:
                    break
            if not fixed:
                continue
        break
    case["data_seed"] = rng.randrange(10 ** 9)
    case["nd"] = rng.choice([1, 2, 2, 3, 3])
    case["style"] = rng.choice(["tuple", "tuple", "state"])
    case["flat_vec"] = rng.random() < 0.4
    case["binary"] = rng.random() < 0.7
    case["sep_const"] = rng.random() < 0.2
    r = rng.random()
    if r < 0.8:
        k = rng.randint(1, 3)
        lo = rng.choice([0, 0, 1, 3, 10, 25])
        hi = 9 if lo < 10 else 99
        case["steps"] = sorted(rng.sample(range(lo, hi + 1), k))
        case["times"] = None
    elif r < 0.9:  # steps whose labels have different numbers of digits
        case["steps"] = rng.choice([[9, 10], [2, 10], [8, 9, 10], [7, 12], [99, 100], [5, 11, 100]])
        case["times"] = None
    else:  # actual times, as DataSavingMixin.write_pvd_and_vtu passes them
        k = rng.randint(1, 3)
        dt = rng.choice([0.5, 0.25, 2.0, 1.0])
        s0 = rng.randint(0, 3)
        case["steps"] = list(range(s0, s0 + k))
        case["times"] = [dt * s for s in case["steps"]]
    nw = rng.randint(1, 6)
    pool = [0.1, 0.2, 0.30000000000000004, 1e-7, 1 / 3, 2.5e10, 86400.0, 1.7976931348623157e308, 5e-324, 3, 10, 0, 1]
    writes = []
    for _ in range(nw):
        t = rng.choice(pool) if rng.random() < 0.5 else rng.uniform(0, 100) * 10 ** rng.randint(-6, 6)
        dt = rng.choice(pool) if rng.random() < 0.5 else rng.uniform(0, 1)
        writes.append([t, dt])
    case["time"] = {"writes": writes, "index": rng.choice([-1, -1, -1, nw - 1, rng.randint(-nw - 1, nw)])}
    return case


def shrink_candidates(case):
    ex = case["extra"]
    for i in range(len(ex)):
        if len(ex) > 1 or case["base"] is not None:
            yield dict(case, extra=ex[:i] + ex[i + 1:])
    if case["base"] is not None:
        yield dict(case, base=None, extra=ex if ex else [{"t": "cart", "n": [2]}])
    for i, s in enumerate(ex):
        if s["t"] in ("strip", "prism") and len(s["cells"]) > 1:
            for j in range(len(s["cells"])):
                yield dict(case, extra=ex[:i] + [dict(s, cells=s["cells"][:j] + s["cells"][j + 1:])] + ex[i + 1:])
    if len(case["steps"]) > 1:
        yield dict(case, steps=case["steps"][1:], times=None if case["times"] is None else case["times"][1:])
    if len(case["time"]["writes"]) > 1 or case["time"]["index"] != -1:
        yield dict(case, time={"writes": case["time"]["writes"][-1:], "index": -1})
    for k, v in (("sep_const", False), ("binary", True), ("style", "tuple"), ("flat_vec", False), ("nd", 2)):
        if case[k] != v:
            yield dict(case, **{k: v})


def stats(cases, impl_outs):
    n_blocks, n_ent, routes_ok = {}, {}, 0
    kinds = {"sd": 0, "intf": 0}
    dims = {}
    poly = 0
    for c, o in zip(cases, impl_outs):
        if "dims" not in o:
            continue
        for r in o["dims"]:
            kinds[r["kind"]] += 1
            dims[str(r["dim"])] = dims.get(str(r["dim"]), 0) + 1
            b = len(r["cell_ids"])
            n_blocks[str(b)] = n_blocks.get(str(b), 0) + 1
            e = len(r["sizes"])
            n_ent[str(e)] = n_ent.get(str(e), 0) + 1
        poly += int(_case_poly_class(c))
    return {"dimension_records": dims, "subdomain_vs_interface_records": kinds, "cell_id_blocks_per_record": n_blocks,
            "entities_per_record": n_ent, "cases_in_polyhedron_finding_class": poly,
            "cases_in_pvd_sort_class": sum(int(_class_pvd_sort(c)) for c in cases),
            "cases_in_pvd_index_class": sum(int(_class_pvd_index(c) and not _class_pvd_sort(c)) for c in cases),
            "styles": {s: sum(1 for c in cases if c["style"] == s) for s in ("tuple", "state")},
            "ascii": sum(1 for c in cases if not c["binary"]), "separate_constants": sum(1 for c in cases if c["sep_const"]),
            "with_library_mdg": sum(1 for c in cases if c["base"] is not None),
            "export_import_cycles": len(cases), "import_calls": 3 * len(cases)}
