"""C38 Exported states are restored exactly on import (Exporter vtu/pvd round trip, time information)."""
import contextlib
import io
import json
import os
import shutil
import tempfile
import warnings
from fractions import Fraction
from pathlib import Path

import numpy as np

from harness.common import frac as _frac

PID = "C38"


def frac(x):
    """exact wire form; non-finite floats (np.empty garbage after a wrong import) as words, never an exception"""
    try:
        return _frac(x)
    except (ValueError, OverflowError):
        return repr(float(x))

THEOREMS = [
    "PorepyVerif.C38.groups_partition_cells",
    "PorepyVerif.C38.groups_partition_cells_as_coded",
    "PorepyVerif.C38.chop_concat_id",
    "PorepyVerif.C38.import_export_id",
    "PorepyVerif.C38.import_export_id_vector",
    "PorepyVerif.C38.gatherCols_eq_gather",
    "PorepyVerif.C38.roundtrip_dim",
    "PorepyVerif.C38.time_info_roundtrip",
    "PorepyVerif.C38.time_history_roundtrip",
    "PorepyVerif.C38.restart_time_restored",
    "PorepyVerif.C38.restart_time_restored_last",
    "PorepyVerif.C38.pvd_selects_latest",
    "PorepyVerif.C38.point_data_roundtrip",
    "PorepyVerif.C38.point_data_roundtrip_dim",
    "PorepyVerif.C38.point_data_roundtrip_vector",
    "PorepyVerif.C38.length_scale_points",
    "PorepyVerif.C38.length_scale_data_untouched",
    "PorepyVerif.C38.points_compatible_same_scale",
    "PorepyVerif.C38.parse_makeName",
    "PorepyVerif.C38.parse_makeName_nostep",
    "PorepyVerif.C38.suffix_index",
    "PorepyVerif.C38.suffix_zero_padding",
    "PorepyVerif.C38.manual_resolution",
    "PorepyVerif.C38.manual_agrees_with_automatic",
    "PorepyVerif.C38.valueF_renderF",
    "PorepyVerif.C38.pvd_selects_latest_labels",
    "PorepyVerif.C38.pvd_index_is_latest_step",
    "PorepyVerif.C38.toVectorFormat_ok_iff",
    "PorepyVerif.C38.buildField_all",
    "PorepyVerif.C38.buildField_partial",
    "PorepyVerif.C38.counterSteps_eq",
    "PorepyVerif.C38.monoEntries_spec",
    "PorepyVerif.C38.wellFormedLabel_spec",
    "PorepyVerif.C38.pvd_index_is_max_step",
    "PorepyVerif.C38.restart_restores_latest",
]
LEAN_MODULES = ["PorepyVerif.C38.Props"]
AUDIT = "PorepyVerif/C38/Audit.lean"
DRIVER = "PorepyVerif/C38/Driver.lean"
N = {"quick": 16, "thorough": 400}
RULE = ("md-grids from a recipe: hand-built 2-d strips mixing triangles, quadrilaterals, pentagons, hexagons; Cartesian and "
        "structured simplex grids in 1-3 d; 3-d prisms extruded from the strips, tensor (non-Cartesian) hexahedra; point grids; "
        "mdg_library squares/cubes with 1-3 fractures (interfaces with two sides) plus extra subdomains; 1-3 subdomains per "
        "dimension in both creation orders; a fixed share of the cases (stratum 'mixed-nonlast') has >= 2 grids of one dimension "
        "of which a NON-LAST one mixes cell types. Data: distinct dyadic values per cell and per node (scalar, vector nd 1-3 "
        "handed over 2-d or flat), tuple input or state keys, binary or ascii, 1-3 exported time steps with different values "
        "(labels with different digit counts and real times included), constants in the same or separate files, length scale "
        "1, 1/2, 4, 1/8. Every case is exported once and imported four ways: list of vtu files (cell and point keys), md pvd of "
        "the last step, conventional pvd, and renamed copies of the files with automatic=False and explicit dims / "
        "are_subdomain_data (list, or one value). Entry points: tuples (grid, key, array), state keys, ([grids], key) lists, and "
        "Exporter(grid) with (key, array). Strata reported in input_distribution: one-cell grids, duplicate grid recipes, extreme "
        "length and value scales (2^-20 .. 2^30), last step written twice, data on some entities only / arrays of a wrong size "
        "(ValueError expected), the DataSavingMixin call sequence over 1-11 steps with restart. non-trivial = some dimension has >= 2 cell-id blocks or >= 2 entities; "
        "distinct = distinct recipes")
TRUSTED = [
    "modelled, not verified: meshio's vtu writer/reader (file format, base64/zlib, cell blocks; its regrouping of polyhedral cell data by ascending node count is modelled as `readBack`), numpy fancy indexing/hstack/reshape glue, the node ordering of polygons/polyhedra (connectivity)",
    "the per-cell type keys (number of nodes / faces per cell, isinstance CartGrid), node coordinates, node counts and MortarGrid.num_cells / num_nodes = sums over the side grids are read by the harness from the porepy grids and tied to the exporter only through the correspondence check",
    "time information: the theorem assumes a number codec with dec(enc x) = some x; for the real code this is json.dump/json.load of Python floats (repr round-trips every finite binary64) and ints - trusted, and exercised by the oracle with arbitrary floats",
    "pvd files: ElementTree parsing and that '%f' % t prints round(t*1e6) as digits '.' six digits and float() reads it back monotonically (the label model `renderF`/`valueF` is compared with the labels found in the real pvd files); file names are modelled as lists of '_'-separated pieces",
    "length scale: exact only for powers of two (generator), since the model multiplies rationals",
]
EXPLANATION = ("FULL for the permutation and bookkeeping logic: model = grouping of cells by type per dimension with offsets, block-wise "
               "export, import by scatter through cell_ids and chopping per entity (subdomains and two-sided mortar grids) incl. meshio's "
               "regrouping of polyhedral data; point data (stack / chop by node counts); length scale (points scaled, data untouched); file "
               "names, automatic and manual (automatic=False) resolution of dimension and kind; '%f' time labels with their numeric value, "
               "choice of the numerically latest label and time index from the file suffix; time-information files. Theorems: "
               "groups_partition_cells, import_export_id (scalar, vector), chop_concat_id, roundtrip_dim, point_data_roundtrip(_dim,_vector), "
               "length_scale_*, parse_makeName, suffix_index, manual_resolution, valueF_renderF, pvd_selects_latest_labels, "
               "pvd_index_is_latest_step / pvd_index_is_max_step (monotonicity and label well-formedness are decidable input conditions the "
               "driver evaluates on every real pvd file), restart_restores_latest (selection composed with the round trip), buildField_all / "
               "buildField_partial and toVectorFormat_ok_iff (error branches), counterSteps_eq, time_info_roundtrip. Correspondence compares cell_ids, points, the blocks and point values read "
               "back from the files with meshio, file names, pvd selection and all imported values, exactly. The file format itself is "
               "outside (partial in that sense).")
ASSUMPTIONS = ["cell and point values are dyadic rationals (binary64 exact) so that the ascii writer and the rational model agree exactly",
               "times passed to write_pvd are non-negative and increase with the time-step index (as in a simulation)",
               "file name stem without the word 'mortar' (hypothesis of parse_makeName)"]

SHIFT = 4096  # values written at the j-th exported step (j = 0, 1, ..) are base + SHIFT*j
ROUTES = ("vtu", "mdg_pvd", "pvd", "manual")
CELL_FIELDS = ("s", "v")
POINT_FIELDS = ("ps", "pv")
FIELDS = CELL_FIELDS + POINT_FIELDS


# ----------------------------------------------------------------------------- grids from recipes
def _strip(cells):
    """Planar strip of polygons between a bottom (y=0) and a top (y=1) node row. cells: list of
    (a, c) = number of bottom and top edges of the cell (a + c >= 1); the cell has a + c + 2 nodes."""
    import porepy as pp
    import scipy.sparse as sps

    nb = sum(a for a, c in cells) + 1
    nt = sum(c for a, c in cells) + 1
    nodes = np.zeros((3, nb + nt))
    nodes[0, :nb] = np.arange(nb)
    nodes[0, nb:] = np.arange(nt)
    nodes[1, nb:] = 1.0
    faces = []

    def face(n0, n1):
        faces.append((n0, n1))
        return len(faces) - 1

    bi = ti = 0
    left = face(0, nb)
    rows, cols, data = [], [], []
    for ci, (a, c) in enumerate(cells):
        fl = [(left, -1.0 if ci > 0 else 1.0)]
        for k in range(a):
            fl.append((face(bi + k, bi + k + 1), 1.0))
        bi += a
        for k in range(c):
            fl.append((face(nb + ti + k, nb + ti + k + 1), 1.0))
        ti += c
        right = face(bi, nb + ti)
        fl.append((right, 1.0))
        left = right
        for f, s in fl:
            rows.append(f)
            cols.append(ci)
            data.append(s)
    nf = len(faces)
    fn = sps.csc_matrix((np.ones(2 * nf, dtype=bool), np.array(faces).ravel(), np.arange(0, 2 * nf + 1, 2)), shape=(nb + nt, nf))
    cf = sps.csc_matrix((data, (rows, cols)), shape=(nf, len(cells)))
    g = pp.Grid(2, nodes, fn, cf, "strip")
    g.compute_geometry()
    return g


def _build_grid(spec):
    import porepy as pp

    t = spec["t"]
    if t == "strip":
        return _strip([tuple(c) for c in spec["cells"]])
    if t == "prism":
        g2 = _strip([tuple(c) for c in spec["cells"]])
        g, _, _ = pp.grid_extrusion.extrude_grid(g2, np.arange(spec["layers"] + 1, dtype=float))
        return g
    if t == "cart":
        g = pp.CartGrid(np.array(spec["n"]))
    elif t == "tri":
        g = pp.StructuredTriangleGrid(np.array(spec["n"]))
    elif t == "tet":
        g = pp.StructuredTetrahedralGrid(np.array(spec["n"]))
    elif t == "tensor3":
        g = pp.TensorGrid(*[np.arange(k + 1, dtype=float) for k in spec["n"]])
    elif t == "point":
        g = pp.PointGrid(np.array(spec.get("x", [0.0, 0.0, 0.0]), dtype=float))
    else:
        raise ValueError(f"unknown grid spec {spec}")
    g.compute_geometry()
    return g


def _spec_dim(spec):
    t = spec["t"]
    return {"strip": 2, "prism": 3, "tri": 2, "tet": 3, "tensor3": 3, "point": 0}.get(t) if t != "cart" else len(spec["n"])


def _build_mdg(case):
    import porepy as pp

    extra_specs = case.get("extra", [])
    base = case.get("base")
    extras = []
    if case.get("extra_first", False):
        extras = [_build_grid(s) for s in extra_specs]
    if base is None:
        mdg = pp.MixedDimensionalGrid()
    else:
        fn = pp.mdg_library.square_with_orthogonal_fractures if base["lib"] == "square" else pp.mdg_library.cube_with_orthogonal_fractures
        mdg, _ = fn(base["grid_type"], meshing_args={"cell_size": base["cell_size"]}, fracture_indices=list(base["fracs"]))
    if not case.get("extra_first", False):
        extras = [_build_grid(s) for s in extra_specs]
    if extras:
        mdg.add_subdomains(extras)
    return mdg


# ----------------------------------------------------------------------------- data
def _entities(mdg):
    """[(kind, dim, [entities in listing order])] for every dimension with subdomains / interfaces"""
    out = []
    for d in sorted({sd.dim for sd in mdg.subdomains()}, reverse=True):
        out.append(("sd", d, mdg.subdomains(dim=d)))
    for d in sorted({i.dim for i in mdg.interfaces(codim=1)}, reverse=True):
        out.append(("intf", d, mdg.interfaces(dim=d, codim=1)))
    return out


def _nn(e):
    """number of exported points of a grid / mortar grid"""
    return int(e.num_cells) if e.dim == 0 else int(e.num_nodes)


def _base_data(case, ents):
    """distinct dyadic values per cell / node. scalars: list per entity; vectors: list of columns per entity"""
    import random

    rng = random.Random(f"C38-data-{case['data_seed']}")
    nd = case["nd"]
    explicit = case.get("values")
    out = {}
    for kind, d, es in ents:
        rec = {}
        for fs, fv, sizes in (("s", "v", [int(e.num_cells) for e in es]), ("ps", "pv", [_nn(e) for e in es])):
            tot = sum(sizes)
            if fs == "s" and explicit is not None and f"{kind}{d}" in explicit:
                flat_s = [Fraction(x) for part in explicit[f"{kind}{d}"] for x in part]
            else:
                flat_s = [Fraction(k, 8) for k in rng.sample(range(-4 * tot - 8, 4 * tot + 8), tot)]
            flat_v = [Fraction(k, 4) for k in rng.sample(range(-2 * tot * nd - 8, 2 * tot * nd + 8), tot * nd)]
            s, v, o = [], [], 0
            for n in sizes:
                s.append(flat_s[o:o + n])
                v.append([flat_v[(o + c) * nd:(o + c + 1) * nd] for c in range(n)])
                o += n
            rec[fs], rec[fv] = s, v
        out[(kind, d)] = rec
    return out


def _arrays(case, part_s, part_v, j, flat_vec):
    """numpy arrays handed to the exporter for one entity at the j-th exported step"""
    off = SHIFT * j
    vs = float(_vs(case))  # power of two: exact
    s = np.array([(float(x) + off) * vs for x in part_s])
    n, nd = len(part_v), case["nd"]
    A = np.array([[(float(col[i]) + off) * vs for col in part_v] for i in range(nd)]).reshape(nd, n)
    if flat_vec:
        return s, A.ravel("F")  # cell-major flat array, as the models store vector variables
    return s, A


def _vs(case):
    return Fraction(case.get("vscale", "1"))


def _expected(case, base_kd, j):
    """what the importer must deliver for step j: scalars as they are, vectors flat (entity-major)"""
    out, vs = {}, _vs(case)
    for f in FIELDS:
        if f in ("s", "ps"):
            out[f] = [[frac((x + SHIFT * j) * vs) for x in p] for p in base_kd[f]]
        else:
            out[f] = [[frac((x + SHIFT * j) * vs) for col in p for x in col] for p in base_kd[f]]
    return out


# ----------------------------------------------------------------------------- the real code, once per case
_CACHE = {}


def _case_key(case):
    return json.dumps(case, sort_keys=True)


@contextlib.contextmanager
def _workdir():
    d = tempfile.mkdtemp(prefix="c38_")
    cwd = os.getcwd()
    os.chdir(d)  # gmsh drops its .geo/.msh files into the working directory
    try:
        yield Path(d)
    finally:
        os.chdir(cwd)
        shutil.rmtree(d, ignore_errors=True)


def _pts(a):
    return [[frac(x) for x in col] for col in np.asarray(a, dtype=float).T]


def _grid_info(g):
    """what the model needs to know about a grid, read independently of the exporter"""
    import porepy as pp

    nc = int(g.num_cells)
    if g.dim == 0:
        return {"cart": False, "nfaces": [0] * nc, "nnodes": [0] * nc, "dim": 0, "nodes": [], "centers": _pts(g.cell_centers)}
    cn = g.cell_nodes()
    nn = np.diff(cn.tocsc().indptr)
    nf = np.diff(g.cell_faces.tocsc().indptr)
    return {"cart": bool(isinstance(g, pp.CartGrid)), "nfaces": [int(x) for x in nf], "nnodes": [int(x) for x in nn],
            "dim": int(g.dim), "nodes": _pts(g.nodes), "centers": []}


def _data_dict(mdg, kind, e):
    return mdg.subdomain_data(e) if kind == "sd" else mdg.interface_data(e)


def _zero(mdg, ents, case):
    import porepy as pp

    for kind, d, es in ents:
        for e in es:
            data = _data_dict(mdg, kind, e)
            data.pop(pp.TIME_STEP_SOLUTIONS, None)
            if case["style"] in ("state", "listkey"):  # keys=None on import looks the keys up in the data dictionaries
                pp.set_solution_values(name="s", values=np.zeros(e.num_cells), data=data, time_step_index=0)
                pp.set_solution_values(name="v", values=np.zeros(e.num_cells * case["nd"]), data=data, time_step_index=0)


def _read_imported(mdg, ents):
    import porepy as pp

    out = {}
    for kind, d, es in ents:
        rec = {f: [] for f in FIELDS}
        for e in es:
            sol = _data_dict(mdg, kind, e).get(pp.TIME_STEP_SOLUTIONS, {})
            for f in FIELDS:
                rec[f].append([frac(x) for x in np.asarray(sol[f][0]).ravel()] if f in sol else None)
        out[f"{kind}{d}"] = rec
    return out


def _run(case):
    k = _case_key(case)
    if k not in _CACHE:
        if len(_CACHE) > 5000:
            _CACHE.clear()
        with warnings.catch_warnings(), contextlib.redirect_stderr(io.StringIO()), contextlib.redirect_stdout(io.StringIO()):
            warnings.simplefilter("ignore")  # meshio's ascii warning, geometry warnings of the hand-built grids
            with _workdir() as d:
                try:
                    _CACHE[k] = _run_real(case, d)
                except Exception as e:  # the export (or grid construction) itself failed: a verdict, not a harness crash
                    _CACHE[k] = {"fatal": _err(e)}
    return _CACHE[k]


def _err(e):
    import traceback

    tb = traceback.extract_tb(e.__traceback__)
    line = (tb[-1].line or "") if tb else ""
    return f"{type(e).__name__}: {str(e)[:160]} @ {line[:80]}"


def _manual_args(case, truth):
    """arguments of the automatic=False call for files with the given (dim, is_subdomain) in call order"""
    dims = [d for d, _ in truth]
    flags = [f for _, f in truth]
    kw = {"automatic": False}
    kw["dims"] = dims[0] if len(set(dims)) == 1 and case["data_seed"] % 2 == 0 else dims
    if all(flags) and case["data_seed"] % 3 == 0:
        pass  # default: subdomain data
    elif len(set(flags)) == 1 and case["data_seed"] % 3 == 1:
        kw["are_subdomain_data"] = flags[0]
    else:
        kw["are_subdomain_data"] = flags
    return kw


def _run_real(case, folder):
    import random
    import xml.etree.ElementTree as ET

    import meshio
    import porepy as pp

    mdg = _build_mdg(case)
    ents = _entities(mdg)
    base = _base_data(case, ents)
    steps = case["steps"]
    last = len(steps) - 1
    L = float(Fraction(case.get("L", "1")))
    rec = {"dims": [], "routes": {}, "errors": {}}
    xkw = dict(binary=case["binary"], export_constants_separately=case["sep_const"], length_scale=L)

    # ---- export
    style = case["style"]
    single = style == "single"  # entry point Exporter(grid): the exporter wraps the grid in its own md-grid
    if single and (len(ents) != 1 or len(ents[0][2]) != 1):
        raise ValueError("style 'single' needs exactly one subdomain")

    def new_exporter():
        if single:
            e = pp.Exporter(ents[0][2][0], "c38", folder, **xkw)
            return e, e._mdg
        return pp.Exporter(mdg, "c38", folder, **xkw), mdg

    ex, xm = new_exporter()
    # (step, data index): with 'repeat' the last step is written twice, first with other values (file overwritten)
    plan = [(st, j) for j, st in enumerate(steps)]
    if case.get("repeat", False):
        plan = plan[:-1] + [(steps[-1], last + 5), plan[-1]]
    for st, j in plan:
        cell_t, point_t = [], []
        for kind, d, es in ents:
            b = base[(kind, d)]
            for i, e in enumerate(es):
                if style in ("state", "listkey"):
                    data = _data_dict(xm, kind, e)
                    for fs, fv in (("s", "v"), ("ps", "pv")):
                        s, v = _arrays(case, b[fs][i], b[fv][i], j, True)
                        pp.set_solution_values(name=fs, values=s, data=data, time_step_index=0)
                        pp.set_solution_values(name=fv, values=v, data=data, time_step_index=0)
                elif single:
                    s, v = _arrays(case, b["s"][i], b["v"][i], j, case["flat_vec"])
                    cell_t += [("s", s), ("v", v)]
                    s, v = _arrays(case, b["ps"][i], b["pv"][i], j, case["flat_vec"])
                    point_t += [("ps", s), ("pv", v)]
                else:
                    s, v = _arrays(case, b["s"][i], b["v"][i], j, case["flat_vec"])
                    cell_t += [(e, "s", s), (e, "v", v)]
                    s, v = _arrays(case, b["ps"][i], b["pv"][i], j, case["flat_vec"])
                    point_t += [(e, "ps", s), (e, "pv", v)]
        if style == "state":
            ex.write_vtu(list(CELL_FIELDS), data_pt=list(POINT_FIELDS), time_step=st)
        elif style == "listkey":  # ([grids], key) and ([mortar grids], key)
            groups = [list(xm.subdomains())] + ([list(xm.interfaces(codim=1))] if xm.interfaces(codim=1) else [])
            ex.write_vtu([(g, f) for g in groups for f in CELL_FIELDS], data_pt=[(g, f) for g in groups for f in POINT_FIELDS], time_step=st)
        else:
            ex.write_vtu(cell_t, data_pt=point_t, time_step=st)
    times = case["times"]
    if times is not None and case.get("repeat", False):
        times = times[:-1] + [times[-1], times[-1]]
    ex.write_pvd(times=None if times is None else np.array(times, dtype=float))
    rec["files"] = sorted(p.name for p in folder.glob("*.vtu"))

    def fname(kind, d, st):
        return folder / ("c38_" + ("mortar_" if kind == "intf" else "") + f"{d}_{st:06d}.vtu")

    # ---- what the exporter grouped, and what is in the files of the last step
    for kind, d, es in ents:
        geom = ex.meshio_geom[d] if kind == "sd" else ex.m_meshio_geom[d]
        grids = list(es) if kind == "sd" else [g for i in es for _, g in i.side_grids.items()]
        sides = [1] * len(es) if kind == "sd" else [len(i.side_grids) for i in es]
        r = {"kind": kind, "dim": d, "grids": [_grid_info(g) for g in grids], "sides": sides,
             "sizes": [int(e.num_cells) for e in es], "node_sizes": [_nn(e) for e in es],
             "cell_ids": [[int(x) for x in ids] for ids in geom.cell_ids],
             "types": [c.type for c in geom.connectivity]}
        try:
            m = meshio.read(fname(kind, d, steps[last]))
            sub, vs = SHIFT * last, _vs(case)
            dec = lambda x: frac(Fraction(float(x)) / vs - sub) if np.isfinite(x) else frac(x)
            r["pts"] = [[frac(x) for x in row] for row in np.asarray(m.points)]
            r["s_blocks"] = [[dec(x) for x in np.asarray(b).ravel()] for b in m.cell_data["s"]]
            r["v_blocks"] = [[[dec(x) for x in row] for row in np.asarray(b).reshape(len(b), -1)] for b in m.cell_data["v"]]
            r["ps_file"] = [dec(x) for x in np.asarray(m.point_data["ps"]).ravel()]
            pv = np.asarray(m.point_data["pv"])
            r["pv_file"] = [[dec(x) for x in row] for row in pv.reshape(len(pv), -1)]
        except Exception as e:
            for f in ("pts", "s_blocks", "v_blocks", "ps_file", "pv_file"):
                r.setdefault(f, {"err": type(e).__name__, "msg": str(e)[:200]})
        rec["dims"].append(r)

    # ---- the conventional pvd file as it is on disk
    rec["pvd_entries"] = [{"label": el.attrib["timestep"], "file": el.attrib["file"]}
                          for el in ET.parse(folder / "c38.pvd").iter("DataSet")]

    # ---- renamed copies for the automatic=False route
    order = [(kind, d) for kind, d, es in ents]
    random.Random(f"C38-manual-{case['data_seed']}").shuffle(order)
    if not case.get("manual_all", True):
        order = order[:1]
    manual_files, truth = [], []
    for n, (kind, d) in enumerate(order):
        dst = folder / f"restart-{'abcdefghij'[n % 10]}{n}x.vtu"
        shutil.copy(fname(kind, d, steps[last]), dst)
        manual_files.append(dst)
        truth.append((d, kind == "sd"))
    mkw = _manual_args(case, truth)
    rec["manual"] = {"truth": [[d, f] for d, f in truth], "dims": mkw["dims"], "flags": mkw.get("are_subdomain_data"),
                     "keys": [f"{'sd' if f else 'intf'}{d}" for d, f in truth]}

    # ---- import, four ways, each into the zeroed md-grid through a new Exporter (as after a restart)
    ikeys = None if style in ("state", "listkey") else list(CELL_FIELDS)
    for route in ROUTES:
        ex2, xm2 = new_exporter()
        _zero(xm2, ents, case)
        info = {}
        try:
            if route == "vtu":
                for kind, d, es in ents:  # file by file, so that a failure in one dimension does not hide the others
                    try:
                        ex2.import_state_from_vtu([fname(kind, d, steps[last])], keys=ikeys, keys_pt=list(POINT_FIELDS))
                    except Exception as e:
                        rec["errors"][f"vtu:{kind}{d}"] = _err(e)
            elif route == "mdg_pvd":
                info["time_index"] = int(ex2.import_from_pvd(folder / f"c38_{steps[last]:06d}.pvd", is_mdg_pvd=True, keys=ikeys))
            elif route == "pvd":
                info["time_index"] = int(ex2.import_from_pvd(folder / "c38.pvd", keys=ikeys))
                info["restart_files"] = [str(f) for f in ex2._restart_files]
            else:
                ex2.import_state_from_vtu(list(manual_files), keys=ikeys, keys_pt=list(POINT_FIELDS), **mkw)
        except Exception as e:
            rec["errors"][route] = _err(e)
        info["imp"] = _read_imported(xm2, ents)
        rec["routes"][route] = info

    # ---- expected values (independent of the exporter): what was handed over at each step
    rec["expected"] = {j: {f"{kind}{d}": _expected(case, base[(kind, d)], j) for kind, d, es in ents} for j in range(len(steps))}
    rec["base"] = {}
    for kind, d, es in ents:
        b = base[(kind, d)]
        rec["base"][f"{kind}{d}"] = {"s": [[frac(x) for x in p] for p in b["s"]], "ps": [[frac(x) for x in p] for p in b["ps"]],
                                      "v": [[[frac(x) for x in col] for col in p] for p in b["v"]],
                                      "pv": [[[frac(x) for x in col] for col in p] for p in b["pv"]]}

    # ---- time information, input handling, the DataSavingMixin path
    rec["time"] = _run_time(case, folder)
    rec["input"] = _run_input(case, folder)
    rec["mixin"] = _run_mixin(case, folder)
    return rec


def _num(x):
    return np.int64(x) if isinstance(x, int) else float(x)


def _run_time(case, folder):
    import porepy as pp

    tc = case["time"]
    path = folder / "sub" / "times.json"
    tm = pp.TimeManager(schedule=[0.0, 1.0], dt_init=0.5, constant_dt=True)
    for t, dt in tc["writes"]:
        tm.time, tm.dt = _num(t), _num(dt)
        tm.write_time_information(path)
    tm2 = pp.TimeManager(schedule=[0.0, 1.0], dt_init=0.5, constant_dt=True)
    tm2.load_time_information(path)
    out = {"times": [frac(x) for x in tm2.exported_times], "dts": [frac(x) for x in tm2.exported_dt],
           "types_ok": all(type(x) in (int, float) for x in list(tm2.exported_times) + list(tm2.exported_dt))}
    try:
        tm2.set_time_and_dt_from_exported_steps(tc["index"])
        out["set"] = {"time": frac(tm2.time), "dt": frac(tm2.dt), "times": [frac(x) for x in tm2.exported_times], "dts": [frac(x) for x in tm2.exported_dt]}
    except Exception as e:
        out["set"] = {"err": type(e).__name__}
    return out


def _run_input(case, folder):
    """error branches of the export: data on some entities of a dimension only; arrays of a wrong size"""
    import meshio
    import porepy as pp

    spec = case.get("input")
    if spec is None:
        return None
    sub = folder / "input"
    gs = [_build_grid({"t": "cart", "n": [2]}) for _ in spec["present"]]
    mdg = pp.MixedDimensionalGrid()
    mdg.add_subdomains(gs)
    try:
        pp.Exporter(mdg, "q", sub).write_vtu([(g, "q", np.array([1.0, 2.0])) for g, p in zip(gs, spec["present"]) if p])
        build = "field" if "q" in meshio.read(sub / "q_1.vtu").cell_data else "nothing"
    except Exception as e:
        build = {"err": type(e).__name__}
    vec = []
    for k, (size, ndofs) in enumerate(spec["sizes"]):
        g = _build_grid({"t": "cart", "n": [ndofs]})
        try:
            pp.Exporter(g, f"w{k}", sub).write_vtu([(g, "q", np.arange(size, dtype=float))])
            m = meshio.read(sub / f"w{k}_1.vtu")
            vec.append("ok" if sum(np.asarray(b).size for b in m.cell_data["q"]) == size else "lost")
        except Exception as e:
            vec.append({"err": type(e).__name__})
    return {"build": build, "vecfmt": vec}


def _micro(t):
    return int(("%f" % float(t)).replace(".", ""))


def _run_mixin(case, folder):
    """the calls of DataSavingMixin.write_pvd_and_vtu / load_data_from_pvd on a small grid"""
    import porepy as pp

    ws = case.get("mixin")
    if ws is None:
        return None
    sub = folder / "mixin"
    g = _build_grid({"t": "cart", "n": [2]})
    tm = pp.TimeManager(schedule=[0.0, 1.0], dt_init=0.5, constant_dt=True)
    ex = pp.Exporter(g, "data", sub)
    for k, (t, dt) in enumerate(ws):
        tm.time, tm.dt = float(t), float(dt)
        tm.write_time_information(sub / "times.json")
        ex.write_vtu([(g, "q", np.array([k + 0.5, -k - 0.25]))], time_dependent=True)
        ex.write_pvd(times=np.array(tm.exported_times))
    ex2 = pp.Exporter(g, "data", sub)
    tm2 = pp.TimeManager(schedule=[0.0, 1.0], dt_init=0.5, constant_dt=True)
    out = {"steps": [int(x) for x in ex._exported_timesteps]}
    try:
        idx = ex2.import_from_pvd(sub / "data.pvd", keys=["q"])
        out["restart_files"] = [str(f) for f in ex2._restart_files]
        tm2.load_time_information(sub / "times.json")
        tm2.set_time_and_dt_from_exported_steps(idx)
        ex2._time_step_counter = idx
        q = ex2._mdg.subdomain_data(g)[pp.TIME_STEP_SOLUTIONS]["q"][0]
        out.update({"index": int(idx), "time": frac(tm2.time), "dt": frac(tm2.dt), "times": [frac(x) for x in tm2.exported_times],
                    "dts": [frac(x) for x in tm2.exported_dt], "q": [frac(x) for x in q]})
    except Exception as e:
        out["err"] = _err(e)
    return out


def _labels(case):
    times = case["times"] if case["times"] is not None else case["steps"]
    return ["%f" % float(t) for t in times]


def _route_fields(route):
    return FIELDS if route in ("vtu", "manual") else CELL_FIELDS  # import_from_pvd has no point keys


def _route_keys(rec, route):
    return rec["manual"]["keys"] if route == "manual" else [f"{r['kind']}{r['dim']}" for r in rec["dims"]]


def _expected_files(case, rec):
    """(appendix, dim, step) of every vtu file the exporter must have written; appendix 0 none, 1 mortar, 2 constant, 3 constant_mortar"""
    out = []
    for j, st in enumerate(case["steps"]):
        for r in rec["dims"]:
            out.append({"app": 1 if r["kind"] == "intf" else 0, "dim": r["dim"], "step": st})
            if case["sep_const"] and j == 0:
                out.append({"app": 3 if r["kind"] == "intf" else 2, "dim": r["dim"], "step": st})
    return out


# ----------------------------------------------------------------------------- harness interface
def impl_run(case):
    rec = _run(case)
    if "fatal" in rec:
        return {"fatal": rec["fatal"]}
    last = len(case["steps"]) - 1
    dims = []
    sub = lambda part: None if part is None else [frac(Fraction(x) / _vs(case) - SHIFT * last) for x in part]
    for r in rec["dims"]:
        k = f"{r['kind']}{r['dim']}"
        imp = {}
        for route in ROUTES:
            if k not in _route_keys(rec, route):
                continue
            got = rec["routes"][route]["imp"][k]
            imp[route] = {f: [sub(p) for p in got[f]] for f in _route_fields(route)}
        dims.append({"kind": r["kind"], "dim": r["dim"], "cell_ids": r["cell_ids"], "sizes": r["sizes"], "node_sizes": r["node_sizes"],
                     "pts": r["pts"], "s_blocks": r["s_blocks"], "v_blocks": r["v_blocks"], "ps_file": r["ps_file"], "pv_file": r["pv_file"],
                     "imp": imp})
    t = rec["time"]
    truth_names = sorted((e["app"], e["dim"], e["step"]) for e in _expected_files(case, rec))
    return {"dims": dims, "time": {"times": t["times"], "dts": t["dts"], "set": t["set"]},
            "pvd": {"time_index": rec["routes"]["pvd"].get("time_index"), "files": rec["routes"]["pvd"].get("restart_files")},
            "files": rec["files"],
            "parsed": [[d, a in (0, 2), st] for a, d, st in truth_names],
            "manual": rec["manual"]["truth"], "errors": sorted(rec["errors"]),
            "pvd_conditions": [True, True], "input": rec["input"],
            "mixin": None if rec["mixin"] is None else {k: v for k, v in rec["mixin"].items() if k not in ("q", "restart_files")}}


def model_ops(case):
    rec = _run(case)
    if "fatal" in rec:
        return []
    ops = []
    for r in rec["dims"]:
        k = f"{r['kind']}{r['dim']}"
        b = rec["base"][k]
        ops.append({"op": "dim", "dim": r["dim"], "L": case.get("L", "1"), "grids": r["grids"], "sides": r["sides"],
                    "scalar": b["s"], "vector": b["v"], "pscalar": b["ps"], "pvector": b["pv"]})
    ops.append({"op": "time", "writes": [[frac(_num(t)), frac(_num(dt))] for t, dt in case["time"]["writes"]], "index": case["time"]["index"]})
    ents = []
    for e in rec["pvd_entries"]:
        stem = e["file"].rsplit(".", 1)[0]
        ents.append({"label": [ord(c) for c in e["label"]], "suffix": int(stem.split("_")[-1]), "file": e["file"],
                     "const": "_constant_" in e["file"]})
    ops.append({"op": "pvd_labels", "entries": ents})
    ops.append({"op": "names", "files": sorted(_expected_files(case, rec), key=lambda e: (e["app"], e["dim"], e["step"]))})
    m = rec["manual"]
    ops.append({"op": "resolve", "n": len(m["truth"]), "dims": m["dims"], "flags": m["flags"]})
    if case.get("input") is not None:
        ops.append({"op": "input", "present": case["input"]["present"], "sizes": case["input"]["sizes"]})
    if case.get("mixin") is not None:
        ops.append({"op": "mixin", "ws": [[_micro(t), frac(float(t)), frac(float(dt))] for t, dt in case["mixin"]]})
    return ops


def model_decode(outs, case):
    rec = _run(case)
    if "fatal" in rec:
        return {"fatal": None}
    nd = len(rec["dims"])
    dims = []
    for r, o in zip(rec["dims"], outs):
        if "err" in o:
            dims.append(o)
            continue
        k = f"{r['kind']}{r['dim']}"
        imp = {}
        for route in ROUTES:
            if k not in _route_keys(rec, route):
                continue
            full = {"s": o["s_imp"], "v": o["v_imp"], "ps": o["ps_imp"], "pv": o["pv_imp"]}
            imp[route] = {f: full[f] for f in _route_fields(route)}
        dims.append({"kind": r["kind"], "dim": r["dim"], "cell_ids": o["cell_ids"], "sizes": o["sizes"], "node_sizes": o["node_sizes"],
                     "pts": o["pts"], "s_blocks": o["s_blocks"], "v_blocks": o["v_blocks"], "ps_file": o["ps_file"], "pv_file": o["pv_file"],
                     "imp": imp})
    t, p, names, res = outs[nd], outs[nd + 1], outs[nd + 2], outs[nd + 3]
    k = nd + 4
    inp = mix = None
    if case.get("input") is not None:
        inp, k = outs[k], k + 1
    if case.get("mixin") is not None:
        mix = outs[k]
    return {"dims": dims, "time": t, "pvd": {"time_index": p.get("index"), "files": p.get("files")},
            "files": sorted(names.get("names", [])), "parsed": names.get("parsed"),
            "manual": res.get("resolved", res), "errors": [],
            "pvd_conditions": [p.get("wellformed"), p.get("mono")], "input": inp, "mixin": mix}


def oracle(case):
    """The property on the real code: every subdomain and interface gets back, cell by cell (and node by node), what was
    written at the most recent time step - through each import route; the files hold scaled points and untouched data; the
    conventional pvd yields the most recent time-step index; the time information is restored."""
    rec = _run(case)
    if "fatal" in rec:
        return {"what": f"exporting the case raised {rec['fatal']}", "key": "export-raises"}
    last = len(case["steps"]) - 1
    fails = []

    def add(what, key):
        fails.append({"what": what, "key": key})

    want = rec["expected"][last]
    nfiles = len(rec["manual"]["truth"])
    for route in ROUTES:
        info = rec["routes"][route]
        for k, msg in rec["errors"].items():
            if not (k == route or k.startswith(route + ":")):
                continue
            add(f"import ({k}) raised {msg}" + (f" ({nfiles} renamed files, automatic=False, dims={rec['manual']['dims']}, "
                f"are_subdomain_data={rec['manual']['flags']})" if route == "manual" else ""), f"import-raises-{route}")
        for k in _route_keys(rec, route):
            for name in _route_fields(route):
                for e, (w, g) in enumerate(zip(want[k][name], info["imp"][k][name])):
                    if w != g:
                        bad = None if g is None else [i for i, (a, b) in enumerate(zip(w, g)) if a != b][:4]
                        add(f"{route}: entity {e} of {k}, field {name}: written {w[:6]}.. imported {None if g is None else g[:6]}.. "
                            f"(first differing positions {bad}; steps {case['steps']}, labels {_labels(case)})", f"roundtrip-differs-{route}-{k}-{name}")
        if route == "pvd" and "restart_files" in info:
            st0, stl = case["steps"][0], case["steps"][last]
            allowed = {e_name for e_name in rec["files"] if e_name.endswith(f"_{stl:06d}.vtu") and "_constant_" not in e_name}
            allowed |= {e_name for e_name in rec["files"] if "_constant_" in e_name and e_name.endswith(f"_{st0:06d}.vtu")}
            if set(info["restart_files"]) != allowed:
                add(f"import_from_pvd took the files {sorted(set(info['restart_files']))} as the most recent step, the files of step {stl} are "
                    f"{sorted(allowed)} (labels {_labels(case)})", "pvd-restart-files")
        if "time_index" in info and info["time_index"] != case["steps"][last]:
            add(f"{route}: returned time index {info['time_index']}, most recent exported step {case['steps'][last]} (labels {_labels(case)})", f"time-index-{route}")

    # files: points are the grid points times the length scale, cell and point data are the values handed over
    L = Fraction(case.get("L", "1"))
    for r in rec["dims"]:
        k = f"{r['kind']}{r['dim']}"
        if isinstance(r["pts"], dict):
            add(f"meshio cannot read the file of {k}: {r['pts']}", f"file-unreadable-{k}")
            continue
        gp = [p for g in r["grids"] for p in (g["centers"] if g["dim"] == 0 else g["nodes"])]
        scaled = [[Fraction(x) * L for x in p] for p in gp]
        close = lambda u, v: u == v if case["binary"] else abs(u - v) <= Fraction(1, 10 ** 9) * max(1, abs(u))  # ascii: 11 digits
        if len(scaled) != len(r["pts"]) or not all(close(u, Fraction(v)) for p, q in zip(scaled, r["pts"]) for u, v in zip(p, q)):
            add(f"points of the {k} file are not the grid points times length_scale {case.get('L', '1')}", f"file-points-{k}")
        b = rec["base"][k]
        if sorted(x for blk in r["s_blocks"] for x in blk) != sorted(x for p in b["s"] for x in p):
            add(f"cell values in the {k} file are not the values handed over (length_scale {case.get('L', '1')})", f"file-cell-data-{k}")
        if r["ps_file"] != [x for p in b["ps"] for x in p] or r["pv_file"] != [c for p in b["pv"] for c in p]:
            add(f"point values in the {k} file are not the values handed over, node by node", f"file-point-data-{k}")

    # input handling: all-or-none data per dimension, array sizes
    if rec["input"] is not None:
        pres = case["input"]["present"]
        want_b = "nothing" if not any(pres) else "field" if all(pres) else {"err": "ValueError"}
        if rec["input"]["build"] != want_b:
            add(f"write_vtu with data on entities {pres} of one dimension: {rec['input']['build']}, expected {want_b}", "input-all-or-none")
        for (size, ndofs), got in zip(case["input"]["sizes"], rec["input"]["vecfmt"]):
            want_v = "ok" if size % ndofs == 0 else {"err": "ValueError"}
            if got != want_v:
                add(f"write_vtu of an array of size {size} on a grid with {ndofs} cells: {got}, expected {want_v}", "input-array-size")

    # the DataSavingMixin path: the restart continues from the last written step, time and dt
    if rec["mixin"] is not None:
        ws, mx = case["mixin"], rec["mixin"]
        k = len(ws) - 1
        exp = {"steps": list(range(len(ws))), "index": k, "time": frac(float(ws[k][0])), "dt": frac(float(ws[k][1])),
               "times": [frac(float(t)) for t, _ in ws[:k]], "dts": [frac(float(h)) for _, h in ws[:k]], "q": [frac(k + 0.5), frac(-k - 0.25)],
               "restart_files": [f"data_1_{k:06d}.vtu"]}
        if mx != exp:
            add(f"mixin path over {len(ws)} steps (times {[t for t, _ in ws]}): restart gave {mx}, expected {exp}", "mixin-restart")

    # time information
    t = rec["time"]
    writes = case["time"]["writes"]
    wt, wd = [frac(_num(a)) for a, b in writes], [frac(_num(b)) for a, b in writes]
    if t["times"] != wt or t["dts"] != wd or not t["types_ok"]:
        add(f"time information: written {writes}, loaded {t['times']} / {t['dts']}", "time-info-roundtrip")
    idx, n = case["time"]["index"], len(writes)
    if -n <= idx < n:
        i = idx % n
        exp = {"time": wt[i], "dt": wd[i], "times": wt[:idx], "dts": wd[:idx]}
        if t["set"] != exp:
            add(f"set_time_and_dt_from_exported_steps({idx}) gave {t['set']}, expected {exp}", "time-info-restart")
    elif t["set"] != {"err": "IndexError"}:
        add(f"set_time_and_dt_from_exported_steps({idx}) on {n} entries gave {t['set']}", "time-info-restart-range")

    return fails[0] if fails else None


def compare(impl, model, case):
    """exact everywhere; the points of ascii files (11 significant digits) with class-T tolerance"""
    import copy

    from harness.common import deep_compare

    a, b = copy.deepcopy(impl), copy.deepcopy(model)
    for k, (x, y) in enumerate(zip(a.get("dims", []), b.get("dims", []))):
        if isinstance(x, dict) and isinstance(y, dict) and "pts" in x and "pts" in y:
            d = deep_compare(x.pop("pts"), y.pop("pts"), f".dims[{k}].pts", None if case["binary"] else 1e-9)
            if d:
                return d
    return deep_compare(a, b)


def nontrivial(case):
    rec = _run(case)
    if "fatal" in rec:
        return False
    return any(len(r["cell_ids"]) >= 2 or len(r["sizes"]) >= 2 for r in rec["dims"])


def signature(case):
    c = dict(case)
    c.pop("data_seed", None)
    return json.dumps(c, sort_keys=True)


# ----------------------------------------------------------------------------- generator
SHAPES = [(1, 0), (0, 1), (1, 1), (1, 1), (2, 0), (0, 2), (2, 1), (1, 2), (2, 2), (3, 1), (3, 2)]


def _rand_strip(rng, tier, mixed=False):
    n = rng.randint(2 if mixed else 1, 5 if tier == "quick" else 9)
    if not mixed and rng.random() < 0.15:  # uniform strip: one block only
        return [list(rng.choice(SHAPES))] * n
    cells = [list(rng.choice(SHAPES)) for _ in range(n)]
    if mixed and len({a + c for a, c in cells}) < 2:
        cells[0] = [1, 0] if sum(cells[1]) != 1 else [2, 2]
    return cells


def _rand_2d(rng, tier):
    r = rng.random()
    if r < 0.6:
        return {"t": "strip", "cells": _rand_strip(rng, tier)}
    if r < 0.8:
        return {"t": "cart", "n": [rng.randint(1, 3), rng.randint(1, 2)]}
    return {"t": "tri", "n": [rng.randint(1, 2), rng.randint(1, 2)]}


def _rand_3d(rng, tier):
    r = rng.random()
    if r < 0.35:
        return {"t": "prism", "cells": _rand_strip(rng, "quick")[:4], "layers": rng.randint(1, 2)}
    if r < 0.6:
        return {"t": "cart", "n": [rng.randint(1, 3), rng.randint(1, 2), rng.randint(1, 2)]}
    if r < 0.85:
        return {"t": "tet", "n": [rng.randint(1, 2), 1, 1]}
    return {"t": "tensor3", "n": [rng.randint(1, 2), rng.randint(1, 2), 1]}


def _rand_low(rng):
    out = []
    for _ in range(rng.choice([0, 0, 1, 2])):
        out.append({"t": "cart", "n": [rng.randint(1, 4)]})
    for _ in range(rng.choice([0, 0, 1, 2])):
        out.append({"t": "point", "x": [rng.randint(0, 3), rng.randint(0, 3), 0]})
    return out


def _ncells_spec(spec):
    t = spec["t"]
    if t in ("strip",):
        return len(spec["cells"])
    if t == "prism":
        return len(spec["cells"]) * spec["layers"]
    if t == "point":
        return 1
    n = int(np.prod(spec["n"]))
    return n * (6 if t == "tet" else 2 if t == "tri" else 1)


def _mixed_nonlast(case):
    """>= 2 grids of one dimension (2 or 3) and a NON-LAST one mixes cell types (by recipe)"""
    if case.get("base") is not None and not case.get("extra_first"):
        pass  # library grids come first; they are uniform, the extras follow
    for dim in (2, 3):
        specs = [s for s in case["extra"] if _spec_dim(s) == dim]
        n_after = 1 if (case.get("base") is not None and case.get("extra_first") and
                        ((dim == 2 and case["base"]["lib"] == "square") or (dim == 3 and case["base"]["lib"] == "cube"))) else 0
        for i, s in enumerate(specs):
            if s["t"] in ("strip", "prism") and len({a + c for a, c in s["cells"]}) >= 2 and (i < len(specs) - 1 or n_after):
                return True
    return False


def gen_case(rng, tier):
    r = rng.random()
    case = {"base": None, "extra": [], "extra_first": False}
    tiny = [{"t": "cart", "n": [1]}, {"t": "cart", "n": [1, 1]}, {"t": "cart", "n": [1, 1, 1]}, {"t": "strip", "cells": [[1, 0]]},
            {"t": "strip", "cells": [[2, 1]]}, {"t": "point", "x": [0, 0, 0]}, {"t": "prism", "cells": [[1, 0]], "layers": 1}]
    if r < 0.10:  # stratum: size 1 - one-cell grids, possibly a single one (entry point Exporter(grid))
        case["extra"] = [dict(rng.choice(tiny)) for _ in range(rng.choice([1, 1, 2, 3]))]
    elif r < 0.32:  # stratum: several grids of one dimension, a non-last one mixes cell types
        if rng.random() < 0.65:
            case["extra"] = [{"t": "strip", "cells": _rand_strip(rng, tier, mixed=True)} for _ in range(rng.randint(1, 2))] + [_rand_2d(rng, tier)]
        else:
            case["extra"] = [{"t": "prism", "cells": _rand_strip(rng, "quick", mixed=True)[:4], "layers": rng.randint(1, 2)}
                             for _ in range(rng.randint(1, 2))] + [_rand_3d(rng, tier)]
            if len({a + c for a, c in case["extra"][0]["cells"]}) < 2:
                case["extra"][0]["cells"] = [[1, 0], [1, 1]]
        if rng.random() < 0.3:
            case["extra"] += _rand_low(rng)
    elif r < 0.47:
        case["extra"] = [_rand_2d(rng, tier) for _ in range(rng.randint(1, 3))] + _rand_low(rng)
        rng.shuffle(case["extra"])
    elif r < 0.64:
        case["extra"] = [_rand_3d(rng, tier) for _ in range(rng.randint(1, 3))]
        if rng.random() < 0.3:
            case["extra"] += [_rand_2d(rng, tier)] + _rand_low(rng)
        rng.shuffle(case["extra"])
    else:
        if rng.random() < 0.6:
            gt = rng.choice(["cartesian", "cartesian", "simplex"])
            case["base"] = {"lib": "square", "grid_type": gt, "fracs": rng.choice([[0], [1], [0, 1]]), "cell_size": rng.choice([0.5, 0.5, 0.25])}
            if rng.random() < 0.6:
                case["extra"] = [_rand_2d(rng, tier) for _ in range(rng.randint(1, 2))]
        else:
            simplex = tier == "thorough" and rng.random() < 0.2
            case["base"] = {"lib": "cube", "grid_type": "simplex" if simplex else "cartesian",
                            "fracs": [0] if simplex else rng.choice([[0], [0, 1], [0, 1, 2]]), "cell_size": 0.5}
            if not simplex and rng.random() < 0.5:
                case["extra"] = [_rand_3d(rng, tier)] + ([_rand_2d(rng, tier)] if rng.random() < 0.5 else [])
        case["extra_first"] = rng.random() < 0.5
    if case["extra"] and rng.random() < 0.12:  # stratum: duplicates - the same grid recipe twice
        case["extra"].insert(rng.randrange(len(case["extra"]) + 1), dict(rng.choice(case["extra"])))
    case["data_seed"] = rng.randrange(10 ** 9)
    case["nd"] = rng.choice([1, 2, 2, 3, 3])
    case["style"] = rng.choice(["tuple", "tuple", "state", "listkey"])
    if case["base"] is None and len(case["extra"]) == 1 and rng.random() < 0.6:
        case["style"] = "single"
    case["flat_vec"] = rng.random() < 0.4
    case["binary"] = rng.random() < 0.7
    case["sep_const"] = rng.random() < 0.2
    case["L"] = rng.choice(["1", "1", "1/2", "4", "1/8", "1/1048576", "1048576"])  # extreme scales included
    case["vscale"] = rng.choice(["1", "1", "1", "1/1048576", "1073741824"]) if case["binary"] else "1"
    case["repeat"] = rng.random() < 0.2  # repeated operation: the last step is written twice
    case["manual_all"] = rng.random() < 0.5
    case["input"] = case["mixin"] = None
    if rng.random() < 0.5:
        sizes = []
        for _ in range(2):
            nc = rng.randint(1, 4)
            sizes.append([rng.choice([nc, 2 * nc, 3 * nc, nc + 1, 2 * nc + 1, max(1, nc - 1)]), nc])
        case["input"] = {"present": [rng.random() < 0.6 for _ in range(rng.randint(2, 3))], "sizes": sizes}
    if rng.random() < 0.5:
        if rng.random() < 0.4:  # stratum: large times, small relative spacing, >= 3 steps
            k = rng.choice([3, 4, 5])
            t0, h = rng.choice([1e5, 3e7, 1e9, 31536000.0]) + rng.randint(0, 1000), rng.choice([1.0, 60.0, 1000.0, 2.5])
        else:
            k = rng.choice([1, 2, 3, 3, 11])
            t0, h = rng.choice([0.0, 0.5, 9.5, 98.0]), rng.choice([0.5, 1.0, 0.25, 2.5, 0.1])
        case["mixin"] = [[t0 + i * h, h] for i in range(k)]
    r = rng.random()
    if r < 0.6:
        k = rng.randint(1, 3)
        lo = rng.choice([0, 0, 1, 3, 10, 25])
        hi = 9 if lo < 10 else 99
        case["steps"] = sorted(rng.sample(range(lo, hi + 1), k))
        case["times"] = None
    elif r < 0.8:  # steps whose labels have different numbers of digits
        case["steps"] = rng.choice([[9, 10], [2, 10], [8, 9, 10], [7, 12], [99, 100], [5, 11, 100]])
        case["times"] = None
    elif r < 0.9:  # stratum: LARGE absolute times with small relative spacing (all "%f"-distinguishable)
        t0 = rng.choice([1e5, 3e7, 1e9, 31536000.0, 5e6]) + rng.randint(0, 1000)
        h = rng.choice([1.0, 60.0, 1000.0, 2.5, 3600.0])
        s0 = rng.randint(0, 3)
        case["steps"] = list(range(s0, s0 + 3))
        case["times"] = [t0 + h * i for i in range(3)]
    else:  # actual times, as DataSavingMixin.write_pvd_and_vtu passes them
        k = rng.randint(1, 3)
        dt = rng.choice([0.5, 0.25, 2.0, 1.0, 0.1, 7.5])
        s0 = rng.randint(0, 3)
        case["steps"] = list(range(s0, s0 + k))
        case["times"] = [dt * s for s in case["steps"]]
    nw = rng.randint(1, 6)
    pool = [0.1, 0.2, 0.30000000000000004, 1e-7, 1 / 3, 2.5e10, 86400.0, 1.7976931348623157e308, 5e-324, 3, 10, 0, 1]
    writes = []
    for _ in range(nw):
        t = rng.choice(pool) if rng.random() < 0.5 else rng.uniform(0, 100) * 10 ** rng.randint(-6, 6)
        dt = rng.choice(pool) if rng.random() < 0.5 else rng.uniform(0, 1)
        writes.append([t, dt])
    case["time"] = {"writes": writes, "index": rng.choice([-1, -1, -1, nw - 1, rng.randint(-nw - 1, nw)])}
    return case


def shrink_candidates(case):
    ex = case["extra"]
    for i in range(len(ex)):
        if len(ex) > 1 or case["base"] is not None:
            yield dict(case, extra=ex[:i] + ex[i + 1:])
    if case["base"] is not None:
        yield dict(case, base=None, extra=ex if ex else [{"t": "cart", "n": [2]}])
    for i, s in enumerate(ex):
        if s["t"] in ("strip", "prism") and len(s["cells"]) > 1:
            for j in range(len(s["cells"])):
                yield dict(case, extra=ex[:i] + [dict(s, cells=s["cells"][:j] + s["cells"][j + 1:])] + ex[i + 1:])
    if len(case["steps"]) > 1:
        yield dict(case, steps=case["steps"][1:], times=None if case["times"] is None else case["times"][1:])
    if len(case["time"]["writes"]) > 1 or case["time"]["index"] != -1:
        yield dict(case, time={"writes": case["time"]["writes"][-1:], "index": -1})
    for k in ("input", "mixin"):
        if case.get(k) is not None:
            yield dict(case, **{k: None})
    for k, v in (("sep_const", False), ("binary", True), ("style", "tuple"), ("flat_vec", False), ("nd", 2), ("L", "1"), ("manual_all", False),
                 ("vscale", "1"), ("repeat", False)):
        if case.get(k, v) != v:
            yield dict(case, **{k: v})


def stats(cases, impl_outs):
    n_blocks, n_ent = {}, {}
    kinds = {"sd": 0, "intf": 0}
    dims = {}
    for c, o in zip(cases, impl_outs):
        if "dims" not in o:
            continue
        for r in o["dims"]:
            kinds[r["kind"]] += 1
            dims[str(r["dim"])] = dims.get(str(r["dim"]), 0) + 1
            b = len(r["cell_ids"])
            n_blocks[str(b)] = n_blocks.get(str(b), 0) + 1
            e = len(r["sizes"])
            n_ent[str(e)] = n_ent.get(str(e), 0) + 1
    lab = lambda c: _labels(c)
    return {"dimension_records": dims, "subdomain_vs_interface_records": kinds, "cell_id_blocks_per_record": n_blocks,
            "entities_per_record": n_ent,
            "stratum_mixed_cell_types_in_non_last_grid": sum(int(_mixed_nonlast(c)) for c in cases),
            "pvd_labels_lexicographic_order_differs_from_numeric": sum(int(sorted(set(lab(c)))[-1] != lab(c)[-1]) for c in cases),
            "pvd_real_times": sum(1 for c in cases if c["times"] is not None),
            "manual_route_files": {str(k): sum(1 for o in impl_outs if "manual" in o and len(o["manual"]) == k) for k in range(1, 7)},
            "length_scales": {L: sum(1 for c in cases if c.get("L", "1") == L) for L in ("1", "1/2", "4", "1/8")},
            "styles": {s: sum(1 for c in cases if c["style"] == s) for s in ("tuple", "state", "listkey", "single")},
            "stratum_single_cell_grids": sum(1 for c in cases if any(_ncells_spec(x) == 1 for x in c["extra"])),
            "stratum_duplicate_grid_recipes": sum(1 for c in cases if len({json.dumps(x, sort_keys=True) for x in c["extra"]}) < len(c["extra"])),
            "stratum_extreme_length_scale": sum(1 for c in cases if c.get("L", "1") in ("1/1048576", "1048576")),
            "stratum_extreme_value_scale": sum(1 for c in cases if c.get("vscale", "1") != "1"),
            "stratum_last_step_written_twice": sum(1 for c in cases if c.get("repeat")),
            "input_error_cases": {"partial_data": sum(1 for c in cases if c.get("input") and any(c["input"]["present"]) and not all(c["input"]["present"])),
                                  "wrong_array_size": sum(1 for c in cases if c.get("input") and any(a % b for a, b in c["input"]["sizes"]))},
            "mixin_paths": {"total": sum(1 for c in cases if c.get("mixin")), "11_steps": sum(1 for c in cases if c.get("mixin") and len(c["mixin"]) == 11),
                            "large_times_small_relative_spacing": sum(1 for c in cases if c.get("mixin") and c["mixin"][0][0] >= 1e5)},
            "stratum_pvd_large_times_small_relative_spacing": sum(1 for c in cases if c["times"] is not None and c["times"][0] >= 1e5),
            "ascii": sum(1 for c in cases if not c["binary"]), "separate_constants": sum(1 for c in cases if c["sep_const"]),
            "with_library_mdg": sum(1 for c in cases if c["base"] is not None),
            "export_import_cycles": len(cases), "import_calls": 4 * len(cases)}
