"""C10 Simulation driver keeps solution state consistent across failures.

Real code under test: pp.run_time_dependent_model + NewtonSolver.solve + the SolutionStrategy hooks + TimeManager,
run on a tiny compressible SinglePhaseFlow model that is subclassed HERE (no source hook): check_convergence /
solve_linear_system replay an oracle tape, every hook logs an event with a snapshot of the stored arrays.
"""
import json
import logging
import warnings
from fractions import Fraction as F

from harness.common import frac, close

PID = "C10"
THEOREMS = [
    "PorepyVerif.C10.after_converged_ts0_eq_iterate",
    "PorepyVerif.C10.after_failed_iterate_eq_ts0",
    "PorepyVerif.C10.history_is_accepted_sequence",
    "PorepyVerif.C10.loop_boundary_consistent",
    "PorepyVerif.C10.windows_keep_length",
    "PorepyVerif.C10.finished_is_final",
    "PorepyVerif.C10.ends_at_final_time_or_raises",
    "PorepyVerif.C10.simpleClock_terminating",
    "PorepyVerif.C10.simpleClock_run_ends",
    "PorepyVerif.C10.tm_retry_rewinds",
    "PorepyVerif.C10.bc_history_is_accepted_times",
    "PorepyVerif.C10.both_flags_break_consistency",
    "PorepyVerif.C10.ends_at_final_time_or_raises_tm",
    "PorepyVerif.C10.accepted_steps_bounded_tm",
    "PorepyVerif.C10.newton_iterations_le",
    "PorepyVerif.C10.checkConv_exclusive",
    "PorepyVerif.C10.checkConvRes_both_flags",
    "PorepyVerif.C10.noBoth_of_divOverrules",
    "PorepyVerif.C10.raises_only_through_failure_hook",
    "PorepyVerif.C10.tm_raise_means_budget_exhausted",
    "PorepyVerif.C10.linear_failure_raises_untouched",
    "PorepyVerif.C10.linear_single_iteration",
]
LEAN_DIRS = ["C09"]  # the time manager of the model is C09's (imported)
LEAN_MODULES = ["PorepyVerif.C10.Props"]
AUDIT = "PorepyVerif/C10/Audit.lean"
DRIVER = "PorepyVerif/C10/Driver.lean"
N = {"quick": 24, "thorough": 300}
RULE = ("one case = one complete run of pp.run_time_dependent_model on a compressible SinglePhaseFlow model (Cartesian grid 1x1..3x2, "
        "Dirichlet boundary, time_step_indices/iterate_indices of length 1-3, max_iterations 0-4) with an adaptive TimeManager on dyadic "
        "parameters (schedule of 2-4 points, recomp_max 1-4, recomp_factor 1/4..3/4; 8% constant dt) and a tape that decides for every Newton "
        "solve whether it converges at iteration j, diverges at iteration j or exhausts max_iterations (failure rate per case 0-0.8, so that "
        "budgets are exhausted in some runs). Modes: inject-check (45%: dyadic increments injected after the real linear solve, the REAL "
        "check_convergence decides: NaN -> diverged, small -> converged), inject-forced (25%: injected increments incl. zero/negative, flags "
        "forced, a few (True,True) entries and short tapes), physical-forced (20%: real Newton increments, flags forced), physical-real (10%: "
        "nothing forced, max_iterations small so that real Newton fails; 30% of these with a finite nl_divergence_tol so that the real "
        "check_convergence raises both flags). Stratum: 35% of the inject cases have a solve whose FIRST iteration diverges through a NaN "
        "increment (no increment norm logged). 20% of the cases have a time-dependent boundary value g(t)=t. "
        "Mode linear (12%): _is_nonlinear_problem()=False so that _choose_solver picks pp.LinearSolver; one injected solution per step, NaN raises. "
        "Strata (45% of the cases, counted in input_distribution.strata): one-cell grid, windows 1x1, deep windows, single solve, max_iterations=0, "
        "all-converge, the same step rejected until the budget is used up, all-zero increments, increments scaled by 2^30 / 2^-30. "
        "non-trivial = at least one failed and one accepted solve; distinct = distinct cases")
TRUSTED = [
    "modelled, not verified: assembly, discretisation, linear solve (executed, their result is the tape's increment in the inject modes), "
    "data saving / solver statistics, update_derived_quantities; binary64 rounding of the clock arithmetic (dyadic parameters keep it exact)",
    "the per-dof arrays are abstracted to one value per stored index (injected increments are constant vectors; in the physical modes only the "
    "equality pattern between stored arrays is compared)",
    "boundary values are abstracted to the time at which the boundary function was evaluated (harness: g(t)=t or constant)",
    "the time manager of the model IS C09's model (PorepyVerif.C09.Model, imported); its theorems run_terminates, only_documented_errors and "
    "accepted_steps_bounded are transported to the C10 loop by the simulation lemma sim_runAll (C09's own trusted base applies to them)",
    "check_convergence with a finite nl_divergence_tol is modelled on (increment norm, residual norm) pairs (checkConvRes); the norms themselves are numpy's",
]
EXPLANATION = ("FULL for the control flow: model = NewtonSolver.solve loop + hooks + time loop over an abstract clock and an abstract value type; "
               "theorems hold for EVERY tape (all failure patterns), every clock and every window length >= 1: ts[0] = converged iterate after an "
               "accepted solve, iterate = ts[0] = last accepted after a rejected one, the time-step window is the accepted sequence, boundary values "
               "of previous time steps are those of the accepted times, one solve makes at most max_iterations+1 iterations, the loop ends "
               "finished-at-final-time or raised for every terminating clock AND for the real time-manager model (C09's, by simulation; "
               "ends_at_final_time_or_raises_tm, accepted_steps_bounded_tm). The model follows the property for flags (True, True) (divergence overrules: "
               "the solve fails); NewtonSolver.solve as it stands returns True without calling a hook (finding both-flags-returns-true-without-hooks, "
               "witness both_flags_break_consistency; checkConvRes_both_flags shows the real check_convergence formula can raise both flags when "
               "nl_divergence_tol is finite, checkConv_exclusive that it cannot with the default tolerances). "
               "Correspondence compares the complete event trace of the real run (every hook, stored arrays, storage depths, boundary data, time, dt, "
               "time index) with the model's.")
ASSUMPTIONS = [
    "the decidable hypotheses of ends_at_final_time_or_raises_tm (C09.Admissible, dt_min > 0, nonlinear solver, window lengths >= 1, tapes long "
    "enough, tape-count bound) are evaluated by the driver on every case (output field hyp); when all hold the model must end finished/raised",
    "iterate_indices and time_step_indices are 0..n-1 with n >= 1",
    "NoBoth: divergence overrules convergence (the model's default, the repaired solver) or no tape entry raises both flags; "
    "for ends_at_final_time_or_raises_tm: C09.Admissible parameters (what the TimeManager constructor accepts, adaptive, initial step fits the "
    "first scheduled interval, sane tolerances) and dt_min > 0",
]

_GRIDS = [[1, 1], [2, 1], [2, 1], [2, 2], [3, 1], [3, 2]]


# ----------------------------------------------------------------------------- generator
def _gen_tm(rng):
    for _ in range(1000):
        constant = rng.random() < 0.08
        n = rng.choice([2, 2, 3, 3, 4])
        start = rng.choice([F(0), F(0), F(0), F(1, 2), F(1)])
        gaps = [rng.choice([F(1, 2), F(1), F(1), F(3, 2)]) for _ in range(n - 1)]
        sched = [start]
        for g in gaps:
            sched.append(sched[-1] + g)
        if sched[-1] - sched[0] > 3:
            continue
        dt_init = rng.choice([F(1, 4), F(1, 4), F(1, 2), F(1, 2), F(1)])
        if dt_init > gaps[0]:
            continue
        if constant:
            if any((s - start) % dt_init != 0 for s in sched):
                continue
            dt_min, dt_max = dt_init, dt_init
        else:
            dt_min = rng.choice([F(1, 8), F(1, 8), F(1, 8), F(1, 4), F(1, 4), F(1, 16), F(1, 16), dt_init])
            dt_max = rng.choice([F(1, 2), F(1), F(1), F(2), dt_init])
        under, over = rng.choice([(F(1, 2), F(2)), (F(1, 2), F(2)), (F(3, 4), F(3, 2)), (F(1, 2), F(5, 4)), (F(1, 4), F(2))])
        low, upp = rng.choice([(1, 3), (2, 4), (1, 2), (2, 2), (1, 5), (3, 4)])
        if not constant:
            if not (dt_min <= dt_init <= dt_max and dt_min * over <= dt_max and dt_max * under >= dt_min):
                continue
        return {
            "schedule": [frac(s) for s in sched], "dt_init": frac(dt_init), "constant_dt": constant,
            "dt_min": frac(dt_min), "dt_max": frac(dt_max), "iter_low": low, "iter_upp": upp,
            "under": frac(under), "over": frac(over), "recomp_factor": frac(rng.choice([F(1, 2), F(1, 2), F(1, 4), F(3, 4)])),
            "recomp_max": rng.choice([1, 2, 2, 3, 4]),
        }
    raise RuntimeError("no time manager parameters found")


_STRATA = ["one-cell", "window-1x1", "deep-windows", "single-solve", "max-it-0", "all-converge", "repeat-failures", "zero-increments", "extreme-scale"]
_SMALL = [F(0), F(1, 4), F(-1, 4), F(1, 2), F(-1, 2), F(1, 8)]
_BIG = [F(3, 2), F(2), F(-2), F(3), F(5, 2), F(-3, 2), F(4)]  # |q| = 1 would sit on check_convergence's threshold
_ANY = _SMALL + _BIG


def _gen_solve_tape(rng, mode, max_it, p_fail):
    """entries of one Newton solve; `mode` decides how flags and increments relate"""
    full = max_it + 1  # the loop makes at most max_iterations + 1 iterations
    r = rng.random()
    if r < p_fail / 2:
        kind, j = "div", rng.randint(1, full)
    elif r < p_fail:
        kind, j = "max", full
    else:
        kind, j = "conv", rng.randint(1, full)
    tape = []
    for i in range(1, j + 1):
        last = i == j
        if mode == "inject-check":
            if last and kind == "conv":
                inc = frac(rng.choice(_SMALL))
            elif last and kind == "div":
                inc = "nan"
            else:
                inc = frac(rng.choice(_BIG))
            tape.append({"inc": inc, "c": False, "d": False})  # flags are computed by check_convergence
        else:
            inc = frac(rng.choice(_ANY))
            if last and kind == "div" and mode == "inject-forced" and rng.random() < 0.5:
                inc = "nan"
            tape.append({"inc": inc, "c": last and kind == "conv", "d": last and kind == "div"})
    if rng.random() < 0.3:  # surplus entries must never be consumed
        tape.append({"inc": frac(rng.choice(_BIG)), "c": bool(rng.getrandbits(1)), "d": False})
    return tape


def gen_case(rng, tier):
    mode = rng.choices(["inject-check", "inject-forced", "physical-forced", "physical-real", "linear"], [38, 22, 18, 10, 12])[0]
    stratum = rng.choice(_STRATA) if rng.random() < 0.45 else None
    if stratum in ("extreme-scale", "zero-increments") and mode != "inject-forced":
        mode = "inject-forced"
    tm = _gen_tm(rng)
    physical = mode.startswith("physical")
    max_it = rng.choice([0, 1, 1, 2, 2, 3, 4] + ([5, 6] if tier == "thorough" else []))
    n_ts = rng.choice([1, 1, 2, 2, 3])
    n_it = 1 if physical and max_it > 1 else rng.choice([1, 1, 2, 3])
    if physical and n_it > 2:
        n_it = 2
    case = {
        "mode": mode, "grid": rng.choice(_GRIDS + ([[4, 3], [5, 1]] if tier == "thorough" else [])), "tm": tm, "max_it": max_it, "n_it": n_it, "n_ts": n_ts,
        "init": "0" if physical else frac(rng.choice([F(0), F(1), F(-1, 2), F(3)])),
        "bc": "time" if rng.random() < 0.2 else "const",
    }
    n_solves = rng.choice([40] * 9 + [1, 2, 3, 6])
    if stratum:
        case["stratum"] = stratum
    if stratum == "one-cell":
        case["grid"] = [1, 1]
    elif stratum == "window-1x1":
        case["n_it"] = case["n_ts"] = 1
    elif stratum == "deep-windows":
        case["n_ts"] = 3
        case["n_it"] = 1 if physical and max_it > 1 else 3 if not physical else 2
    elif stratum == "single-solve":
        n_solves = 1
    elif stratum == "max-it-0":
        case["max_it"] = max_it = 0
    if mode == "linear":
        case["max_it"] = 0
        case["tapes"] = [[{"inc": "nan" if rng.random() < (0.0 if stratum == "all-converge" else 0.12) else frac(rng.choice(_ANY)), "c": False, "d": False}]
                         for _ in range(n_solves)]
        return case
    if mode == "physical-real":
        case["max_it"] = rng.choice([1, 2, 3])
        case["n_it"] = 1
        case["n_solves"] = n_solves
        case["tol"] = rng.choice(["1e-10", "1e-6", "1e-3"])
        if rng.random() < 0.3:  # finite nl_divergence_tol: the real check_convergence can raise both flags
            case["tol"], case["div_tol"] = rng.choice([("1e3", "1e-30"), ("1e-3", "1e-9"), ("1e-2", "1e-6")])
        return case
    p_fail = rng.choice([0.0, 0.15, 0.25, 0.25, 0.35, 0.5, 0.8])
    if stratum == "all-converge":
        p_fail = 0.0
    case["tapes"] = [_gen_solve_tape(rng, mode, max_it, p_fail) for _ in range(n_solves)]
    if stratum == "repeat-failures":  # the same step is rejected again and again until the budget is used up
        k0 = rng.randrange(min(3, n_solves))
        for i in range(k0, min(n_solves, k0 + tm["recomp_max"] + 1)):
            case["tapes"][i] = _gen_solve_tape(rng, mode, max_it, 1.0)
    if stratum == "zero-increments":
        for t in case["tapes"]:
            for e in t:
                if e["inc"] != "nan":
                    e["inc"] = "0"
    if stratum == "extreme-scale":
        sc = rng.choice([F(2) ** 30, F(1, 2 ** 30)])
        for t in case["tapes"]:
            for e in t:
                if e["inc"] != "nan":
                    e["inc"] = frac(F(e["inc"]) * sc)
    if mode.startswith("inject") and rng.random() < 0.35:  # stratum: NaN divergence at the FIRST iteration of a solve
        i = rng.randrange(min(3, n_solves))
        case["tapes"][i] = [{"inc": "nan", "c": False, "d": mode == "inject-forced"}]
    if mode == "inject-forced" and rng.random() < 0.12:  # (True, True)
        t = case["tapes"][rng.randrange(min(6, n_solves))]
        k = rng.randrange(len(t))
        t[k]["c"] = t[k]["d"] = True
    if mode != "inject-check" and rng.random() < 0.06:  # a tape that ends before the loop does
        i = rng.randrange(min(6, n_solves))
        case["tapes"][i] = case["tapes"][i][:rng.randrange(len(case["tapes"][i]))]
    if physical:  # generic increments for the model: all subset sums are distinct
        j = 0
        for t in case["tapes"]:
            for e in t:
                e["inc"] = str(2 ** j)
                j += 1
    if mode == "inject-check":
        case["tol"] = "1"
    return case


# ----------------------------------------------------------------------------- the real run
class _TapeEnd(Exception):
    pass


class _OutOfTape(Exception):
    pass


_CLS = {}


def _classes():
    if _CLS:
        return _CLS
    import numpy as np
    import porepy as pp
    from porepy.models.fluid_mass_balance import SinglePhaseFlow

    class Geo(pp.PorePyModel):
        def set_domain(self):
            nx, ny = self.params["c10"].case["grid"]
            self._domain = pp.Domain({"xmin": 0, "xmax": nx, "ymin": 0, "ymax": ny})

        def meshing_arguments(self):
            return {"cell_size": 1.0}

        def grid_type(self):
            return "cartesian"

        def set_fractures(self):
            self._fractures = []

    class TapeModel(Geo, SinglePhaseFlow):
        """SinglePhaseFlow whose nondeterminism is replayed from a tape; every hook logs an event."""

        @property
        def rec(self):
            return self.params["c10"]

        # ---- storage depth
        @property
        def time_step_indices(self):
            return np.arange(self.rec.case["n_ts"])

        @property
        def iterate_indices(self):
            return np.arange(self.rec.case["n_it"])

        # ---- physics
        def ic_values_pressure(self, sd):
            return np.full(sd.num_cells, float(F(self.rec.case["init"])))

        def bc_type_darcy_flux(self, sd):
            return pp.BoundaryCondition(sd, sd.get_all_boundary_faces(), "dir")

        def bc_values_pressure(self, bg):
            if self.rec.case["bc"] == "time":
                return np.full(bg.num_cells, float(self.time_manager.time))
            return np.full(bg.num_cells, 1.0)

        def _is_nonlinear_problem(self):
            return self.rec.case["mode"] != "linear"  # "linear": _choose_solver picks pp.LinearSolver

        # ---- hooks
        def before_nonlinear_loop(self):
            self.rec.start_solve()
            super().before_nonlinear_loop()
            self.rec.log(self, "loop", 0)

        def solve_linear_system(self):
            entry = self.rec.entry()  # raises _OutOfTape when the tape of this solve is used up
            x = super().solve_linear_system()
            if self.rec.inject:
                x = np.full(x.size, np.nan if entry["inc"] == "nan" else float(F(entry["inc"])))
            return x

        def after_nonlinear_iteration(self, nonlinear_increment):
            super().after_nonlinear_iteration(nonlinear_increment)
            self.rec.log(self, "iter", self.nonlinear_solver_statistics.num_iteration)

        def check_convergence(self, nonlinear_increment, residual, reference_residual, nl_params):
            flags = super().check_convergence(nonlinear_increment, residual, reference_residual, nl_params)
            entry = self.rec.entry()
            if self.rec.forced:
                flags = (entry["c"], entry["d"])
            flags = (bool(flags[0]), bool(flags[1]))
            self.rec.checked(self, flags)
            return flags

        def after_nonlinear_convergence(self):
            try:
                super().after_nonlinear_convergence()
            except Exception as e:
                self.rec.log(self, "crash", self.nonlinear_solver_statistics.num_iteration)
                self.rec.error = ("crashed", type(e).__name__)
                raise
            self.rec.log(self, "conv", self.nonlinear_solver_statistics.num_iteration)
            if self.rec.case["mode"] == "linear":  # LinearSolver.solve returns True right after this hook
                self.rec.log(self, "ret", self.nonlinear_solver_statistics.num_iteration, c=True)

        def after_nonlinear_failure(self):
            tm = self.time_manager
            self.rec.pre_failure = {"recomp": tm._recomp_num, "dt": tm.dt, "constant": tm.is_constant}
            try:
                super().after_nonlinear_failure()
            except Exception as e:
                self.rec.log(self, "raise", self.nonlinear_solver_statistics.num_iteration)
                self.rec.error = ("raised", type(e).__name__)
                raise
            self.rec.log(self, "fail", self.nonlinear_solver_statistics.num_iteration)

    class Solver(pp.NewtonSolver):
        def solve(self, model):
            ok = super().solve(model)
            model.rec.log(model, "ret", model.nonlinear_solver_statistics.num_iteration, c=bool(ok))
            return ok

    _CLS.update(np=np, pp=pp, TapeModel=TapeModel, Solver=Solver)
    return _CLS


class _Recorder:
    """tape cursor + event log of one real run (raw arrays are kept for the oracle)"""

    def __init__(self, case):
        self.case = case
        self.inject = case["mode"].startswith("inject") or case["mode"] == "linear"
        self.forced = case["mode"] in ("inject-forced", "physical-forced")
        self.real_flags = case["mode"] == "physical-real"
        self.tapes = case.get("tapes")
        self.n_solves = len(self.tapes) if self.tapes is not None else case["n_solves"]
        self.solve_no = -1
        self.it = 0
        self.events = []
        self.flags_seen = []  # per solve: list of (c, d)
        self.error = None
        self.pre_failure = None
        self.converged_iterate = None  # iterate at the moment check_convergence reported convergence

    def start_solve(self):
        if self.solve_no + 1 >= self.n_solves:
            raise _TapeEnd()
        self.solve_no += 1
        self.it = 0
        self.flags_seen.append([])
        self.converged_iterate = None

    def entry(self):
        if self.real_flags:
            return {"inc": None}
        tape = self.tapes[self.solve_no]
        if self.it >= len(tape):
            raise _OutOfTape()
        return tape[self.it]

    def checked(self, model, flags):
        self.it += 1
        self.flags_seen[-1].append(flags)
        ev = self.log(model, "check", 0, c=flags[0], d=flags[1])
        if flags[0]:
            self.converged_iterate = ev["its"][0]

    def log(self, model, tag, k, c=False, d=False):
        pp = _classes()["pp"]
        es, tm = model.equation_system, model.time_manager
        ev = {"e": tag, "k": int(k), "c": c, "d": d, "solve": self.solve_no,
              "its": [es.get_variable_values(iterate_index=i) for i in range(self.case["n_it"])],
              "tss": [es.get_variable_values(time_step_index=i) for i in range(self.case["n_ts"])],
              "t": float(tm.time), "dt": float(tm.dt), "ti": int(tm.time_index), "bc": [], "stored": []}
        for _, data in model.mdg.subdomains(return_data=True):  # storage depth of the variable itself
            ev["stored"].append((sorted(data[pp.ITERATE_SOLUTIONS]["pressure"]), sorted(data[pp.TIME_STEP_SOLUTIONS]["pressure"])))
        for _, data in model.mdg.boundaries(return_data=True):
            its = data[pp.ITERATE_SOLUTIONS]["pressure"]
            tss = data[pp.TIME_STEP_SOLUTIONS]["pressure"]
            ev["bc"].append((its[0].copy(), [tss[i].copy() if i in tss else None for i in range(len(tss))]))
        self.events.append(ev)
        return ev


_CACHE = {}  # the most recent real run (impl_run and oracle of a case share it)
_TAGS = {}   # case -> non-trivial?
_FLAGS = {}  # case -> flags observed per solve (the tape of a physical-real case)


def _tm_kwargs(tm):
    fl = lambda s: float(F(s))
    return dict(schedule=[fl(s) for s in tm["schedule"]], dt_init=fl(tm["dt_init"]), constant_dt=tm["constant_dt"],
                dt_min_max=(fl(tm["dt_min"]), fl(tm["dt_max"])), iter_max=15, iter_optimal_range=(tm["iter_low"], tm["iter_upp"]),
                iter_relax_factors=(fl(tm["under"]), fl(tm["over"])), recomp_factor=fl(tm["recomp_factor"]), recomp_max=tm["recomp_max"])


def _real_run(case):
    key = json.dumps(case, sort_keys=True)
    if key in _CACHE:
        return _CACHE[key]
    cl = _classes()
    pp, np = cl["pp"], cl["np"]
    logging.disable(logging.CRITICAL)
    rec = _Recorder(case)
    with warnings.catch_warnings():
        warnings.simplefilter("ignore")
        with np.errstate(all="ignore"):
            tm = pp.TimeManager(**_tm_kwargs(case["tm"]))
            physical = not rec.inject
            fluid = pp.FluidComponent(compressibility=0.5 if physical else 1.0 / 16, density=1.0, viscosity=1.0)
            solid = pp.SolidConstants(porosity=0.5, permeability=0.25 if physical else 1.0)
            params = {"material_constants": {"fluid": fluid, "solid": solid}, "time_manager": tm, "times_to_export": [],
                      "max_iterations": case["max_it"], "c10": rec,
                      "nl_convergence_tol": float(case.get("tol", "1e-10"))}
            if case["mode"] != "linear":
                params["nonlinear_solver"] = cl["Solver"]
            if "div_tol" in case:
                params["nl_divergence_tol"] = float(case["div_tol"])
            model = cl["TapeModel"](params)
            try:
                pp.run_time_dependent_model(model, params)
                status = ("finished", None)
            except _TapeEnd:
                status = ("tape-end", None)
            except _OutOfTape:
                status = ("out-of-tape", None)
            except Exception:
                if rec.error is None:
                    raise
                status = rec.error
    rec.status = status
    rec.final = {"t": float(tm.time), "dt": float(tm.dt), "ti": int(tm.time_index)}
    rec.tm = tm
    _CACHE.clear()
    _CACHE[key] = rec
    tags = {e["e"] for e in rec.events}
    _TAGS[key] = "conv" in tags and ("fail" in tags or "raise" in tags)
    if rec.real_flags:
        _FLAGS[key] = rec.flags_seen
    return rec


# ----------------------------------------------------------------------------- canonical forms
def _canon_arr(a):
    """a stored array of an inject-mode run is a constant vector: its value, exactly"""
    np = _classes()["np"]
    if a is None:
        return "missing"
    if np.all(np.isnan(a)):
        return "nan"
    if np.all(a == a[0]):
        return frac(a[0])
    return "mixed:" + ",".join(frac(x) for x in a)


def _pattern(arrs):
    """equality pattern of a list of arrays / values: label = index of the first equal one"""
    np = _classes()["np"]
    out = []
    for i, a in enumerate(arrs):
        lab = i
        for j in range(i):
            same = (a == arrs[j]) if isinstance(a, str) else np.array_equal(a, arrs[j])
            if same:
                lab = out[j]
                break
        out.append(lab)
    return out


def _canon_bc(ev):
    (it, tss), = ev["bc"]
    return _canon_arr(it), [_canon_arr(x) for x in tss]


def impl_run(case):
    rec = _real_run(case)
    inject = rec.inject
    evs = []
    for ev in rec.events:
        o = {"e": ev["e"], "k": ev["k"], "c": ev["c"], "d": ev["d"], "t": frac(ev["t"]), "dt": frac(ev["dt"]), "ti": ev["ti"]}
        if inject:
            o["its"] = [_canon_arr(a) for a in ev["its"]]
            o["tss"] = [_canon_arr(a) for a in ev["tss"]]
        else:
            o["pat"] = _pattern(ev["its"] + ev["tss"])
        o["bcit"], o["bcts"] = _canon_bc(ev)
        o["stored"] = [[int(i) for i in a] for pair in ev["stored"] for a in pair]
        evs.append(o)
    n_acc = sum(1 for ev in rec.events if ev["e"] == "conv")
    return {"events": evs, "status": rec.status[0], "err": rec.status[1], "n_accepted": n_acc,
            "t": frac(rec.final["t"]), "dt": frac(rec.final["dt"]), "ti": rec.final["ti"]}


# ----------------------------------------------------------------------------- model side
def _tapes_for_model(case):
    if case["mode"] != "physical-real":
        return case["tapes"]
    key = json.dumps(case, sort_keys=True)
    if key not in _FLAGS:
        _real_run(case)
    tapes, j = [], 0
    for fl in _FLAGS[key]:  # flags observed on the real run are the tape
        t = []
        for c, d in fl:
            t.append({"inc": str(2 ** j), "c": c, "d": d})
            j += 1
        tapes.append(t)
    return tapes


def model_ops(case):
    tm = dict(case["tm"])
    tm["rtol"], tm["atol"] = frac(1e-10), frac(1e-16)
    return [{"op": "run", "tm": tm, "max_it": case["max_it"], "n_it": case["n_it"], "n_ts": case["n_ts"], "init": case["init"],
             "div_overrules": True, "linear": case["mode"] == "linear", "check_tol": case["tol"] if case["mode"] == "inject-check" else None, "tapes": _tapes_for_model(case)}]


def model_decode(outs, case):
    return outs[0]


def compare(impl, model, case):
    if "harness_exc" in impl:
        return f"real run crashed in the harness: {impl['harness_exc']}"
    if "err" in model and "events" not in model:
        return f"driver error {model}"
    inject = case["mode"].startswith("inject") or case["mode"] == "linear"
    bc_map = (lambda q: q) if case["bc"] == "time" else (lambda q: "1")
    ie, me = impl["events"], model["events"]
    for n, (a, b) in enumerate(zip(ie, me)):
        where = f"event {n} ({a['e']})"
        if a["e"] != b["e"]:
            return f"{where}: model has event {b['e']}"
        if a["e"] == "check":
            if (a["c"], a["d"]) != (b["c"], b["d"]):
                return f"{where}: flags {(a['c'], a['d'])} vs model {(b['c'], b['d'])}"
            continue
        if a["k"] != b["k"]:
            return f"{where}: num_iteration {a['k']} vs model {b['k']}"
        if a["e"] == "ret" and a["c"] != b["c"]:
            return f"{where}: solve returned {a['c']} vs model {b['c']}"
        if a["stored"] != [list(range(len(b["its"]))), list(range(len(b["tss"])))]:
            return f"{where}: stored iterate/time-step indices {a['stored']} vs model depths {len(b['its'])}/{len(b['tss'])}"
        if inject:
            if a["its"] != b["its"] or a["tss"] != b["tss"]:
                return f"{where}: iterates/time steps {a['its']}/{a['tss']} vs model {b['its']}/{b['tss']}"
        elif a["pat"] != _pattern(b["its"] + b["tss"]):
            return f"{where}: equality pattern {a['pat']} vs model {_pattern(b['its'] + b['tss'])} ({b['its']}/{b['tss']})"
        if a["bcit"] != bc_map(b["bcit"]) or a["bcts"] != [bc_map(q) for q in b["bcts"]]:
            return f"{where}: boundary values {a['bcit']}/{a['bcts']} vs model {b['bcit']}/{b['bcts']}"
        if not (close(a["t"], b["t"]) and close(a["dt"], b["dt"])) or a["ti"] != b["ti"]:
            return f"{where}: clock (t, dt, index) {(a['t'], a['dt'], a['ti'])} vs model {(b['t'], b['dt'], b['ti'])}"
    if len(ie) != len(me):
        return f"{len(ie)} events vs {len(me)} in the model (next: {(ie + me)[min(len(ie), len(me))]['e']})"
    if all(model["hyp"].values()) and model["status"] not in ("finished", "raised"):
        return f"model contradicts ends_at_final_time_or_raises_tm: hypotheses hold, status {model['status']}"
    if (impl["status"], impl["err"]) != (model["status"], model["err"]):
        return f"status {(impl['status'], impl['err'])} vs model {(model['status'], model['err'])}"
    if impl["n_accepted"] + 1 != len(model["accepted"]):
        return f"{impl['n_accepted']} accepted steps vs {len(model['accepted']) - 1} in the model"
    if impl["status"] in ("finished", "raised", "crashed"):
        if not (close(impl["t"], model["t"]) and close(impl["dt"], model["dt"])) or impl["ti"] != model["ti"]:
            return f"final clock {(impl['t'], impl['dt'], impl['ti'])} vs model {(model['t'], model['dt'], model['ti'])}"
    return None


# ----------------------------------------------------------------------------- oracle: the property on the real run
def oracle(case):
    np = _classes()["np"]
    rec = _real_run(case)
    eq = lambda a, b: a is not None and b is not None and np.array_equal(a, b)
    n_ts = case["n_ts"]
    g = (lambda t: t) if case["bc"] == "time" else (lambda t: 1.0)
    t0 = float(F(case["tm"]["schedule"][0]))
    t_final = float(F(case["tm"]["schedule"][-1]))
    init = None
    accepted, acc_t = [], [t0]  # most recent first
    prev_failed = None  # time of the rejected attempt if the previous solve failed
    solve_evs = {}
    for ev in rec.events:
        solve_evs.setdefault(ev["solve"], []).append(ev)
    for s in sorted(solve_evs):
        evs = solve_evs[s]
        loop = evs[0]
        if init is None:
            init = loop["tss"][-1]
            accepted = [init]
        window = (accepted + [init] * n_ts)[:n_ts]
        # at the start of every solve: stored time steps = accepted sequence, iterate = last accepted
        if not all(eq(a, b) for a, b in zip(loop["tss"], window)):
            return {"what": f"solve {s}: time-step values at the start of the Newton loop are not the accepted sequence", "key": "history-not-accepted-sequence"}
        if not eq(loop["its"][0], accepted[0]):
            return {"what": f"solve {s}: the Newton loop does not start from the last accepted solution", "key": "start-iterate-ne-last-accepted"}
        (bit, bts), = loop["bc"]
        want = ([g(t) for t in acc_t] + [g(t0)])[:n_ts]
        got = [None if x is None else float(x[0]) for x in bts]
        if float(bit[0]) != g(loop["t"]) or got != want:
            known = prev_failed is not None and case["bc"] == "time" and float(bit[0]) == g(loop["t"]) and got[0] == g(prev_failed)
            return {"what": f"solve {s} at t={loop['t']}" + (f" (recomputation of the step rejected at t={prev_failed})" if prev_failed is not None else "")
                            + f": boundary values stored for the previous time steps are {got}, the accepted times give {want}",
                    "key": "bc-ts0-after-failed-step" if known else "bc-history-other"}
        flags = [(e["c"], e["d"]) for e in evs if e["e"] == "check"]
        both = any(c and d for c, d in flags)
        last = evs[-1]
        if both and last["e"] == "ret" and last["c"] and not any(e["e"] == "conv" for e in evs):
            return {"what": f"solve {s} at t={loop['t']}: check_convergence returned (True, True); NewtonSolver.solve returned True although neither "
                            f"after_nonlinear_convergence nor after_nonlinear_failure ran: iterate {last['its'][0]} vs time step 0 {last['tss'][0]}, the time loop goes on",
                    "key": "both-flags-returns-true-without-hooks"}
        if last["e"] == "ret" and last["c"]:  # converged step
            conv_it = rec_converged(evs, linear=case["mode"] == "linear")
            if conv_it is None:
                return {"what": f"solve {s} returned True although check_convergence never reported convergence", "key": "returned-true-without-convergence"}
            if not eq(last["its"][0], conv_it):
                return {"what": f"solve {s}: the iterate changed between convergence and return", "key": "converged-iterate-changed"}
            if not eq(last["tss"][0], last["its"][0]):
                return {"what": f"solve {s} converged but time step 0 {last['tss'][0]} != iterate {last['its'][0]}", "key": "converged-ts0-ne-iterate"}
            accepted = [conv_it] + accepted
            window = (accepted + [init] * n_ts)[:n_ts]
            if not all(eq(a, b) for a, b in zip(last["tss"], window)):
                return {"what": f"solve {s} converged: the stored time steps are not the accepted sequence (deeper indices)", "key": "history-not-accepted-sequence"}
            if last["t"] != loop["t"] or last["ti"] != len(accepted) - 1:
                return {"what": f"solve {s} converged at t={loop['t']} but the clock shows t={last['t']}, index {last['ti']} after {len(accepted) - 1} accepted steps", "key": "accepted-time-changed"}
            acc_t = [loop["t"]] + acc_t
            prev_failed = None
        elif last["e"] == "ret":  # failed step, to be recomputed
            if not eq(last["its"][0], last["tss"][0]):
                return {"what": f"solve {s} failed but iterate {last['its'][0]} != time step 0 {last['tss'][0]}", "key": "failed-iterate-ne-ts0"}
            if not all(eq(a, b) for a, b in zip(last["tss"], window)):
                return {"what": f"solve {s} failed and the stored time steps changed", "key": "failed-ts-window-changed"}
            if not close(last["t"], acc_t[0]) or last["ti"] != len(accepted) - 1:
                return {"what": f"solve {s} failed: time {last['t']} (index {last['ti']}) is not the last accepted time {acc_t[0]} (index {len(accepted) - 1})", "key": "failed-time-not-rewound"}
            (bit, _), = last["bc"]  # boundary values follow the clock back to the last accepted time
            if float(bit[0]) != g(acc_t[0]):
                known = case["bc"] == "time" and float(bit[0]) == g(loop["t"])
                return {"what": f"solve {s} at t={loop['t']} failed and time was reset to {last['t']}, but the current boundary values are still those of t={float(bit[0])} "
                                f"(they are shifted into the previous-time-step storage when the step is recomputed)",
                        "key": "bc-ts0-after-failed-step" if known else "bc-history-other"}
            prev_failed = loop["t"]
        elif last["e"] == "raise":
            pf = rec.pre_failure
            tm = case["tm"]
            exhausted = pf["constant"] or pf["recomp"] >= tm["recomp_max"] or pf["dt"] == float(F(tm["dt_min"])) or case["mode"] == "linear"
            if case["mode"] == "linear" and not (eq(last["its"][0], accepted[0]) and all(eq(a, b) for a, b in zip(last["tss"], window))):
                return {"what": f"linear solve {s} failed and changed the stored iterate/time steps before raising", "key": "linear-failure-touched-state"}
            if not exhausted:
                return {"what": f"solve {s} failed and the run raised {rec.status[1]} although the recomputation budget was not exhausted ({pf})", "key": "unexpected-raise"}
        elif last["e"] == "crash":
            return {"what": f"after_nonlinear_convergence raised {rec.status[1]} in solve {s}", "key": "accept-raised"}
    if rec.status[0] == "finished":
        if not (close(rec.final["t"], t_final) and rec.events and rec.events[-1]["e"] == "ret" and rec.events[-1]["c"]):
            return {"what": f"run ended at t={rec.final['t']} (final time {t_final}) / last solve not accepted", "key": "not-at-final-time"}
        if rec.final["ti"] != len(accepted) - 1:
            return {"what": f"time index {rec.final['ti']} after {len(accepted) - 1} accepted steps", "key": "time-index-ne-accepted"}
    return None


def rec_converged(evs, linear=False):
    """the iterate at the moment check_convergence reported convergence in this solve (LinearSolver checks
    before it applies the solution: there it is the iterate after the one after_nonlinear_iteration)"""
    if linear:
        its = [e["its"][0] for e in evs if e["e"] == "iter"]
        return its[-1] if its and any(e["e"] == "check" and e["c"] for e in evs) else None
    for e in evs:
        if e["e"] == "check" and e["c"]:
            return e["its"][0]
    return None


# ----------------------------------------------------------------------------- bookkeeping
def nontrivial(case):
    return _TAGS.get(json.dumps(case, sort_keys=True), True)


def shrink_candidates(case):
    if "tapes" not in case:
        if case["n_solves"] > 1:
            yield dict(case, n_solves=case["n_solves"] - 1)
        return
    tapes = case["tapes"]
    for n in range(1, len(tapes)):
        yield dict(case, tapes=tapes[:n])
    if case["n_ts"] > 1:
        yield dict(case, n_ts=case["n_ts"] - 1)
    if case["n_it"] > 1:
        yield dict(case, n_it=case["n_it"] - 1)
    if case["grid"] != [1, 1]:
        yield dict(case, grid=[1, 1])


def stats(cases, impl_outs):
    modes, status, ends = {}, {}, {"conv": 0, "fail": 0, "raise": 0, "both": 0}
    solves = 0
    for c, o in zip(cases, impl_outs):
        modes[c["mode"]] = modes.get(c["mode"], 0) + 1
        if "events" not in o:
            continue
        k = o["status"] + ("" if not o["err"] else ":" + o["err"])
        status[k] = status.get(k, 0) + 1
        for e in o["events"]:
            if e["e"] in ends:
                ends[e["e"]] += 1
            if e["e"] == "loop":
                solves += 1
            if e["e"] == "check" and e["c"] and e["d"]:
                ends["both"] += 1
    strata = {}
    hyp_all = 0
    for c in cases:
        strata[c.get("stratum") or "none"] = strata.get(c.get("stratum") or "none", 0) + 1
    strata["nan-at-first-iteration"] = sum(1 for c in cases if any(t and t[0]["inc"] == "nan" for t in c.get("tapes", [])))
    strata["both-flags"] = sum(1 for c in cases if "div_tol" in c or any(e["c"] and e["d"] for t in c.get("tapes", []) for e in t))
    return {"strata": strata, "modes": modes, "final_status": status, "newton_solves": solves, "solve_ends": ends,
            "time_dependent_bc": sum(1 for c in cases if c["bc"] == "time"), "constant_dt": sum(1 for c in cases if c["tm"]["constant_dt"]),
            "window_lengths": {f"{a}x{b}": sum(1 for c in cases if (c["n_it"], c["n_ts"]) == (a, b)) for a in (1, 2, 3) for b in (1, 2, 3)}}
