"""C17 Upwinding picks the upstream cell and transports conservatively.

One case = a grid recipe (built by the real porepy constructors, the fracture meshing, or a raw incidence
handed to `pp.Grid`), a face flux field, a boundary-condition assignment, the number of components and the
data of a few explicit transport steps (cell values, boundary values, cell volumes, time step).

`impl_run` calls the real `pp.Upwind.discretize` / `assemble_matrix_rhs`, canonicalises the three matrices
and performs the explicit steps in exact rational arithmetic *with the real matrices* (and the real
`sd.divergence`).  `model_ops` sends the stored entries of `sd.cell_faces` (in `sps.find` order), the flux,
the boundary flags and the step data to the Lean model.  `oracle` states the property on the real matrices
using only `sd.cell_faces.toarray()`.
"""
import json
import warnings
from fractions import Fraction

import numpy as np
import scipy.sparse as sps

from harness.common import frac, err_kind, deep_compare

PID = "C17"
THEOREMS = ["PorepyVerif.C17." + t for t in (
    "upwind_selects_upstream",
    "upwind_boundary_rows_neumann",
    "sgnDiv_boundary",
    "upwind_boundary_rows_dirichlet",
    "dirDiag_support",
    "boundary_data_only_on_boundary_rows",
    "upwind_boundary_rows",
    "upVal_eq_matvec",
    "discretize_defined",
    "transport_balance",
    "transport_conserves",
    "transport_conserves_iter",
    "transport_maximum_principle_inflow",
    "transport_maximum_principle",
    "transport_maximum_principle_iter",
    "kron_entry",
    "kron_components",
    "kron_upwind_entry",
    "coupling_selects_upstream",
    "traceVal_fracture_face",
    "coupling_row_matvec",
    "coupling_interface_conserves",
    "md_transport_conserves",
    "md_transport_conserves_iter",
    "transport_conserves_checked",
    "transport_maximum_principle_checked",
    "md_transport_conserves_checked",
    "darcy_flux_divergence_free",
    "assemble_matvec",
)]
LEAN_MODULES = ["PorepyVerif.C17.Props"]
AUDIT = "PorepyVerif/C17/Audit.lean"
DRIVER = "PorepyVerif/C17/Driver.lean"
N = {"quick": 300, "thorough": 5000}
RULE = ("one grid per case, built by the real code: CartGrid 1/2/3-d, StructuredTriangleGrid, StructuredTetrahedralGrid, the 2-d subdomain of "
        "pp.meshing.cart_grid with one fracture (split faces = boundary faces inside the domain), or a raw signed incidence handed to pp.Grid "
        "(random cell graph, both normal orientations on boundary faces; 15% ill-formed: a face with three cells). Scenarios: 'matrices' = random "
        "dyadic flux with 25% zeros and mixed signs (sometimes one-signed), boundary conditions through the BoundaryCondition constructor (random "
        "dir/neu per boundary face, all-dir, all-neu, 12% with Robin faces -> ValueError when flux enters there), the code's default (no 'bc'), or "
        "flags written directly (interior faces flagged, both flags, no flag); 'noflow' = all-Neumann zero data with any flux; 'divfree' = sum of "
        "random circulations along cycles of the cell graph (zero on the boundary), time step and volumes chosen so that dt*outflow <= V with "
        "equality in many cells; 'through' = circulations plus paths entering and leaving through Dirichlet boundary faces. 1-3 components, "
        "1-5 explicit steps with dyadic cell values / boundary values. 45% of the cases are HISTORIES of 2-4 discretize calls on ONE data dictionary and ONE "
        "Upwind object: between calls the BoundaryCondition object is modified in place (or replaced by an equal / different object, or the code's default "
        "branch is entered / left), flux values are rescaled with the same signs or sign-flipped (written in place or as a new array), num_components "
        "changes; every call is checked. 12% of the cases are MIXED-DIMENSIONAL: a small md-grid from pp.meshing.cart_grid (2-d with one or two "
        "fractures incl. crossing ones with a 0-d intersection, 3-d with one or two fracture planes), random flux on every subdomain, random mortar flux "
        "(20% zeros, mixed / one-signed) on every interface, outer boundary all-Neumann zero data (60%) or random Dirichlet/Neumann, 1-3 explicit md steps; "
        "15% also call UpwindCoupling.discretize with the grids swapped (ValueError). 7% of the cases call Upwind.darcy_flux (constant velocity incl. zero, "
        "with / without / constant cell apertures) on Cartesian 1-3-d, triangle and fractured grids with computed geometry, 20% of them on a 0-d PointGrid "
        "(shortcut branch of discretize). Explicit strata (counted in input_distribution.strata): one-cell grids, all-zero flux, flux scaled by 2^+-40, "
        "zero flux on boundary faces, boundary-condition faces passed permuted with a repeated face, histories. non-trivial = at least 2 cells and a nonzero flux; distinct = distinct cases")
TRUSTED = [
    "modelled, not verified: scipy.sparse glue (sps.find enumeration order, coo->csr conversion, sps.kron, np.delete, matrix products in "
    "assemble_matrix_rhs), numpy fancy assignment in cell_faces_as_dense (last write wins), np.sign on binary64 (NaN / -0.0 fluxes are not generated)",
    "the boundary flags is_dir / is_neu are inputs of the model: they are read from the real BoundaryCondition object (its constructor belongs to C39); "
    "for the code's default branch (no 'bc' given) the harness derives them from the grid tags (Dirichlet on domain_boundary_faces, Neumann on the "
    "other tagged boundary faces)",
    "the explicit transport step is not porepy code: it is composed in the harness exactly as porepy's models compose the advective flux "
    "(flux*(upwind@c) + bound_transport_dir@(flux*bc) + bound_transport_neu@bc, then sd.divergence) from the REAL matrices in exact rationals",
    "UpwindCoupling: the mortar projections (mortar_to_primary_int, mortar_to_secondary_int, *_avg) are inputs of the model, read from the real MortarGrid "
    "as the matching mortar cell -> primary face / secondary cell (the harness asserts they are one-to-one 0/1 maps, as on every matching grid; non-matching "
    "mortar grids are not covered; the projections themselves belong to C26); np.sign / np.abs / sps.diags glue; the md explicit step is composed in the "
    "harness from the real Upwind matrices and the real coupling blocks cc[0,2], cc[1,2], cc[2,0], cc[2,1] (eta eliminated through cc[2,2] = -I)",
    "readers of the stored discretization (assemble_matrix_rhs of Upwind and UpwindCoupling, called repeatedly, and a transport loop re-assembling in every "
    "step) are checked by the oracle (stored matrices bit-identical to the snapshot taken after discretize; repeated assembles identical; loop = composed "
    "steps); the correspondence sees them through the matrices as stored AFTER the readers ran and through the first (A, rhs), which the model computes "
    "(assembleTrip / assembleRhs: A = div diag(flux) U, rhs = div (N + D diag(flux)) bc in the code's sign convention)",
    "a one-face 'grid' (np.squeeze in discretize returns a 0-d array -> IndexError) is not a grid of any dimension >= 1 and is not generated; "
    "0-d grids take the trivial shortcut branch of discretize and are not modelled",
]
EXPLANATION = ("FULL: model = Upwind.discretize branch for branch over the stored (face, cell, sign) entries of cell_faces (cf_dense rows, sign test with "
               "zero counted as positive, Neumann / Dirichlet-inflow row deletion, column -1 -> ValueError, sgn_div, Kronecker expansion), plus the legacy "
               "assemble_matrix_rhs. Theorems for EVERY well-formed topology (any size/dimension), flux field, flag assignment: interior rows select exactly "
               "the cell the flux leaves (zero flux: the positive-side cell); Neumann and Dirichlet-inflow rows are empty, Dirichlet-outflow rows select the "
               "interior cell; boundary data enters only on deleted rows with the coded signs; total amount changes by -dt*(boundary flux) for ANY data "
               "(transport_balance) hence is conserved under no-flow boundaries for any flux and any number of steps; divergence-free flux + CFL => cell values "
               "stay in the initial bounds (no-flow statement of the property, and its generalisation to Dirichlet in/outflow with bounded inflow data), for any "
               "number of steps; Kronecker expansion of any sparse matrix has block-diagonal-per-component entries and acts component-wise. Correspondence "
               "compares the three matrices, their shapes, assemble_matrix_rhs (matrix, rhs, ValueError for >1 component), ValueError cases and 1-5 explicit "
               "steps exactly (rationals), after every discretize call of a history (the model is stateless: it sees only the current inputs); the oracle "
               "additionally demands that the stored matrices equal those of a fresh discretisation of the current inputs (keys history-stale-*). "
               "UpwindCoupling (interface variant) is modelled per mortar cell as coded (flag = sign(lam) > 0, so zero flux takes the secondary side): "
               "coupling_selects_upstream / coupling_row_matvec (row 2 of the assembled blocks = lam * primary trace value if lam > 0 else lam * secondary cell "
               "value), coupling_interface_conserves (what cc[0,2] takes out of the primary cells cc[1,2] puts into the secondary cells, any mortar flux), "
               "md_transport_conserves(_iter): on any graph of subdomains coupled by interfaces (flattened to global indices) an explicit step with no-flow outer "
               "boundary keeps the total over all subdomains, for ANY subdomain and mortar fluxes. Correspondence on md-grids: all Upwind matrices, all "
               "UpwindCoupling matrices and assembled blocks, ValueError for swapped dimensions, md steps exactly. Every hypothesis of the transport theorems is "
               "a Boolean the driver evaluates on every case (wfB, consHypB, mpHypB, mdHypB; theorems *_checked: checker = true => conclusion) and is compared "
               "with an independent numpy/Fraction computation. Upwind.darcy_flux is modelled (normal . (mean aperture * beta)) and proved divergence-free on "
               "closed cells for constant aperture (darcy_flux_divergence_free), which discharges the divergence-free hypothesis for uniform flow.")
ASSUMPTIONS = [
    "selection / boundary-row / maximum-principle theorems assume the decidable well-formedness predicate WF (signs +-1, at most one cell on each side of a "
    "face); every grid built by porepy constructors / fracture meshing in the sample satisfies it (the oracle recomputes it from cell_faces.toarray())",
    "conservation needs nonzero cell volumes, the maximum principle positive volumes, dt >= 0 and the CFL condition dt * outflow_i <= V_i",
    "numbers are exact rationals in the model; generated data are small dyadic rationals so that the real matrices (entries 0, +-1) are exact",
]

F0 = Fraction(0)
_CLS = {"conservation_checked": 0, "max_principle_noflow_checked": 0, "max_principle_inflow_checked": 0, "oracle_skipped_not_wf": 0}


# ----------------------------------------------------------------------------- grids
_GRIDS = {}


def build_grid(spec):
    """The real grid of a recipe (cached: discretize never mutates the grid)."""
    import porepy as pp

    key = json.dumps(spec, sort_keys=True)
    if key in _GRIDS:
        return _GRIDS[key]
    kind = spec["kind"]
    if kind == "cart":
        g = pp.CartGrid(np.array(spec["dims"]))
    elif kind == "tri":
        g = pp.StructuredTriangleGrid(np.array(spec["dims"]))
    elif kind == "tet":
        g = pp.StructuredTetrahedralGrid(np.array(spec["dims"]))
    elif kind == "frac":
        with warnings.catch_warnings():
            warnings.simplefilter("ignore")
            mdg = pp.meshing.cart_grid([np.array(spec["frac"], dtype=float)], np.array(spec["dims"]))
        g = mdg.subdomains(dim=len(spec["dims"]))[0]
    elif kind == "raw":
        nf, nc = spec["nf"], spec["nc"]
        inc = spec["inc"]
        cf = sps.csc_matrix((np.array([s for _, _, s in inc], dtype=int), (np.array([f for f, _, _ in inc], dtype=int), np.array([c for _, c, _ in inc], dtype=int))), shape=(nf, nc))
        fn = sps.csc_matrix((np.ones(nf, dtype=bool), (np.arange(nf), np.arange(nf))), shape=(max(nf, 1), nf))
        g = pp.Grid(spec["dim"], np.zeros((3, max(nf, 1))), fn, cf, "raw")
    else:
        raise ValueError(kind)
    if len(_GRIDS) > 400:
        _GRIDS.clear()
    _GRIDS[key] = g
    return g


def incidences(g):
    """stored entries (face, cell, sign) of cell_faces in the order `sps.find` enumerates them
    (the order `cell_faces_as_dense` writes them)."""
    fi, ci, s = sps.find(g.cell_faces)
    return [[int(a), int(b), int(c)] for a, b, c in zip(fi, ci, s)]


def _face_cells(inc, nf):
    fc = [[] for _ in range(nf)]
    for f, c, s in inc:
        fc[f].append((c, s))
    return fc


def _well_formed(fc):
    for l in fc:
        if sum(1 for _, s in l if s > 0) > 1 or sum(1 for _, s in l if s < 0) > 1 or any(s not in (1, -1) for _, s in l):
            return False
    return True


# ----------------------------------------------------------------------------- generator
def _gen_grid_spec(rng, tier):
    big = tier == "thorough"
    r = rng.random()
    if r < 0.14:
        return {"kind": "cart", "dims": [rng.choice([1, 1, 1, 2, 3, 4, 5, 7] + ([12, 25] if big else []))]}
    if r < 0.36:
        return {"kind": "cart", "dims": [rng.randint(1, 6 if big else 4), rng.randint(1, 6 if big else 4)]}
    if r < 0.48:
        return {"kind": "cart", "dims": [rng.randint(1, 3), rng.randint(1, 3), rng.randint(1, 3 if big else 2)]}
    if r < 0.66:
        return {"kind": "tri", "dims": [rng.randint(1, 4 if big else 3), rng.randint(1, 4 if big else 3)]}
    if r < 0.76:
        return {"kind": "tet", "dims": [rng.randint(1, 2), rng.randint(1, 2), rng.randint(1, 2)]}
    if r < 0.84:
        nx, ny = rng.randint(2, 4), rng.randint(2, 4)
        if rng.random() < 0.5:  # horizontal fracture (interior or touching the boundary)
            y = rng.randint(1, ny - 1)
            x0 = rng.randint(0, nx - 1)
            x1 = rng.randint(x0 + 1, nx)
            return {"kind": "frac", "dims": [nx, ny], "frac": [[x0, x1], [y, y]]}
        x = rng.randint(1, nx - 1)
        y0 = rng.randint(0, ny - 1)
        y1 = rng.randint(y0 + 1, ny)
        return {"kind": "frac", "dims": [nx, ny], "frac": [[x, x], [y0, y1]]}
    return _gen_raw(rng, malformed=rng.random() < 0.15)


def _gen_raw(rng, malformed):
    """random signed incidence: every face has two distinct cells of opposite sign, or one cell of either sign."""
    nc = rng.choice([1, 2, 3, 4, 5, 6, 8])
    nf = rng.randint(2, 2 * nc + 3)  # (a one-face "grid" makes np.squeeze in discretize return a 0-d array; no real grid has one face)
    inc = []
    for f in range(nf):
        if nc >= 2 and rng.random() < 0.6:
            a, b = rng.sample(range(nc), 2)
            inc += [[f, a, 1], [f, b, -1]]
        else:
            inc.append([f, rng.randrange(nc), rng.choice([1, -1])])
    if malformed and nc >= 3:
        # a third cell on an interior face (+ - + or - + -: the constructor's orientation check accepts it)
        two = sorted({f for f, _, _ in inc if sum(1 for ff, _, _ in inc if ff == f) == 2})
        if two:
            f = rng.choice(two)
            used = {c for ff, c, _ in inc if ff == f}
            inc.append([f, rng.choice([c for c in range(nc) if c not in used]), rng.choice([1, -1])])
    return {"kind": "raw", "dim": rng.choice([1, 2, 3]), "nf": nf, "nc": nc, "inc": inc}


def _dy(rng, lo, hi, dens=(1, 1, 2, 4)):
    return Fraction(rng.randint(lo, hi), rng.choice(dens))


def _cell_nbrs(fc, nc):
    """nbrs[c] = [(face, other cell, sign of c on the face)] over interior faces; bnd[c] = [(face, sign of c)]"""
    nbrs = [[] for _ in range(nc)]
    bnd = [[] for _ in range(nc)]
    for f, l in enumerate(fc):
        if len(l) == 2:
            (a, sa), (b, sb) = l
            nbrs[a].append((f, b, sa))
            nbrs[b].append((f, a, sb))
        elif len(l) == 1:
            bnd[l[0][0]].append((f, l[0][1]))
    return nbrs, bnd


def _add_cycles(rng, F, nbrs, nc, ncyc):
    """circulations: a random walk over interior faces until a cell repeats; the closed part gets w units of flux"""
    for _ in range(ncyc):
        cur = rng.randrange(nc)
        pos = {cur: 0}
        used = []
        last = None
        for _ in range(4 * nc + 4):
            opts = [t for t in nbrs[cur] if t[0] != last]
            if not opts:
                break
            f, o, s = rng.choice(opts)
            used.append((f, s))
            last = f
            if o in pos:
                w = rng.choice([-3, -2, -1, 1, 2, 3])
                for ff, ss in used[pos[o]:]:
                    F[ff] += w * ss
                break
            pos[o] = len(used)
            cur = o


def _add_through(rng, F, nbrs, bnd, nc, npath):
    """w units enter through a boundary face, wander through cells and leave through another boundary face"""
    starts = [c for c in range(nc) if bnd[c]]
    for _ in range(npath):
        if not starts:
            return
        cur = rng.choice(starts)
        f0, s0 = rng.choice(bnd[cur])
        w = rng.choice([1, 1, 2, 3])
        upd = [(f0, -w * s0)]
        last = None
        done = False
        for _ in range(3 * nc + 3):
            outs = [(f, s) for f, s in bnd[cur] if f != f0]
            if outs and (rng.random() < 0.35 or not nbrs[cur]):
                f, s = rng.choice(outs)
                upd.append((f, w * s))
                done = True
                break
            opts = [t for t in nbrs[cur] if t[0] != last] or nbrs[cur]
            if not opts:
                break
            f, o, s = rng.choice(opts)
            upd.append((f, w * s))
            last = f
            cur = o
        if done:
            for f, d in upd:
                F[f] += d


def _outflow(fc_cells, F, nc):
    out = [F0] * nc
    for f, l in enumerate(fc_cells):
        for c, s in l:
            if s * F[f] > 0:
                out[c] += s * F[f]
    return out


def gen_case(rng, tier):
    r0 = rng.random()
    if r0 < 0.12:
        return _gen_md(rng, tier)
    if r0 < 0.19:
        return _gen_darcy(rng, tier)
    spec = _gen_grid_spec(rng, tier)
    g = build_grid(spec)
    nf, nc = g.num_faces, g.num_cells
    inc = incidences(g)
    fc = _face_cells(inc, nf)
    wf = _well_formed(fc)
    bfaces = [f for f in range(nf) if len(fc[f]) == 1]
    nbrs, bnd = _cell_nbrs(fc, nc) if wf else ([[] for _ in range(nc)], [[] for _ in range(nc)])
    scen = rng.choice(["matrices"] * 4 + ["noflow"] * 2 + ["divfree"] * 3 + ["through"] * 2) if wf else "matrices"
    k = rng.choice([1, 1, 1, 2, 3])
    nsteps = rng.randint(1, 3)
    bc = None
    bv = [[_dy(rng, -8, 8) for _ in range(nf)] for _ in range(k)]
    c0 = [[_dy(rng, -8, 8) for _ in range(nc)] for _ in range(k)]
    V = [_dy(rng, 1, 6, (1, 2, 4)) for _ in range(nc)]
    dt = rng.choice([Fraction(1, 8), Fraction(1, 4), Fraction(1, 2), Fraction(1), Fraction(0)])

    if scen == "matrices":
        scale = rng.choice([1, 1, 2])
        F = [Fraction(0) if rng.random() < 0.25 else Fraction(rng.randint(-3, 3), scale) for _ in range(nf)]
        if rng.random() < 0.1:
            F = [abs(x) for x in F] if rng.random() < 0.5 else [-abs(x) for x in F]
        r = rng.random()
        if r < 0.1:
            bc = None  # the code's default: Dirichlet on the domain boundary
        elif r < 0.27:
            # flags set directly on the object (interior faces flagged, both flags, neither flag)
            is_dir = [rng.random() < (0.5 if len(fc[f]) == 1 else 0.15) for f in range(nf)]
            is_neu = [(rng.random() < 0.5 if not is_dir[f] else rng.random() < 0.1) if len(fc[f]) == 1 else rng.random() < 0.12 for f in range(nf)]
            bc = {"mode": "flags", "is_dir": is_dir, "is_neu": is_neu}
        else:
            rob = rng.random() < 0.12
            conds = [rng.choice(["dir", "neu"] + (["rob"] if rob else [])) for _ in bfaces]
            if rng.random() < 0.15:
                conds = [rng.choice(["dir", "neu"])] * len(bfaces)
            bc = {"mode": "ctor", "faces": bfaces, "cond": conds}
    elif scen == "noflow":
        # any flux, every boundary face Neumann with zero data
        scale = rng.choice([1, 2])
        F = [Fraction(0) if rng.random() < 0.15 else Fraction(rng.randint(-4, 4), scale) for _ in range(nf)]
        bc = {"mode": "ctor", "faces": [], "cond": []}
        bv = [[F0] * nf for _ in range(k)]
        nsteps = rng.randint(1, 4)
    else:
        F = [Fraction(0)] * nf
        _add_cycles(rng, F, nbrs, nc, rng.randint(1, 4))
        if scen == "through":
            _add_through(rng, F, nbrs, bnd, nc, rng.randint(1, 3))
        if rng.random() < 0.3:
            F = [x / 2 for x in F]
        conds = []
        for f in bfaces:
            if F[f] != 0:
                conds.append("dir")
            else:
                conds.append("neu" if (scen == "divfree" and rng.random() < 0.75) or rng.random() < 0.5 else "dir")
        if scen == "divfree" and rng.random() < 0.6:
            conds = ["neu"] * len(bfaces)
        bc = {"mode": "ctor", "faces": bfaces, "cond": conds}
        for f, cd in zip(bfaces, conds):
            if cd == "neu":
                for a in range(k):
                    bv[a][f] = F0
        # CFL: choose dt, then volumes with dt * outflow <= V (equality for some cells)
        dt = rng.choice([Fraction(1, 8), Fraction(1, 4), Fraction(1, 2), Fraction(1), Fraction(3, 2)])
        out = _outflow(fc, F, nc)
        V = []
        for i in range(nc):
            if out[i] > 0:
                V.append(dt * out[i] * rng.choice([1, 1, Fraction(3, 2), 2, 4]))
            else:
                V.append(_dy(rng, 1, 6, (1, 2, 4)))
        nsteps = rng.randint(1, 5)
    if nc * nf > 4000:
        nsteps = min(nsteps, 2)
    case = {
        "grid": spec,
        "scenario": scen,
        "flux": [frac(x) for x in F],
        "bc": bc,
        "k": k,
        "omit_k": k == 1 and rng.random() < 0.5,
        "bv": [[frac(x) for x in row] for row in bv],
        "c": [[frac(x) for x in row] for row in c0],
        "V": [frac(x) for x in V],
        "dt": frac(dt),
        "nsteps": nsteps,
    }
    strata = []
    if nc == 1:
        strata.append("one-cell-grid")
    r1 = rng.random()
    if r1 < 0.05:
        case["flux"] = ["0"] * nf
        strata.append("all-zero-flux")
    elif r1 < 0.12:
        e = rng.choice([40, -40, 30])  # extreme scale: only the signs matter for the matrices; steps stay exact rationals
        case["flux"] = [frac(Fraction(x) * Fraction(2) ** e) for x in case["flux"]]
        if scen in ("divfree", "through"):
            case["V"] = [frac(Fraction(v) * Fraction(2) ** e) for v in case["V"]]  # keeps dt * outflow <= V
        strata.append("extreme-scale-flux")
    if bc is not None and bc["mode"] == "ctor" and len(bc["faces"]) >= 2 and rng.random() < 0.2:
        # the same assignment given to the BoundaryCondition constructor in permuted order, with a repeated face (last entry wins)
        idx = list(range(len(bc["faces"])))
        rng.shuffle(idx)
        j = rng.choice(idx)
        idx = [j] + idx
        conds = [bc["cond"][t] for t in idx]
        conds[0] = "dir" if bc["cond"][j] != "dir" else "neu"  # overridden by the later entry of the same face
        case["bc"] = {"mode": "ctor", "faces": [bc["faces"][t] for t in idx], "cond": conds}
        strata.append("bc-faces-permuted-duplicated")
    if any(Fraction(x) == 0 for x in case["flux"]) and any(len(fc[f]) == 1 and Fraction(case["flux"][f]) == 0 for f in range(nf)):
        strata.append("zero-flux-on-boundary-face")
    if rng.random() < 0.45:
        case["stages"] = _gen_stages(rng, case, fc, nf, nc)
        strata.append("history")
    case["strata"] = strata
    return case


def _gen_stages(rng, case, fc, nf, nc):
    """a short history on ONE data dictionary / Upwind object: after the first discretize the inputs are changed (boundary flags in place
    or through a new object, flux signs / magnitudes in place or through a new array, number of components) and discretize is called again."""
    stages = []
    cur = {key: case[key] for key in ("flux", "bc", "k", "omit_k", "bv", "c")}
    bfaces = [f for f in range(nf) if len(fc[f]) == 1]
    for _ in range(rng.randint(1, 3)):
        st = dict(cur, how_bc="keep", how_flux=rng.choice(["inplace", "new"]), what=[])
        for kind in rng.sample(["bc-inplace", "bc-inplace", "bc-new-equal", "bc-new", "flux-scale", "flux-flip", "k", "none"], rng.randint(1, 2)):
            st["what"].append(kind)
            if kind in ("bc-inplace", "bc-new"):
                bc = st["bc"]
                if bc is None or (kind == "bc-new" and rng.random() < 0.15):
                    # leave / enter the default branch of the code (no 'bc' in the parameters)
                    bc = None if bc is not None else {"mode": "ctor", "faces": bfaces, "cond": [rng.choice(["dir", "neu"]) for _ in bfaces]}
                    st["how_bc"] = "new"
                elif bc["mode"] == "ctor":
                    faces = bc["faces"] or bfaces
                    cond = list(bc["cond"]) if bc["faces"] else ["neu"] * len(bfaces)
                    for j in rng.sample(range(len(faces)), min(len(faces), rng.randint(1, 3))) if faces else []:
                        cond[j] = "dir" if cond[j] != "dir" else "neu"
                    bc = {"mode": "ctor", "faces": faces, "cond": cond}
                    st["how_bc"] = "inplace" if kind == "bc-inplace" else "new"
                else:
                    is_dir, is_neu = list(bc["is_dir"]), list(bc["is_neu"])
                    for f in rng.sample(range(nf), min(nf, rng.randint(1, 3))):
                        if rng.random() < 0.5:
                            is_dir[f] = not is_dir[f]
                        else:
                            is_neu[f] = not is_neu[f]
                    bc = {"mode": "flags", "is_dir": is_dir, "is_neu": is_neu}
                    st["how_bc"] = "inplace" if kind == "bc-inplace" else "new"
                st["bc"] = bc
            elif kind == "bc-new-equal":
                if st["how_bc"] == "keep":
                    st["how_bc"] = "new"
            elif kind == "flux-scale":
                m = rng.choice([2, Fraction(1, 2), 3])
                st["flux"] = [frac(Fraction(x) * (m if rng.random() < 0.7 else 1)) for x in st["flux"]]
            elif kind == "flux-flip":
                fl = [Fraction(x) for x in st["flux"]]
                for f in rng.sample(range(nf), min(nf, rng.randint(1, 4))):
                    fl[f] = -fl[f] if fl[f] != 0 and rng.random() < 0.7 else Fraction(rng.randint(-2, 2))
                if rng.random() < 0.15:
                    fl = [-x for x in fl]
                st["flux"] = [frac(x) for x in fl]
            elif kind == "k":
                k = rng.choice([x for x in (1, 2, 3) if x != st["k"]])
                st["k"] = k
                st["omit_k"] = k == 1 and rng.random() < 0.5
                st["bv"] = [[frac(_dy(rng, -8, 8)) for _ in range(nf)] for _ in range(k)]
                st["c"] = [[frac(_dy(rng, -8, 8)) for _ in range(nc)] for _ in range(k)]
        stages.append(st)
        cur = {key: st[key] for key in ("flux", "bc", "k", "omit_k", "bv", "c")}
    return stages


def _stages(case):
    """the inputs of every discretize call of the history, each as a self-contained one-stage case"""
    base = {key: v for key, v in case.items() if key != "stages"}
    return [base] + [dict(base, **st) for st in case.get("stages", [])]


# ----------------------------------------------------------------------------- the real code
def _make_bc(g, bcspec):
    import porepy as pp

    if bcspec is None:
        return None
    if bcspec["mode"] == "ctor":
        if not bcspec["faces"]:
            return pp.BoundaryCondition(g)
        with warnings.catch_warnings():
            warnings.simplefilter("ignore")
            return pp.BoundaryCondition(g, np.array(bcspec["faces"], dtype=int), list(bcspec["cond"]))
    bc = pp.BoundaryCondition(g)
    bc.is_dir = np.array(bcspec["is_dir"], dtype=bool)
    bc.is_neu = np.array(bcspec["is_neu"], dtype=bool)
    bc.is_rob = np.zeros(g.num_faces, dtype=bool)
    return bc


def _flags(g, bcspec, bc):
    """(is_dir, is_neu) as lists of bool.  For the default branch of the code (no 'bc' given) the flags are
    computed here from the grid tags, independently of the code under test."""
    if bc is not None:
        return [bool(x) for x in bc.is_dir], [bool(x) for x in bc.is_neu]
    dom = np.asarray(g.tags["domain_boundary_faces"], dtype=bool)
    allb = dom | np.asarray(g.tags["fracture_faces"], dtype=bool) | np.asarray(g.tags["tip_faces"], dtype=bool)
    return [bool(x) for x in dom], [bool(x) for x in (allb & ~dom)]


def _discretize(case):
    """-> (grid, bc, data dict, upwind object); raises what the real code raises"""
    import porepy as pp

    g = build_grid(case["grid"])
    bc = _make_bc(g, case["bc"])
    params = {"darcy_flux": np.array([float(Fraction(x)) for x in case["flux"]])}
    if bc is not None:
        params["bc"] = bc
    if not case.get("omit_k"):
        params["num_components"] = case["k"]
    params["bc_values"] = np.array([float(Fraction(x)) for x in case["bv"][0]])
    data = {pp.PARAMETERS: {"transport": params}, pp.DISCRETIZATION_MATRICES: {"transport": {}}}
    up = pp.Upwind("transport")
    up.discretize(g, data)
    return g, bc, data, up


def _trip(M):
    """canonical sparse form: duplicates summed, zeros dropped, sorted; values exact"""
    M = sps.coo_matrix(M)
    d = {}
    for r, c, v in zip(M.row, M.col, M.data):
        d[(int(r), int(c))] = d.get((int(r), int(c)), F0) + Fraction(float(v))
    return [[r, c, frac(v)] for (r, c), v in sorted(d.items()) if v != 0]


def _rows(M):
    """row -> [(col, Fraction)] of a real sparse matrix (exact)"""
    M = sps.coo_matrix(M)
    rows = [[] for _ in range(M.shape[0])]
    for r, c, v in zip(M.row, M.col, M.data):
        if v != 0:
            rows[int(r)].append((int(c), Fraction(float(v))))
    return rows


def _matvec(rows, x):
    return [sum((v * x[c] for c, v in row), F0) for row in rows]


def _interleave(comps):
    k = len(comps)
    n = len(comps[0]) if k else 0
    return [comps[a][i] for i in range(n) for a in range(k)]


def _steps(g, mats, case):
    """explicit steps c <- c - dt/V * div( F*(U c) + D (F*bv) + N bv ) with the REAL matrices, exact rationals,
    all components interleaved as the Kronecker expansion orders them."""
    k = case["k"]
    U, D, Nm = (_rows(m) for m in mats)
    div = _rows(g.divergence(dim=k)) if k > 1 else _rows(g.divergence(dim=1))
    F = [Fraction(x) for x in case["flux"]]
    Fk = [F[f] for f in range(len(F)) for _ in range(k)]
    bv = _interleave([[Fraction(x) for x in row] for row in case["bv"]])
    x = _interleave([[Fraction(v) for v in row] for row in case["c"]])
    V = [Fraction(v) for v in case["V"]]
    Vk = [V[i] for i in range(len(V)) for _ in range(k)]
    dt = Fraction(case["dt"])
    Fbv = [a * b for a, b in zip(Fk, bv)]
    bterm = [a + b for a, b in zip(_matvec(D, Fbv), _matvec(Nm, bv))]
    out = []
    for _ in range(case["nsteps"]):
        uc = _matvec(U, x)
        gflux = [Fk[j] * uc[j] + bterm[j] for j in range(len(Fk))]
        dv = _matvec(div, gflux)
        x = [x[i] - dt / Vk[i] * dv[i] for i in range(len(x))]
        out.append(x)
    return out


def _run_history(case):
    """Every discretize call of the history on ONE data dictionary and ONE Upwind object.
    -> grid, [(stage view, ('err', exception) | ('ok', (U, D, N) copies, assemble output))]"""
    import porepy as pp

    g = build_grid(case["grid"])
    params = {}
    data = {pp.PARAMETERS: {"transport": params}, pp.DISCRETIZATION_MATRICES: {"transport": {}}}
    up = pp.Upwind("transport")
    res = []
    for n, st in enumerate(_stages(case)):
        flux = np.array([float(Fraction(x)) for x in st["flux"]])
        if n > 0 and st.get("how_flux") == "inplace":
            params["darcy_flux"][:] = flux
        else:
            params["darcy_flux"] = flux
        how = st.get("how_bc", "new") if n > 0 else "new"
        if st["bc"] is None:
            params.pop("bc", None)
        elif how in ("inplace", "keep") and "bc" in params:
            fresh = _make_bc(g, st["bc"])
            bc = params["bc"]  # the SAME object, modified in place (bc.is_dir[f] = True; bc.is_neu[f] = False ...)
            bc.is_dir[:] = fresh.is_dir
            bc.is_neu[:] = fresh.is_neu
            bc.is_rob[:] = fresh.is_rob
        else:
            params["bc"] = _make_bc(g, st["bc"])
        if st.get("omit_k"):
            params.pop("num_components", None)
        else:
            params["num_components"] = st["k"]
        params["bc_values"] = np.array([float(Fraction(x)) for x in st["bv"][0]])
        try:
            up.discretize(g, data)
        except Exception as e:
            res.append((st, ("err", e)))
            continue
        m = data[pp.DISCRETIZATION_MATRICES]["transport"]
        keys = (up.upwind_matrix_key, up.bound_transport_dir_matrix_key, up.bound_transport_neu_matrix_key)
        mats = tuple(m[key].copy() for key in keys)  # snapshot of the stored discretization right after discretize
        extra = {"stored_changed": None, "asm_repeat": None, "asm_steps": None}

        def stored_same(label):
            for key, snap in zip(keys, mats):
                if extra["stored_changed"] is None and not _same_sparse(m[key], snap):
                    extra["stored_changed"] = f"stored '{key}' matrix differs from its snapshot taken right after discretize, after {label}"

        # the readers of the stored discretization: discretize once, assemble several times (legacy time loops do exactly this)
        asm = None
        try:
            for rep in range(3):
                A, rhs = up.assemble_matrix_rhs(g, data)
                cur = {"A": _trip(A), "rhs": [frac(v) for v in np.asarray(rhs).ravel()]}
                stored_same(f"assemble_matrix_rhs call {rep + 1}")
                if asm is None:
                    asm = cur
                elif cur != asm and extra["asm_repeat"] is None:
                    extra["asm_repeat"] = f"assemble_matrix_rhs call {rep + 1} on an unchanged data dictionary returned a different (A, rhs) than call 1"
            # an explicit transport loop that re-assembles in every step: c <- c - dt/V (A c + rhs)   [= div(face flux), see _steps]
            x = [Fraction(v) for v in st["c"][0]]
            V = [Fraction(v) for v in st["V"]]
            dt = Fraction(st["dt"])
            steps = []
            for _ in range(max(3, st["nsteps"])):
                A, rhs = up.assemble_matrix_rhs(g, data)
                Ax = _matvec(_rows(A), x)
                rr = [Fraction(float(v)) for v in np.asarray(rhs).ravel()]
                x = [x[i] - dt / V[i] * (Ax[i] + rr[i]) for i in range(len(x))]
                steps.append(x)
            stored_same("a transport loop calling assemble_matrix_rhs in every step")
            extra["asm_steps"] = steps
        except Exception as e:
            if asm is None:
                asm = err_kind(e)
        extra["mats_after"] = tuple(m[key].copy() for key in keys)
        res.append((st, ("ok", mats, asm, extra)))
    return g, res


def _same_sparse(a, b):
    """bit-identical stored sparse matrices (shape, dtype, structure, data)"""
    a, b = sps.csr_matrix(a), sps.csr_matrix(b)
    return (a.shape == b.shape and a.dtype == b.dtype and np.array_equal(a.indptr, b.indptr) and np.array_equal(a.indices, b.indices)
            and np.array_equal(a.data, b.data))


def impl_run(case):
    if case.get("family") == "md":
        return _md_impl(case)
    if case.get("family") == "darcy":
        return _darcy_impl(case)
    g, res = _run_history(case)
    outs = []
    for st, r in res:
        if r[0] == "err":
            outs.append(err_kind(r[1]))
            continue
        mats = r[3]["mats_after"]  # as stored after the readers (assemble_matrix_rhs ...) ran: they must not have touched them
        outs.append({
            "shapes": [list(map(int, x.shape)) for x in mats],
            "upwind": _trip(mats[0]),
            "dir": _trip(mats[1]),
            "neu": _trip(mats[2]),
            "steps": [[frac(v) for v in x] for x in _steps(g, mats, st)],
            "assemble": r[2],
            "hyp": _hyp_flags(g, st, *_flags(g, st["bc"], _make_bc(g, st["bc"])))[0],
        })
    return outs


# ----------------------------------------------------------------------------- the model
def model_ops(case):
    """one stateless model evaluation per discretize call of the history (flags from a FRESH BoundaryCondition built from the stage's recipe)"""
    if case.get("family") == "md":
        return _md_ops(case)
    if case.get("family") == "darcy":
        return _darcy_ops(case)
    g = build_grid(case["grid"])
    inc = incidences(g)
    ops = []
    for st in _stages(case):
        bc = _make_bc(g, st["bc"])
        is_dir, is_neu = _flags(g, st["bc"], bc)
        ops.append({
            "op": "upwind",
            "nf": int(g.num_faces),
            "nc": int(g.num_cells),
            "inc": inc,
            "flux": st["flux"],
            "is_dir": is_dir,
            "is_neu": is_neu,
            "k": st["k"],
            "bv": st["bv"],
            "c": st["c"],
            "V": st["V"],
            "dt": st["dt"],
            "nsteps": st["nsteps"],
            "bounds": _hyp_flags(g, st, is_dir, is_neu)[1],
        })
    return ops


def _agg(trips):
    d = {}
    for r, c, v in trips:
        d[(int(r), int(c))] = d.get((int(r), int(c)), F0) + Fraction(v)
    return [[r, c, frac(v)] for (r, c), v in sorted(d.items()) if v != 0]


def model_decode(outs, case):
    if case.get("family") == "md":
        return _md_decode(outs, case)
    if case.get("family") == "darcy":
        return outs[0]
    res = []
    for o in outs:
        if "err" not in o:
            o = dict(o)
            for key in ("upwind", "dir", "neu"):
                o[key] = _agg(o[key])
            if "A" in o.get("assemble", {}):
                o["assemble"] = {"A": _agg(o["assemble"]["A"]), "rhs": o["assemble"]["rhs"]}
        res.append(o)
    return res


def compare(impl, model, case):
    if case.get("family") == "darcy" and case["grid"]["kind"] in ("tri",):
        return deep_compare(impl, model, tol=1e-12)  # normals of simplex grids come out of sqrt / division in compute_geometry
    return deep_compare(impl, model)



def _hyp_flags(g, st, is_dir, is_neu):
    """The hypotheses of the conservation / maximum-principle theorems decided with numpy + Fractions from cell_faces.toarray(),
    independently of the Lean checkers consHypB / mpHypB (compared with them on every case), and the bounds [m, M] per component:
    min / max over the cell values and the data on Dirichlet faces where flux enters."""
    nf, nc, k = g.num_faces, g.num_cells, st["k"]
    CF = np.asarray(g.cell_faces.toarray())
    fc = [[(int(c), int(CF[f, c])) for c in np.nonzero(CF[f])[0]] for f in range(nf)]
    wf = _well_formed(fc)
    F = [Fraction(x) for x in st["flux"]]
    V = [Fraction(v) for v in st["V"]]
    dt = Fraction(st["dt"])
    bv = [[Fraction(x) for x in row] for row in st["bv"]]
    c0 = [[Fraction(x) for x in row] for row in st["c"]]
    interior = [sum(1 for _, s in l if s > 0) == 1 and sum(1 for _, s in l if s < 0) == 1 for l in fc]
    has_up = [any(s * F[f] > 0 for _, s in fc[f]) or (F[f] == 0 and any(s > 0 for _, s in fc[f])) for f in range(nf)]  # a cell on the upstream side
    inflow_dir = [is_dir[f] and not has_up[f] for f in range(nf)]
    err = [not is_neu[f] and not inflow_dir[f] and not has_up[f] for f in range(nf)]
    bounds, cons, mp = [], [], []
    divF = [sum(s * F[f] for f in range(nf) for c, s in fc[f] if c == i) for i in range(nc)]
    out = _outflow(fc, F, nc)
    for a in range(k):
        vals = c0[a] + [bv[a][f] for f in range(nf) if fc[f] and inflow_dir[f] and F[f] != 0 and not is_neu[f]]
        m, M = (min(vals), max(vals)) if vals else (F0, F0)
        bounds.append([frac(m), frac(M)])
        cons.append(bool(wf and all(interior[f] or (is_neu[f] and bv[a][f] == 0) for f in range(nf)) and all(v != 0 for v in V)))
        ok = wf and dt >= 0 and all(V[i] > 0 and divF[i] == 0 and dt * out[i] <= V[i] and m <= c0[a][i] <= M for i in range(nc))
        for f in range(nf):
            if not fc[f]:
                continue
            if is_neu[f] and not (F[f] == 0 and bv[a][f] == 0):
                ok = False
            if F[f] != 0 and (err[f] or (inflow_dir[f] and not (m <= bv[a][f] <= M))):
                ok = False
        mp.append(bool(ok))
    return {"wf": bool(wf), "cons": cons, "mp": mp}, bounds


# ----------------------------------------------------------------------------- the property on the real code
def oracle(case):
    """the property after EVERY discretize call of the history; additionally the stored matrices must be those of a fresh
    discretisation (new data dictionary, new Upwind object, new BoundaryCondition) of the inputs current at that call"""
    if case.get("family") == "md":
        return _md_oracle(case)
    if case.get("family") == "darcy":
        return _darcy_oracle(case)
    g, res = _run_history(case)
    for n, (st, r) in enumerate(res):
        if n > 0:
            try:
                _, _, data, up = _discretize(st)
                m = data["discretization_matrices"]["transport"]
                fresh = ("ok", (m[up.upwind_matrix_key], m[up.bound_transport_dir_matrix_key], m[up.bound_transport_neu_matrix_key]))
            except Exception as e:
                fresh = ("err", e)
            prev = res[n - 1][0]
            changed = [key for key in ("bc", "flux", "k") if st[key] != prev[key]] or ["nothing"]
            tag = (f"call {n + 1} of a history on one data dictionary (changed since the previous call: {'+'.join(changed)}; "
                   f"bc object {'modified in place / kept' if st.get('how_bc') in ('inplace', 'keep') else 'replaced'}, flux array {'written in place' if st.get('how_flux') == 'inplace' else 'replaced'})")
            if fresh[0] != r[0]:
                return {"what": f"{tag}: {'raised ' + type(r[1]).__name__ if r[0] == 'err' else 'no error'}, but a fresh discretisation of the same inputs "
                                f"{'raises ' + type(fresh[1]).__name__ if fresh[0] == 'err' else 'succeeds'}", "key": "history-stale-error-state"}
            if r[0] == "ok":
                for name, a, b in zip(("upwind", "bound_transport_dir", "bound_transport_neu"), r[1], fresh[1]):
                    if a.shape != b.shape or _trip(a) != _trip(b):
                        return {"what": f"{tag}: stored {name} matrix differs from a fresh discretisation of the current inputs (stale discretisation)",
                                "key": "history-stale-matrices"}
        if r[0] == "ok" and len(r) > 3:
            ex = r[3]
            pre = f"call {n + 1}: " if n > 0 else ""
            if ex["stored_changed"]:
                return {"what": pre + ex["stored_changed"] + " (the stored upwind matrix must keep selecting the upstream cell with weight 1)", "key": "reader-modifies-stored-discretization"}
            if ex["asm_repeat"]:
                return {"what": pre + ex["asm_repeat"], "key": "assemble-not-repeatable"}
        o = _oracle_stage(g, st, r)
        if o is not None:
            if n > 0:
                o = {"what": f"call {n + 1} of a history: " + o["what"], "key": o["key"]}
            return o
    return None


def _oracle_stage(g, case, r):
    nf, nc, k = g.num_faces, g.num_cells, case["k"]
    CF = np.asarray(g.cell_faces.toarray())
    fc = [[(int(c), int(CF[f, c])) for c in np.nonzero(CF[f])[0]] for f in range(nf)]
    if not _well_formed(fc) or any(len(l) == 0 for l in fc):
        _CLS["oracle_skipped_not_wf"] += 1
        return None  # not a grid: outside the property (the correspondence still covers it)
    F = [Fraction(x) for x in case["flux"]]
    try:
        bc = _make_bc(g, case["bc"])
    except Exception:
        return None
    is_dir, is_neu = _flags(g, case["bc"], bc)
    interior = [len(l) == 2 for l in fc]
    valid_bc = all((not is_dir[f] and not is_neu[f]) if interior[f] else (is_dir[f] != is_neu[f]) for f in range(nf))
    gk = case["grid"]["kind"]
    if r[0] == "err":
        e = r[1]
        if valid_bc:
            return {"what": f"discretize raised {type(e).__name__}: {e} on a grid whose boundary faces are all Dirichlet or Neumann", "key": f"raises-{type(e).__name__}"}
        return None
    mats = r[1]
    Uk, Dk, Nk = (np.asarray(x.toarray()) for x in mats)
    if Uk.shape != (nf * k, nc * k) or Dk.shape != (nf * k, nf * k) or Nk.shape != (nf * k, nf * k):
        return {"what": f"shapes {Uk.shape} {Dk.shape} {Nk.shape} for nf={nf} nc={nc} k={k}", "key": "shape"}
    # Kronecker expansion: entry (f*k+a, c*k+b) = base[f, c] if a == b else 0
    base = []
    for name, Mk in (("upwind", Uk), ("dir", Dk), ("neu", Nk)):
        B = Mk[::k, ::k]
        E = np.zeros_like(Mk)
        for a in range(k):
            E[a::k, a::k] = B
        if not np.array_equal(E, Mk):
            return {"what": f"{name} matrix for {k} components is not the component-wise expansion of its one-component part", "key": f"kron-{name}"}
        base.append(B)
    U, D, Nm = base
    for name, M in (("dir", D), ("neu", Nm)):
        off = M - np.diag(np.diag(M))
        if np.any(off != 0):
            return {"what": f"bound_transport_{name} has off-diagonal entries", "key": f"{name}-offdiag"}
    for f in range(nf):
        nz = [int(c) for c in np.nonzero(U[f])[0]]
        adj = [c for c, _ in fc[f]]
        if any(U[f, c] != 1 for c in nz) or len(nz) > 1 or any(c not in adj for c in nz):
            return {"what": f"face {f} (cells {fc[f]}, flux {F[f]}): upwind row {[(c, float(U[f, c])) for c in nz]} is not a single unit entry at an adjacent cell", "key": "row-not-unit-adjacent"}
        d, n = Fraction(float(D[f, f])), Fraction(float(Nm[f, f]))
        ctx = f"face {f} cells {fc[f]} flux {F[f]} dir={is_dir[f]} neu={is_neu[f]} ({gk} grid)"
        if is_neu[f]:
            if nz:
                return {"what": f"{ctx}: Neumann face selects cell {nz}", "key": "neumann-row-not-empty"}
            if n != sum(s for _, s in fc[f]):
                return {"what": f"{ctx}: bound_transport_neu entry {n}, expected the sign of the divergence {sum(s for _, s in fc[f])}", "key": "neumann-sign"}
        elif n != 0:
            return {"what": f"{ctx}: bound_transport_neu entry {n} on a non-Neumann face", "key": "neu-on-other-face"}
        if interior[f] and not is_neu[f]:
            up_cell = {s: c for c, s in fc[f]}
            if F[f] != 0:
                want = up_cell[1] if F[f] > 0 else up_cell[-1]
                if nz != [want]:
                    return {"what": f"{ctx}: upwind row selects {nz}, the flux leaves cell {want}", "key": "interior-wrong-cell"}
            elif len(nz) != 1:
                return {"what": f"{ctx}: zero-flux interior face selects {nz}", "key": "interior-zero-flux-row"}
            if d != 0:
                return {"what": f"{ctx}: bound_transport_dir entry {d} on an interior face", "key": "dir-on-interior"}
        if not interior[f] and is_dir[f] and not is_neu[f]:
            (a, s), = fc[f]
            if s * F[f] < 0:
                if nz or d != 1:
                    return {"what": f"{ctx}: Dirichlet inflow face has upwind row {nz}, dir entry {d} (expected empty row, 1)", "key": "dir-inflow"}
            elif s * F[f] > 0:
                if nz != [a] or d != 0:
                    return {"what": f"{ctx}: Dirichlet outflow face has upwind row {nz}, dir entry {d} (expected cell {a}, 0)", "key": "dir-outflow"}
            elif not ((nz == [] and d == 1) or (nz == [a] and d == 0)):
                return {"what": f"{ctx}: zero-flux Dirichlet face has upwind row {nz}, dir entry {d}", "key": "dir-zero-flux"}
        if not is_dir[f] and d != 0:
            return {"what": f"{ctx}: bound_transport_dir entry {d} on a non-Dirichlet face", "key": "dir-on-other-face"}
    # explicit steps built from the real matrices
    xs = _steps(g, mats, case)
    if len(r) > 3 and k == 1 and r[3].get("asm_steps") is not None:
        xa = r[3]["asm_steps"]
        if xa[:len(xs)] != xs[:len(xa)]:
            return {"what": f"({gk} grid, nf={nf}, nc={nc}) a transport loop that discretizes once and calls assemble_matrix_rhs in every step (c - dt/V (A c + rhs)) "
                            f"differs from the step composed from the stored matrices, first at step {[a == b for a, b in zip(xa, xs)].index(False) + 1}", "key": "assemble-loop-differs"}
        xs = xa if len(xa) >= len(xs) else xs  # >= 3 steps reusing one discretization: conservation / bounds are checked on these
    V = [Fraction(v) for v in case["V"]]
    dt = Fraction(case["dt"])
    bv = [[Fraction(x) for x in row] for row in case["bv"]]
    c0 = [[Fraction(x) for x in row] for row in case["c"]]
    closed = all((interior[f]) or (is_neu[f] and all(bv[a][f] == 0 for a in range(k))) for f in range(nf))
    anyflux = any(x != 0 for x in F)
    if closed:
        _CLS["conservation_checked"] += anyflux
        for a in range(k):
            tot0 = sum(V[i] * c0[a][i] for i in range(nc))
            for n_, x in enumerate(xs):
                tot = sum(V[i] * x[i * k + a] for i in range(nc))
                if tot != tot0:
                    return {"what": f"no-flow boundary ({gk} grid, nf={nf}, nc={nc}, k={k}): total of component {a} changed from {tot0} to {tot} in step {n_ + 1}", "key": "not-conservative"}
    divF = [sum(s * F[f] for f in range(nf) for c, s in fc[f] if c == i) for i in range(nc)]
    out = _outflow(fc, F, nc)
    flags, bnds = _hyp_flags(g, case, is_dir, is_neu)
    for a in range(k):
        if flags["mp"][a]:
            _CLS["max_principle_noflow_checked" if all(F[f] == 0 for f in range(nf) if not interior[f]) else "max_principle_inflow_checked"] += anyflux
            lo, hi = Fraction(bnds[a][0]), Fraction(bnds[a][1])
            for n_, x in enumerate(xs):
                for i in range(nc):
                    if not (lo <= x[i * k + a] <= hi):
                        noflow = all(F[f] == 0 for f in range(nf) if not interior[f])
                        return {"what": f"divergence-free flux under the CFL limit ({gk} grid, nf={nf}, nc={nc}, k={k}, no-flow={noflow}): cell {i} component {a} = {x[i * k + a]} after step {n_ + 1} leaves [{lo}, {hi}]",
                                "key": "maximum-principle" + ("-noflow" if noflow else "-inflow")}
    return None


def nontrivial(case):
    if case.get("family") == "darcy":
        return any(Fraction(x) != 0 for x in case["beta"]) and case["grid"]["kind"] != "point"
    if case.get("family") == "md":
        return any(Fraction(x) != 0 for l_ in case["lam"] for x in l_)
    g = build_grid(case["grid"])
    return g.num_cells >= 2 and any(Fraction(x) != 0 for x in case["flux"])


def shrink_candidates(case):
    if case.get("family") == "darcy":
        if case["ap"] is not None:
            yield dict(case, ap=None)
        return
    if case.get("family") == "md":
        if case["nsteps"] > 1:
            yield dict(case, nsteps=1)
        for i, l_ in enumerate(case["lam"]):
            for j, x in enumerate(l_):
                if Fraction(x) not in (0, 1, -1):
                    yield dict(case, lam=case["lam"][:i] + [l_[:j] + ["1" if Fraction(x) > 0 else "-1"] + l_[j + 1:]] + case["lam"][i + 1:])
        return
    st = case.get("stages", [])
    for i in range(len(st)):
        yield dict(case, stages=st[:i] + st[i + 1:]) if len(st) > 1 else {key: v for key, v in case.items() if key != "stages"}
    if case["nsteps"] > 1:
        yield dict(case, nsteps=case["nsteps"] - 1)
    if case["k"] > 1:
        yield dict(case, k=1, bv=case["bv"][:1], c=case["c"][:1])
    for j, x in enumerate(case["flux"]):
        if Fraction(x) != 0:
            yield dict(case, flux=case["flux"][:j] + ["0"] + case["flux"][j + 1:])


def stats(cases, impl_outs):
    from collections import Counter

    md = [c for c in cases if c.get("family") == "md"]
    dar = [c for c in cases if c.get("family") == "darcy"]
    darcy_stats = {"cases": len(dar), "point_grids": sum(1 for c in dar if c["grid"]["kind"] == "point"), "with_apertures": sum(1 for c in dar if c["ap"] is not None),
                   "zero_velocity": sum(1 for c in dar if all(Fraction(x) == 0 for x in c["beta"]))}
    pairs = [(c, o) for c, o in zip(cases, impl_outs) if c.get("family") not in ("md", "darcy")]
    cases, impl_outs = [c for c, _ in pairs], [o for _, o in pairs]
    md_stats = {"cases": len(md), "closed": sum(1 for c in md if c["scenario"] == "md-closed"), "interfaces": sum(len(c["lam"]) for c in md),
                "mortar_cells": sum(len(l_) for c in md for l_ in c["lam"]),
                "mortar_flux_signs": dict(Counter("+" if Fraction(x) > 0 else "-" if Fraction(x) < 0 else "0" for c in md for l_ in c["lam"] for x in l_)),
                "grids": dict(Counter(json.dumps(c["grid"]["dims"]) + "/" + str(len(c["grid"]["fracs"])) for c in md)), "swapped_dimension_calls": sum(1 for c in md if c.get("swap"))}

    kinds = Counter(c["grid"]["kind"] + (str(len(c["grid"]["dims"])) if "dims" in c["grid"] else "") for c in cases)
    scen = Counter(c["scenario"] for c in cases)
    bcm = Counter("default" if c["bc"] is None else c["bc"]["mode"] for c in cases)
    errs = sum(1 for outs in impl_outs if isinstance(outs, list) for o in outs if "err" in o)
    zero = sum(1 for c in cases for x in c["flux"] if Fraction(x) == 0)
    tot = sum(len(c["flux"]) for c in cases)
    return {"grid_kinds": dict(kinds), "scenarios": dict(scen), "bc_modes": dict(bcm), "components": dict(Counter(str(c["k"]) for c in cases)),
            "discretize_errors": errs, "faces_total": tot, "faces_zero_flux": zero,
            "robin_cases": sum(1 for c in cases if c["bc"] and c["bc"]["mode"] == "ctor" and "rob" in c["bc"]["cond"]),
            "max_faces": max((len(c["flux"]) for c in cases), default=0), "steps_total": sum(c["nsteps"] for c in cases),
            "oracle_hypothesis_classes_with_nonzero_flux": dict(_CLS),
            "histories": sum(1 for c in cases if c.get("stages")), "discretize_calls": sum(1 + len(c.get("stages", [])) for c in cases),
            "history_changes": dict(Counter(w for c in cases for st in c.get("stages", []) for w in st["what"])),
            "history_bc_how": dict(Counter(st["how_bc"] for c in cases for st in c.get("stages", []))),
            "mixed_dimensional": md_stats, "darcy_flux_and_point_grids": darcy_stats,
            "strata": dict(Counter(t for c in cases for t in c.get("strata", [])))}


# ============================================================================= mixed-dimensional family
# One case = a small fractured md-grid (pp.meshing.cart_grid), a flux on every subdomain, a mortar flux on every
# interface, boundary conditions on the outer boundary, cell data.  Real code: Upwind.discretize per subdomain,
# UpwindCoupling.discretize + assemble_matrix_rhs per interface, explicit md step composed from the REAL matrices.
# Model: everything flattened to global face / cell indices (subdomain s owns the index ranges [foff_s, foff_s + nf_s),
# [coff_s, coff_s + nc_s)); every mortar cell is matched with its primary face and secondary cell as given by the real
# 0/1 mortar projections.
_MDGS = {}

MD_SPECS = [
    {"dims": [2, 2], "fracs": [[[0, 2], [1, 1]]]},
    {"dims": [3, 2], "fracs": [[[1, 2], [1, 1]]]},
    {"dims": [3, 2], "fracs": [[[1, 3], [1, 1]]]},
    {"dims": [2, 3], "fracs": [[[1, 1], [0, 2]]]},
    {"dims": [3, 3], "fracs": [[[1, 2], [1, 1]], [[2, 2], [1, 3]]]},
    {"dims": [4, 2], "fracs": [[[1, 3], [1, 1]], [[2, 2], [0, 2]]]},          # crossing: 0-d intersection
    {"dims": [2, 2], "fracs": [[[0, 2], [1, 1]], [[1, 1], [0, 2]]]},          # crossing, both through
    {"dims": [3, 3], "fracs": [[[0, 2], [1, 1]], [[1, 3], [2, 2]]]},
    {"dims": [2, 2, 2], "fracs": [[[0, 2, 2, 0], [0, 0, 2, 2], [1, 1, 1, 1]]]},
    {"dims": [2, 1, 2], "fracs": [[[1, 1, 1, 1], [0, 1, 1, 0], [0, 0, 2, 2]]]},
    {"dims": [2, 2, 2], "fracs": [[[0, 1, 1, 0], [0, 0, 2, 2], [1, 1, 1, 1]], [[1, 1, 1, 1], [0, 2, 2, 0], [0, 0, 2, 2]]]},
]


def build_mdg(spec):
    """-> (mdg, subdomains, interfaces, info) with global offsets and the mortar matching read from the real projections"""
    import porepy as pp

    key = json.dumps(spec, sort_keys=True)
    if key in _MDGS:
        return _MDGS[key]
    with warnings.catch_warnings():
        warnings.simplefilter("ignore")
        mdg = pp.meshing.cart_grid([np.array(f, dtype=float) for f in spec["fracs"]], np.array(spec["dims"]))
    sds = list(mdg.subdomains())
    foff, coff = [0], [0]
    for sd in sds:
        foff.append(foff[-1] + sd.num_faces)
        coff.append(coff[-1] + sd.num_cells)
    intfs = []
    for intf in mdg.interfaces():
        h, l = mdg.interface_to_subdomain_pair(intf)
        ih, il = sds.index(h), sds.index(l)
        Pp = sps.coo_matrix(intf.mortar_to_primary_int())
        Ps = sps.coo_matrix(intf.mortar_to_secondary_int())
        pf = {int(m): int(f) for f, m, v in zip(Pp.row, Pp.col, Pp.data) if v != 0}
        sc = {int(m): int(c) for c, m, v in zip(Ps.row, Ps.col, Ps.data) if v != 0}
        nm = int(intf.num_cells)
        ok = (Pp.nnz == nm and Ps.nnz == nm and len(pf) == nm and len(sc) == nm and np.all(Pp.data == 1) and np.all(Ps.data == 1)
              and (sps.coo_matrix(intf.primary_to_mortar_avg()) != Pp.T).nnz == 0 and (sps.coo_matrix(intf.secondary_to_mortar_avg()) != Ps.T).nnz == 0)
        if not ok:
            raise RuntimeError("mortar projections are not one-to-one 0/1 maps on a matching grid")
        intfs.append({"intf": intf, "h": ih, "l": il, "pf": [pf[m] for m in range(nm)], "sc": [sc[m] for m in range(nm)]})
    res = (mdg, sds, intfs, {"foff": foff, "coff": coff})
    if len(_MDGS) > 40:
        _MDGS.clear()
    _MDGS[key] = res
    return res


def _gen_md(rng, tier):
    spec = rng.choice(MD_SPECS)
    mdg, sds, intfs, info = build_mdg(spec)
    closed = rng.random() < 0.6
    sub = []
    for sd in sds:
        nf, nc = sd.num_faces, sd.num_cells
        dom = [int(f) for f in np.nonzero(sd.tags["domain_boundary_faces"])[0]] if sd.dim > 0 else []
        conds = ["neu"] * len(dom) if closed else [rng.choice(["dir", "neu"]) for _ in dom]
        scale = rng.choice([1, 1, 2])
        flux = [Fraction(0) if rng.random() < 0.2 else Fraction(rng.randint(-3, 3), scale) for _ in range(nf)]
        bv = [F0] * nf
        if not closed:
            for f in dom:
                bv[f] = _dy(rng, -4, 4)
        sub.append({"flux": [frac(x) for x in flux], "faces": dom, "cond": conds, "bv": [frac(x) for x in bv],
                    "c": [frac(_dy(rng, -8, 8)) for _ in range(nc)], "V": [frac(_dy(rng, 1, 6, (1, 2, 4))) for _ in range(nc)]})
    lam = []
    for it in intfs:
        nm = len(it["pf"])
        r = rng.random()
        l_ = [Fraction(0) if rng.random() < 0.2 else Fraction(rng.randint(-3, 3), rng.choice([1, 2])) for _ in range(nm)]
        if r < 0.15:
            l_ = [abs(x) for x in l_]
        elif r < 0.3:
            l_ = [-abs(x) for x in l_]
        lam.append([frac(x) for x in l_])
    return {"family": "md", "scenario": "md-closed" if closed else "md-open", "grid": spec, "sub": sub, "lam": lam,
            "dt": frac(rng.choice([Fraction(1, 8), Fraction(1, 4), Fraction(1, 2), Fraction(1)])), "nsteps": rng.randint(1, 3),
            "swap": rng.random() < 0.15}


def _md_run(case):
    """the real code on an md case -> dict with real matrices (scipy), blocks, bcs"""
    import porepy as pp

    mdg, sds, intfs, info = build_mdg(case["grid"])
    kw = "transport"
    out = {"sub": [], "intf": []}
    for sd, sp in zip(sds, case["sub"]):
        with warnings.catch_warnings():
            warnings.simplefilter("ignore")
            bc = pp.BoundaryCondition(sd, np.array(sp["faces"], dtype=int), list(sp["cond"])) if sp["faces"] else pp.BoundaryCondition(sd)
        params = {"darcy_flux": np.array([float(Fraction(x)) for x in sp["flux"]]), "bc": bc,
                  "bc_values": np.array([float(Fraction(x)) for x in sp["bv"]])}
        data = {pp.PARAMETERS: {kw: params}, pp.DISCRETIZATION_MATRICES: {kw: {}}}
        up = pp.Upwind(kw)
        up.discretize(sd, data)
        m = data[pp.DISCRETIZATION_MATRICES][kw]
        keys = (up.upwind_matrix_key, up.bound_transport_dir_matrix_key, up.bound_transport_neu_matrix_key)
        snap = [m[key].copy() for key in keys]
        reader = None
        if sd.dim > 0:
            a1 = up.assemble_matrix_rhs(sd, data)
            a2 = up.assemble_matrix_rhs(sd, data)
            if _trip(a1[0]) != _trip(a2[0]) or not np.array_equal(a1[1], a2[1]):
                reader = "a second Upwind.assemble_matrix_rhs on unchanged data returned a different (A, rhs)"
            if not all(_same_sparse(m[key], sn) for key, sn in zip(keys, snap)):
                reader = "Upwind.assemble_matrix_rhs changed the stored discretization matrices"
        out["sub"].append({"bc": bc, "mats": tuple(m[key] for key in keys), "reader": reader})
    for it, lam in zip(intfs, case["lam"]):
        intf, h, l = it["intf"], sds[it["h"]], sds[it["l"]]
        d = {pp.PARAMETERS: {kw: {"darcy_flux": np.array([float(Fraction(x)) for x in lam])}}, pp.DISCRETIZATION_MATRICES: {kw: {}}}
        uc = pp.UpwindCoupling(kw)
        rec = {}
        if case.get("swap"):
            try:
                uc.discretize(l, h, intf, {}, {}, d)
                rec["swap"] = "ok"
            except Exception as e:
                rec["swap"] = type(e).__name__
            d[pp.DISCRETIZATION_MATRICES][kw].clear()
        uc.discretize(h, l, intf, {}, {}, d)
        rec["disc"] = dict(d[pp.DISCRETIZATION_MATRICES][kw])
        snap = {key: sps.csr_matrix(v).copy() for key, v in rec["disc"].items()}
        sizes = (h.num_cells, l.num_cells, intf.num_cells)
        matrix = np.array([[sps.coo_matrix((a, b)) for b in sizes] for a in sizes], dtype=object)
        M, rhs = uc.assemble_matrix_rhs(h, l, intf, {}, {}, d, matrix)
        # the coupling assembly is a reader of the stored discretization: a second call gives the same blocks and leaves it untouched
        matrix2 = np.array([[sps.coo_matrix((a, b)) for b in sizes] for a in sizes], dtype=object)
        M2, _ = uc.assemble_matrix_rhs(h, l, intf, {}, {}, d, matrix2)
        rec["reader"] = None
        if any(_trip(M[i, j]) != _trip(M2[i, j]) for i in range(3) for j in range(3)):
            rec["reader"] = "a second UpwindCoupling.assemble_matrix_rhs on unchanged data returned different blocks"
        for key, v in d[pp.DISCRETIZATION_MATRICES][kw].items():
            if not _same_sparse(v, snap[key]):
                rec["reader"] = f"UpwindCoupling.assemble_matrix_rhs changed the stored '{key}' matrix"
        rec["cc"] = M
        rec["rhs_zero"] = all(not np.any(np.asarray(r)) for r in rhs)
        out["intf"].append(rec)
    return mdg, sds, intfs, info, out


def _gtrip(M, roff, coff):
    return [[r + roff, c + coff, v] for r, c, v in _trip(M)]


def _md_steps(case, sds, intfs, info, real):
    """explicit md steps from the REAL matrices, exact rationals, global vector"""
    coff = info["coff"]
    x = [Fraction(v) for sp in case["sub"] for v in sp["c"]]
    V = [Fraction(v) for sp in case["sub"] for v in sp["V"]]
    dt = Fraction(case["dt"])
    pre = []
    for sd, sp, r in zip(sds, case["sub"], real["sub"]):
        U, D, Nm = (_rows(m) for m in r["mats"])
        F = [Fraction(v) for v in sp["flux"]]
        bv = [Fraction(v) for v in sp["bv"]]
        bterm = [a + b for a, b in zip(_matvec(D, [p * q for p, q in zip(F, bv)]), _matvec(Nm, bv))] if sd.num_faces else []
        pre.append((U, F, bterm, _rows(sd.divergence(dim=1))))
    blocks = [tuple(_rows(rec["cc"][i, j]) for i, j in ((0, 2), (1, 2), (2, 0), (2, 1))) for rec in real["intf"]]
    out = []
    for _ in range(case["nsteps"]):
        dv = [F0] * len(x)
        for s, (U, F, bterm, div) in enumerate(pre):
            xs = x[coff[s]:coff[s + 1]]
            uc = _matvec(U, xs)
            g = [F[j] * uc[j] + bterm[j] for j in range(len(F))]
            for i, v in enumerate(_matvec(div, g)):
                dv[coff[s] + i] += v
        for it, (b02, b12, b20, b21) in zip(intfs, blocks):
            xh, xl = x[coff[it["h"]]:coff[it["h"] + 1]], x[coff[it["l"]]:coff[it["l"] + 1]]
            eta = [a + b for a, b in zip(_matvec(b20, xh), _matvec(b21, xl))]  # row 2: cc20 xh + cc21 xl - eta = 0
            for i, v in enumerate(_matvec(b02, eta)):
                dv[coff[it["h"]] + i] += v
            for i, v in enumerate(_matvec(b12, eta)):
                dv[coff[it["l"]] + i] += v
        x = [x[i] - dt / V[i] * dv[i] for i in range(len(x))]
        out.append(x)
    return out


def _md_impl(case):
    try:
        mdg, sds, intfs, info, real = _md_run(case)
    except Exception as e:
        return err_kind(e)
    foff, coff = info["foff"], info["coff"]
    out = {"upwind": [], "dir": [], "neu": [], "interfaces": []}
    for s, r in enumerate(real["sub"]):
        out["upwind"] += _gtrip(r["mats"][0], foff[s], coff[s])
        out["dir"] += _gtrip(r["mats"][1], foff[s], foff[s])
        out["neu"] += _gtrip(r["mats"][2], foff[s], foff[s])
    for key in ("upwind", "dir", "neu"):
        out[key].sort()
    for it, rec in zip(intfs, real["intf"]):
        h, l = it["h"], it["l"]
        dm = rec["disc"]
        cc = rec["cc"]
        o = {"upwind_primary": [frac(v) for v in sps.csr_matrix(dm["upwind_primary"]).diagonal()],
             "upwind_secondary": [frac(v) for v in sps.csr_matrix(dm["upwind_secondary"]).diagonal()],
             "flux": [frac(v) for v in sps.csr_matrix(dm["flux"]).diagonal()],
             "trace": _gtrip(dm["trace"], foff[h], coff[h]),
             "cc02": _gtrip(cc[0, 2], coff[h], 0), "cc12": _gtrip(cc[1, 2], coff[l], 0),
             "cc20": _gtrip(cc[2, 0], 0, coff[h]), "cc21": _gtrip(cc[2, 1], 0, coff[l])}
        if "swap" in rec:
            o["swap"] = rec["swap"]
        out["interfaces"].append(o)
    cons = True
    for sd, sp, r in zip(sds, case["sub"], real["sub"]):
        if sd.num_faces:
            CF = np.asarray(sd.cell_faces.toarray())
            for f in range(sd.num_faces):
                sg = [int(v) for v in CF[f][np.nonzero(CF[f])[0]]]
                interior = sorted(sg) == [-1, 1]
                if not (interior or (bool(r["bc"].is_neu[f]) and Fraction(sp["bv"][f]) == 0)) or any(v not in (1, -1) for v in sg):
                    cons = False
        if any(Fraction(v) == 0 for v in sp["V"]):
            cons = False
    mdh = all(np.count_nonzero(np.asarray(sds[it["h"]].cell_faces.tocsr()[f].toarray())) == 1 for it in intfs for f in it["pf"]) and \
        all(0 <= c < sds[it["l"]].num_cells for it in intfs for c in it["sc"])
    out["hyp"] = {"cons": bool(cons), "md": bool(mdh)}
    out["steps"] = [[frac(v) for v in x] for x in _md_steps(case, sds, intfs, info, real)]
    return out


def _md_ops(case):
    mdg, sds, intfs, info = build_mdg(case["grid"])
    foff, coff = info["foff"], info["coff"]
    inc, flux, is_dir, is_neu, bv, c, V = [], [], [], [], [], [], []
    import porepy as pp
    for s, (sd, sp) in enumerate(zip(sds, case["sub"])):
        inc += [[f + foff[s], cc + coff[s], sg] for f, cc, sg in incidences(sd)] if sd.num_faces else []
        flux += sp["flux"]
        with warnings.catch_warnings():
            warnings.simplefilter("ignore")
            bc = pp.BoundaryCondition(sd, np.array(sp["faces"], dtype=int), list(sp["cond"])) if sp["faces"] else pp.BoundaryCondition(sd)
        is_dir += [bool(v) for v in bc.is_dir]
        is_neu += [bool(v) for v in bc.is_neu]
        bv += sp["bv"]
        c += sp["c"]
        V += sp["V"]
    gi, pf, sc, lam = [], [], [], []
    for it, l_ in zip(intfs, case["lam"]):
        h, l = it["h"], it["l"]
        one = {"pf": [f + foff[h] for f in it["pf"]], "sc": [cc + coff[l] for cc in it["sc"]], "lam": l_,
               "dim_h": int(sds[h].dim), "dim_l": int(sds[l].dim), "face_lo": foff[h], "face_hi": foff[h + 1]}
        gi.append(one)
        pf += one["pf"]
        sc += one["sc"]
        lam += l_
    ops = [{"op": "md", "nf": foff[-1], "nc": coff[-1], "inc": inc, "flux": flux, "is_dir": is_dir, "is_neu": is_neu, "bv": bv, "c": c, "V": V,
            "dt": case["dt"], "nsteps": case["nsteps"], "interfaces": gi, "pf": pf, "sc": sc, "lam": lam}]
    if case.get("swap"):
        ops.append({"op": "md", "nf": 0, "nc": 0, "inc": [], "flux": [], "is_dir": [], "is_neu": [], "bv": [], "c": [], "V": [], "dt": "0", "nsteps": 0,
                    "pf": [], "sc": [], "lam": [],
                    "interfaces": [{"pf": [], "sc": [], "lam": [], "dim_h": g["dim_l"], "dim_l": g["dim_h"], "face_lo": 0, "face_hi": 0} for g in gi]})
    return ops


def _md_decode(outs, case):
    o = outs[0]
    if "err" in o:
        return o
    o = dict(o)
    for key in ("upwind", "dir", "neu"):
        o[key] = _agg(o[key])
    its = []
    for n, it in enumerate(o["interfaces"]):
        it = dict(it)
        for key in ("trace", "cc02", "cc12", "cc20", "cc21"):
            it[key] = _agg(it[key])
        if case.get("swap"):
            sw = outs[1]["interfaces"][n]
            it["swap"] = sw["err"] if "err" in sw else "ok"
        its.append(it)
    o["interfaces"] = its
    return o


def _md_oracle(case):
    try:
        mdg, sds, intfs, info, real = _md_run(case)
    except Exception as e:
        return {"what": f"md case raised {type(e).__name__}: {e}", "key": f"md-raises-{type(e).__name__}"}
    coff = info["coff"]
    for s, r in enumerate(real["sub"]):
        if r["reader"]:
            return {"what": f"subdomain {s} of the md-grid: " + r["reader"], "key": "reader-modifies-stored-discretization"}
    for n, rec in enumerate(real["intf"]):
        if rec["reader"]:
            return {"what": f"interface {n}: " + rec["reader"], "key": "coupling-reader-modifies-stored-discretization"}
    # the single-grid property on every subdomain of the md-grid
    for s, (sd, sp, r) in enumerate(zip(sds, case["sub"], real["sub"])):
        if sd.dim == 0:
            continue
        view = {"grid": {"kind": f"md-subdomain dim {sd.dim}"}, "flux": sp["flux"], "bc": {"mode": "ctor", "faces": sp["faces"], "cond": sp["cond"]}, "k": 1,
                "bv": [sp["bv"]], "c": [sp["c"]], "V": sp["V"], "dt": case["dt"], "nsteps": 0}
        o = _oracle_stage(sd, view, ("ok", r["mats"]))
        if o is not None:
            return {"what": f"subdomain {s} of the md-grid: " + o["what"], "key": "md-" + o["key"]}
    for n, (it, lam, rec) in enumerate(zip(intfs, case["lam"], real["intf"])):
        h, l = sds[it["h"]], sds[it["l"]]
        lam = [Fraction(x) for x in lam]
        nm = len(lam)
        CFh = np.asarray(h.cell_faces.toarray())
        dm = rec["disc"]
        UP, US, FL = (np.asarray(sps.csr_matrix(dm[key]).toarray()) for key in ("upwind_primary", "upwind_secondary", "flux"))
        cc = rec["cc"]
        B = {(i, j): np.asarray(sps.csr_matrix(cc[i, j]).toarray()) for i in range(3) for j in range(3)}
        for (i, j) in ((0, 0), (0, 1), (1, 0), (1, 1)):
            if np.any(B[i, j] != 0):
                return {"what": f"interface {n}: block ({i},{j}) of the coupling matrix is not empty", "key": "coupling-diagonal-block"}
        if not np.array_equal(B[2, 2], -np.eye(nm)) or not rec["rhs_zero"]:
            return {"what": f"interface {n}: block (2,2) is not -identity or the right-hand side is not zero", "key": "coupling-mortar-block"}
        for M_, nme in ((UP, "upwind_primary"), (US, "upwind_secondary"), (FL, "flux")):
            if np.any(M_ - np.diag(np.diag(M_)) != 0):
                return {"what": f"interface {n}: {nme} is not diagonal", "key": "coupling-offdiag"}
        for m in range(nm):
            f = it["pf"][m]
            cells = [int(c) for c in np.nonzero(CFh[f])[0]]
            ctx = f"interface {n} (dims {h.dim}-{l.dim}) mortar cell {m}: flux {lam[m]}, primary face {f} with cells {cells}, secondary cell {it['sc'][m]}"
            if len(cells) != 1:
                return {"what": f"{ctx}: the matched primary face does not have exactly one cell", "key": "coupling-face-cells"}
            pc, sc = cells[0], it["sc"][m]
            want = (1, 0) if lam[m] > 0 else (0, 1)
            if (UP[m, m], US[m, m]) != want:
                return {"what": f"{ctx}: upwind_primary/upwind_secondary = {(float(UP[m, m]), float(US[m, m]))}, expected {want}", "key": "coupling-wrong-side"}
            if FL[m, m] != (lam[m] > 0) - (lam[m] < 0):
                return {"what": f"{ctx}: flux sign entry {FL[m, m]}", "key": "coupling-flux-sign"}
            # row 2: eta = lam * (primary cell value if lam > 0 else secondary cell value)
            r20 = {int(c): Fraction(float(B[2, 0][m, c])) for c in np.nonzero(B[2, 0][m])[0]}
            r21 = {int(c): Fraction(float(B[2, 1][m, c])) for c in np.nonzero(B[2, 1][m])[0]}
            w20 = {pc: lam[m]} if lam[m] > 0 else {}
            w21 = {sc: lam[m]} if lam[m] < 0 else {}
            if r20 != w20 or r21 != w21:
                return {"what": f"{ctx}: mortar row takes {r20} from the primary cells and {r21} from the secondary cells, expected {w20} / {w21}", "key": "coupling-row"}
            # what leaves the primary cell enters the secondary cell
            c02 = {int(c): Fraction(float(B[0, 2][c, m])) for c in np.nonzero(B[0, 2][:, m])[0]}
            c12 = {int(c): Fraction(float(B[1, 2][c, m])) for c in np.nonzero(B[1, 2][:, m])[0]}
            if c02 != {pc: Fraction(1)} or c12 != {sc: Fraction(-1)}:
                return {"what": f"{ctx}: the mortar flux leaves primary cells {c02} and enters secondary cells {c12} (expected +1 at cell {pc}, -1 at cell {sc})", "key": "coupling-not-conservative"}
    xs = _md_steps(case, sds, intfs, info, real)
    if case["scenario"] == "md-closed":
        _CLS["md_conservation_checked"] = _CLS.get("md_conservation_checked", 0) + 1
        x0 = [Fraction(v) for sp in case["sub"] for v in sp["c"]]
        V = [Fraction(v) for sp in case["sub"] for v in sp["V"]]
        tot0 = sum(a * b for a, b in zip(V, x0))
        for n_, x in enumerate(xs):
            tot = sum(a * b for a, b in zip(V, x))
            if tot != tot0:
                return {"what": f"md-grid {case['grid']} with no-flow outer boundary: total amount over all subdomains changed from {tot0} to {tot} in step {n_ + 1}", "key": "md-not-conservative"}
    return None

# ============================================================================= Upwind.darcy_flux / 0-d shortcut family
def _gen_darcy(rng, tier):
    r = rng.random()
    if r < 0.2:
        spec = {"kind": "point"}
    elif r < 0.3:
        spec = {"kind": "cart", "dims": [rng.choice([1, 2, 5])]}
    elif r < 0.6:
        spec = {"kind": "cart", "dims": [rng.randint(1, 3), rng.randint(1, 3)]}
    elif r < 0.75:
        spec = {"kind": "cart", "dims": [rng.randint(1, 2), rng.randint(1, 2), rng.randint(1, 2)]}
    elif r < 0.9:
        spec = {"kind": "tri", "dims": [rng.randint(1, 2), rng.randint(1, 2)]}
    else:
        spec = {"kind": "frac", "dims": [3, 2], "frac": [[1, 2], [1, 1]]}
    g = _darcy_grid(spec)
    beta = [frac(_dy(rng, -4, 4)) for _ in range(3)]
    if rng.random() < 0.15:
        beta = ["0", "0", "0"]
    ap = None if rng.random() < 0.5 else [frac(_dy(rng, 1, 8, (1, 2, 4))) for _ in range(g.num_cells)]
    if ap is not None and rng.random() < 0.3:
        ap = [ap[0]] * g.num_cells  # constant aperture: divergence-free again
    return {"family": "darcy", "scenario": "darcy", "grid": spec, "beta": beta, "ap": ap}


def _darcy_grid(spec):
    import porepy as pp
    key = "geo" + json.dumps(spec, sort_keys=True)
    if key not in _GRIDS:
        if spec["kind"] == "point":
            g = pp.PointGrid(np.zeros(3))
        else:
            g = build_grid(spec)
        g.compute_geometry()
        _GRIDS[key] = g
    return _GRIDS[key]


def _darcy_impl(case):
    import porepy as pp
    g = _darcy_grid(case["grid"])
    beta = np.array([float(Fraction(x)) for x in case["beta"]])
    ap = None if case["ap"] is None else np.array([float(Fraction(x)) for x in case["ap"]])
    try:
        fl = pp.Upwind().darcy_flux(g, beta, ap) if not (g.dim == 0 and ap is not None) else pp.Upwind().darcy_flux(g, beta)
    except Exception as e:
        return err_kind(e)
    return {"flux": [frac(v) for v in np.asarray(fl).ravel()]}


def _darcy_ops(case):
    g = _darcy_grid(case["grid"])
    nf = int(g.num_faces)
    normals = [[frac(v) for v in g.face_normals[d]] for d in range(3)] if nf else [[], [], []]
    ap = case["ap"] if g.dim > 0 else None
    return [{"op": "darcy_flux", "nf": nf, "inc": incidences(g) if nf else [], "normals": normals, "beta": case["beta"], "ap": ap}]


def _darcy_oracle(case):
    """darcy_flux = normal . (mean aperture * beta); divergence-free for a constant velocity and constant aperture;
    0-d grids: the shortcut branch of discretize (empty matrices of the coded shapes)"""
    import porepy as pp
    g = _darcy_grid(case["grid"])
    out = _darcy_impl(case)
    if "err" in out:
        return {"what": f"darcy_flux raised {out['err']}", "key": "darcy-raises"}
    fl = [Fraction(x) for x in out["flux"]]
    if len(fl) != g.num_faces:
        return {"what": f"darcy_flux returned {len(fl)} values for {g.num_faces} faces", "key": "darcy-size"}
    if g.dim == 0:
        data = {pp.PARAMETERS: {"transport": {"darcy_flux": np.zeros(0)}}, pp.DISCRETIZATION_MATRICES: {"transport": {}}}
        up = pp.Upwind()
        up.discretize(g, data)
        m = data[pp.DISCRETIZATION_MATRICES]["transport"]
        sh = [tuple(m[key].shape) for key in (up.upwind_matrix_key, up.bound_transport_dir_matrix_key, up.bound_transport_neu_matrix_key)]
        if sh != [(0, 1), (0, 0), (0, 0)] or any(m[key].nnz for key in m):
            return {"what": f"0-d grid: matrices of shapes {sh}", "key": "point-grid-shapes"}
        return None
    CF = np.asarray(g.cell_faces.toarray())
    beta = [Fraction(x) for x in case["beta"]]
    ap = None if case["ap"] is None else [Fraction(x) for x in case["ap"]]
    tol = Fraction(1, 10 ** 9)
    for f in range(g.num_faces):
        cells = list(np.nonzero(CF[f])[0])
        a = Fraction(1) if ap is None else sum(ap[c] for c in cells) / len(cells)
        want = sum(Fraction(float(g.face_normals[d, f])) * a * beta[d] for d in range(3))
        if abs(fl[f] - want) > tol * max(1, abs(want)):
            return {"what": f"darcy_flux on face {f} (cells {cells}) = {fl[f]}, expected normal.(aperture*beta) = {want}", "key": "darcy-value"}
    if ap is None or len(set(ap)) == 1:
        for i in range(g.num_cells):
            d = sum(int(CF[f, i]) * fl[f] for f in range(g.num_faces))
            if abs(d) > tol:
                return {"what": f"darcy_flux of a constant velocity with constant aperture is not divergence-free in cell {i}: {d}", "key": "darcy-not-divfree"}
    return None
