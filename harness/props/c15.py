"""C15 Biot coupling terms are consistent: displacement_divergence (+ boundary_displacement_divergence) applied to a
linear displacement field gives alpha : grad(u) times the cell volume exactly; scalar_gradient applied to a constant
pressure gives minus that pressure times each face's area-weighted normal, scaled by the coupling coefficient.

Oracle: the property itself on the real matrices of `pp.Biot.discretize`, using porepy's own geometry.
Correspondence: the Lean model (lean/PorepyVerif/C15/Model.lean) evaluates, exactly over Q and on geometry that the
harness computes itself in exact rational arithmetic from the node coordinates, the closed-cell identities, the surface
sum, V (alpha : A), the coded sub-cell sum, the coded face force and the pressure-jump right-hand side; these are compared
with the action of the real matrices and of `Biot._create_rhs_scalar_gradient`.
"""
import os
import sys

if "numpy" not in sys.modules and "numba" not in sys.modules:  # shared machine: keep BLAS / numba thread pools small
    os.environ.setdefault("OMP_NUM_THREADS", "1")
    os.environ.setdefault("OPENBLAS_NUM_THREADS", "1")
    os.environ.setdefault("MKL_NUM_THREADS", "1")
    os.environ.setdefault("NUMBA_NUM_THREADS", "2")

import json
import random
import warnings
from fractions import Fraction

import numpy as np

from harness.common import frac, deep_compare

PID = "C15"
THEOREMS = [
    "PorepyVerif.C15.closedCellB_iff",
    "PorepyVerif.C15.div_u_exact",
    "PorepyVerif.C15.div_u_exact_alpha",
    "PorepyVerif.C15.div_u_exact_tensor",
    "PorepyVerif.C15.div_u_subcell_exact",
    "PorepyVerif.C15.div_u_subcell_exact_alpha",
    "PorepyVerif.C15.div_u_scheme_exact",
    "PorepyVerif.C15.scalar_gradient_const",
    "PorepyVerif.C15.scalar_gradient_const_iso",
    "PorepyVerif.C15.scalar_gradient_closed_sum_zero",
    "PorepyVerif.C15.pressure_jump_zero",
    "PorepyVerif.C15.applyRows_zero",
    "PorepyVerif.C15.Biot2.biot2d_div_u_exact",
    "PorepyVerif.C15.Biot2.biot2d_div_u_exact_alpha",
    "PorepyVerif.C15.Biot2.biot2d_grad_p_const",
    "PorepyVerif.C15.Biot2.biot2d_grad_p_const_iso",
    "PorepyVerif.C15.Biot2.biot2d_stab_const",
]
LEAN_DIRS = ["C13", "C11"]  # the assembled 2-D statements are proved on top of C13's certified MPSA model
LEAN_MODULES = ["PorepyVerif.C15.Props"]
AUDIT = "PorepyVerif/C15/Audit.lean"
DRIVER = "PorepyVerif/C15/Driver.lean"
N = {"quick": 24, "thorough": 500}
TOL = 1e-8
COND_MAX = 1e6  # interaction regions with a (numerically) singular local system: the discretisation is not defined, no claim
RULE = ("grids: 2-D Cartesian (nodes perturbed by 0 / 1/8 / 1/4 of the mesh size, boundary nodes too), structured and Delaunay triangles, "
        "mixed grids of quadrilaterals and triangles (cells with different node counts); "
        "3-D Cartesian (plain anisotropic, sheared by a dyadic affine map, or node-perturbed so that faces become non-planar) and structured "
        "tetrahedra with perturbed nodes, extruded triangle grids (prisms: faces with 3 and with 4 nodes); 1..4 cells per direction incl. single cells and single rows; all node coordinates dyadic. "
        "All mechanical boundary faces Dirichlet, data from u = A x + b (A general / symmetric / skew / trace-free / zero, dyadic). "
        "1-2 coupling keys per case: python float or int coefficient (non-negative, incl. zero; negative ones are rejected by SecondOrderTensor), uniform symmetric positive definite tensor, or "
        "cell-wise varying scalar (divergence part only; for these the coded first-side force and pressure-jump right-hand side are tied to "
        "the model). Constant pressure p dyadic. Configurations: continuity point eta default / 0 / 1/4 / 1/2, inverter python / numba, "
        "1-3 subproblems, partial discretisation around specified cells (rows are then required to be either untouched or exact, and the "
        "specified cells' own rows to be written). Stratum (20%): 2-3 coupling keywords given as plain numbers with different values. "
        "About a third of the small 2-D cases also compare all four coupling matrices entry by entry with the Lean assembly on C13's "
        "certified MPSA model. non-trivial = at least 2 cells, A non-zero, p non-zero; distinct = distinct cases.")
TRUSTED = [
    "modelled, not verified: the MPSA local systems and their inversion (igrad), SubcellTopology, the index maps / Kronecker reorderings of "
    "_subcell_gradient_to_cell_scalar, _create_rhs_scalar_gradient, scalar_tensor_vector_prod, hf2f, the gluing of subproblems and of partial "
    "discretisations; exactness of the sub-cell gradients for affine data is the hypothesis of div_u_subcell_exact (it is what C13 establishes) "
    "and is observed here through the oracle on the assembled matrices",
    "grid geometry: the theorems take ClosedCell (sum n_f = 0, sum n_f x_f^T = V I) as hypothesis; the driver decides it exactly on rational "
    "geometry computed by the harness from the node coordinates (2-D polygons, tetrahedra, parallelepipeds), and that geometry is compared with "
    "porepy's compute_geometry output (tolerance); for node-perturbed 3-D Cartesian grids (non-planar faces) porepy's float geometry is used as is "
    "and closedness is not claimed",
    "binary64 rounding: comparisons use tolerance 1e-8 relative to a scale derived from the inputs",
]
EXPLANATION = ("2-D: biot2d_div_u_exact / biot2d_grad_p_const are proved for the ASSEMBLED scheme on every well-formed, certified, all-Dirichlet grid "
               "(exact sub-cell gradients are a theorem via C13's left-inverse certificates), and the assembled model's four coupling matrices are "
               "compared entry-wise with the real ones. General dimension: CORE (partial): dimension-generic theorems over Q: divergence theorem for affine fields on any closed polytope cell with tensor "
               "coupling (sum_f (alpha n_f).u(x_f) = V alpha:A), the coded sub-cell volume form equals it when the sub-cell gradients are exact, the "
               "coded face force of a constant pressure is -p n_f^T alpha (= -alpha p n_f for a scalar coefficient) and sums to zero over a closed "
               "cell, the pressure-jump right-hand side vanishes for uniform alpha. Executable model evaluated exactly on rational grid geometry and "
               "compared with the real matrices' action; the oracle checks the property statement directly on the real matrices. The MPSA local "
               "solves and the vectorised assembly are bridged by the correspondence check, not proved.")
ASSUMPTIONS = ["every MPSA local system is uniquely solvable (condition number of each interaction-region block <= 1e6, observed on the matrices the "
               "real code inverts; geometries where a block is singular get no claim, e.g. a corner whose two cell centres are collinear with the "
               "two boundary face centres, corpus/C15/degenerate-corner-deltri.json)",
               "ClosedCell holds for the grid cells (decided exactly by the driver for every generated cell with planar faces)",
               "sub-cell gradients of the MPSA local systems are exact for affine data (C13); all mechanical boundary faces are Dirichlet",
               "the stiffness tensor is homogeneous and, for the scalar-gradient statement, the coupling tensor is the same in all cells"]

_CACHE = {}


def _F(x):
    return Fraction(x)


# ----------------------------------------------------------------------------- grids
def build_grid(gs):
    """Deterministic grid from the case's grid spec (all node coordinates dyadic)."""
    import porepy as pp

    kind, n = gs["kind"], list(gs["n"])
    phys = [float(_F(x)) for x in gs["phys"]]
    d = len(n)
    if kind == "cart":
        g = pp.CartGrid(np.array(n), physdims=phys)
    elif kind == "tri":
        g = pp.StructuredTriangleGrid(np.array(n), physdims=phys)
    elif kind == "tet":
        g = pp.StructuredTetrahedralGrid(np.array(n), physdims=phys)
    elif kind == "deltri":
        r = random.Random(gs["pseed"])
        pts = [(0.0, 0.0), (phys[0], 0.0), (phys[0], phys[1]), (0.0, phys[1])]
        seen = set()
        while len(pts) < 4 + gs["npts"]:
            p = (r.randrange(1, 16), r.randrange(1, 16))
            if p in seen:
                continue
            seen.add(p)
            pts.append((phys[0] * p[0] / 16, phys[1] * p[1] / 16))
        g = pp.TriangleGrid(np.array(pts).T)
    elif kind == "mixed":
        g = _mixed_grid(n, phys, gs.get("split", []))
    elif kind == "prism":
        # triangles (perturbed in the plane) extruded in z: cells with 6 nodes, faces with 3 and with 4 nodes
        g2 = pp.StructuredTriangleGrid(np.array(n[:2]), physdims=phys[:2])
        pert2 = float(_F(gs.get("pert", "0")))
        r = random.Random(gs["pseed"])
        for v in range(g2.num_nodes):
            for k in range(2):
                g2.nodes[k, v] += pert2 * (phys[k] / n[k]) * r.randrange(-32, 33) / 64
        g2.compute_geometry()
        g, _, _ = pp.grid_extrusion.extrude_grid(g2, np.array([phys[2] * k / n[2] for k in range(n[2] + 1)]))
    else:
        raise ValueError(kind)
    pert = float(_F(gs.get("pert", "0")))
    if pert and kind not in ("deltri", "prism"):
        r = random.Random(gs["pseed"])
        h = [phys[k] / n[k] for k in range(d)]
        for v in range(g.num_nodes):
            for k in range(d):
                g.nodes[k, v] += pert * h[k] * r.randrange(-32, 33) / 64
    if gs.get("shear"):
        S = np.array([[float(_F(x)) for x in row] for row in gs["shear"]])
        g.nodes[:d] = S @ g.nodes[:d]
    g.compute_geometry()
    return g


def _mixed_grid(n, phys, split):
    """2-D grid of quadrilaterals in which the listed Cartesian cells are cut into two triangles by a diagonal
    (cells with 3 and with 4 nodes in one grid), built directly from its topology."""
    import porepy as pp
    import scipy.sparse as sps

    nx, ny = n
    xs = [phys[0] * i / nx for i in range(nx + 1)]
    ys = [phys[1] * j / ny for j in range(ny + 1)]
    nid = lambda i, j: j * (nx + 1) + i
    nodes = np.zeros((3, (nx + 1) * (ny + 1)))
    for j in range(ny + 1):
        for i in range(nx + 1):
            nodes[0, nid(i, j)], nodes[1, nid(i, j)] = xs[i], ys[j]
    polys = []
    for j in range(ny):
        for i in range(nx):
            a, b, c, d_ = nid(i, j), nid(i + 1, j), nid(i + 1, j + 1), nid(i, j + 1)
            if (j * nx + i) in split:
                if (i + j) % 2 == 0:
                    polys += [[a, b, c], [a, c, d_]]
                else:
                    polys += [[a, b, d_], [b, c, d_]]
            else:
                polys.append([a, b, c, d_])
    edges, fn_rows, cf_r, cf_c, cf_v = {}, [], [], [], []
    for ci, poly in enumerate(polys):
        for k in range(len(poly)):
            e = tuple(sorted((poly[k], poly[(k + 1) % len(poly)])))
            first = e not in edges
            if first:
                edges[e] = len(edges)
                fn_rows.append(e)
            cf_r.append(edges[e])
            cf_c.append(ci)
            cf_v.append(1 if first else -1)
    nf = len(edges)
    fn = sps.coo_matrix((np.ones(2 * nf, dtype=bool), (np.array(fn_rows).ravel(), np.repeat(np.arange(nf), 2))),
                        shape=(nodes.shape[1], nf)).tocsc()
    cf = sps.coo_matrix((np.array(cf_v), (np.array(cf_r), np.array(cf_c))), shape=(nf, len(polys))).tocsc()
    return pp.Grid(2, nodes, fn, cf, "MixedPolygonGrid")


def _valid_grid(gs, rng):
    """Reduce the perturbation until all cells have a sane volume (mutates gs)."""
    for _ in range(6):
        g = build_grid(gs)
        ref = g.cell_volumes.sum() / g.num_cells
        if g.cell_volumes.min() > (0.1 if gs["kind"] != "deltri" else 0.02) * ref and np.all(np.isfinite(g.face_normals)):
            return g
        if gs["kind"] == "deltri":
            gs["pseed"] = rng.randrange(10**6)
        else:
            gs["pert"] = str(_F(gs["pert"]) / 2) if _F(gs.get("pert", "0")) > Fraction(1, 16) else "0"
    gs["pert"] = "0"
    if gs["kind"] == "deltri":
        gs["npts"] = 0
    return build_grid(gs)


# ----------------------------------------------------------------------------- exact geometry (harness' own, Fractions)
def _sub(a, b):
    return [x - y for x, y in zip(a, b)]


def _cross(a, b):
    return [a[1] * b[2] - a[2] * b[1], a[2] * b[0] - a[0] * b[2], a[0] * b[1] - a[1] * b[0]]


def _dotq(a, b):
    return sum(x * y for x, y in zip(a, b))


def exact_geometry(g):
    """Face normals (porepy's orientation), face centres, cell volumes and outward signs, computed exactly from the node
    coordinates.  Returns None where the harness has no exact formula (3-D faces that are not triangles / parallelograms)."""
    d = g.dim
    X = [[Fraction(float(g.nodes[k, v])) for k in range(d)] for v in range(g.num_nodes)]
    fn = g.face_nodes.tocsc()
    cf = g.cell_faces.tocsc()
    cn = g.cell_nodes().tocsc()
    nF, xF = [], []
    for f in range(g.num_faces):
        vs = fn.indices[fn.indptr[f]:fn.indptr[f + 1]]
        P = [X[v] for v in vs]
        if d == 2:
            if len(P) != 2:
                return None
            t = _sub(P[1], P[0])
            Nv = [t[1], -t[0]]
            c = [(P[0][k] + P[1][k]) / 2 for k in range(2)]
        elif len(P) == 3:
            Nv = [x / 2 for x in _cross(_sub(P[1], P[0]), _sub(P[2], P[0]))]
            c = [(P[0][k] + P[1][k] + P[2][k]) / 3 for k in range(3)]
        elif len(P) == 4:
            opp = None
            for m in (1, 2, 3):
                i, j = [q for q in (1, 2, 3) if q != m]
                if all(P[0][k] + P[m][k] == P[i][k] + P[j][k] for k in range(3)):
                    opp = (m, i, j)
            if opp is None:
                return None  # not a parallelogram (node-perturbed hexahedra)
            _, i, j = opp
            Nv = _cross(_sub(P[i], P[0]), _sub(P[j], P[0]))
            c = [sum(p[k] for p in P) / 4 for k in range(3)]
        else:
            return None
        fl = g.face_normals[:d, f]
        if sum(float(a) * float(b) for a, b in zip(Nv, fl)) < 0:
            Nv = [-x for x in Nv]
        nF.append(Nv)
        xF.append(c)
    V, sgn, faces_of = [], [], []
    for c in range(g.num_cells):
        fs = [int(f) for f in cf.indices[cf.indptr[c]:cf.indptr[c + 1]]]
        vs = [int(v) for v in cn.indices[cn.indptr[c]:cn.indptr[c + 1]]]
        ctr = [sum(X[v][k] for v in vs) / len(vs) for k in range(d)]
        sg = []
        for f in fs:
            s = _dotq(nF[f], _sub(xF[f], ctr))
            if s == 0:
                return None
            sg.append(1 if s > 0 else -1)
        if d == 2:
            # order the polygon's nodes by walking its edges, then the shoelace formula
            edges = [[int(v) for v in fn.indices[fn.indptr[f]:fn.indptr[f + 1]]] for f in fs]
            order = [edges[0][0], edges[0][1]]
            used = {0}
            while len(used) < len(edges):
                nxt = [k for k, e in enumerate(edges) if k not in used and order[-1] in e]
                if not nxt:
                    return None
                e = edges[nxt[0]]
                used.add(nxt[0])
                order.append(e[0] if e[1] == order[-1] else e[1])
            if order[-1] != order[0]:
                return None
            order = order[:-1]
            a2 = sum(X[order[k]][0] * X[order[(k + 1) % len(order)]][1] - X[order[(k + 1) % len(order)]][0] * X[order[k]][1] for k in range(len(order)))
            vol = abs(a2) / 2
        elif len(vs) == 4:
            p0 = X[vs[0]]
            vol = abs(_dotq(_sub(X[vs[1]], p0), _cross(_sub(X[vs[2]], p0), _sub(X[vs[3]], p0)))) / 6
        else:
            # convex polyhedron with planar faces: cones over the faces from an interior point
            vol = sum(abs(_dotq(nF[f], _sub(xF[f], ctr))) for f in fs) / 3
        V.append(vol)
        sgn.append(sg)
        faces_of.append(fs)
    return {"n": nF, "x": xF, "V": V, "sgn": sgn, "faces": faces_of}


def float_geometry(g):
    """porepy's own geometry, every binary64 taken as the rational it is (used where no exact formula applies)."""
    d = g.dim
    cf = g.cell_faces.tocsc()
    nF = [[Fraction(float(x)) for x in g.face_normals[:d, f]] for f in range(g.num_faces)]
    xF = [[Fraction(float(x)) for x in g.face_centers[:d, f]] for f in range(g.num_faces)]
    V = [Fraction(float(v)) for v in g.cell_volumes]
    faces_of = [[int(f) for f in cf.indices[cf.indptr[c]:cf.indptr[c + 1]]] for c in range(g.num_cells)]
    sgn = [[int(s) for s in cf.data[cf.indptr[c]:cf.indptr[c + 1]]] for c in range(g.num_cells)]
    return {"n": nF, "x": xF, "V": V, "sgn": sgn, "faces": faces_of}


# ----------------------------------------------------------------------------- generator
def _dy(rng, lo, hi, den):
    return Fraction(rng.randint(lo * den, hi * den), den)


def _gen_key(rng, name, dim):
    mode = rng.choice(["scalar", "scalar", "scalar", "tensor", "tensor", "tensor", "hetero", "hetero"])
    if mode == "scalar":
        v = rng.choice([Fraction(1), Fraction(3, 4), Fraction(1, 2), Fraction(2), Fraction(1, 4), Fraction(5, 4), Fraction(3), Fraction(0), Fraction(3, 2)])
        return {"name": name, "mode": "scalar", "a": str(v), "as_int": bool(v.denominator == 1 and rng.random() < 0.5)}
    if mode == "tensor":
        diag = [str(rng.choice([Fraction(1), Fraction(3, 2), Fraction(2), Fraction(3), Fraction(5, 4)])) for _ in range(dim)]
        off = [str(rng.choice([Fraction(0), Fraction(1, 4), Fraction(-1, 4), Fraction(1, 2), Fraction(-1, 8)])) for _ in range(dim * (dim - 1) // 2)]
        return {"name": name, "mode": "tensor", "diag": diag, "off": off}  # off: xy (, xz, yz); diagonally dominant => positive definite
    vals = [str(rng.choice([Fraction(1, 4), Fraction(1, 2), Fraction(1), Fraction(3, 2), Fraction(2), Fraction(4), Fraction(0)])) for _ in range(rng.randint(2, 5))]
    return {"name": name, "mode": "hetero", "vals": vals, "mul": rng.choice([1, 2, 3, 5])}


def gen_case(rng, tier):
    big = tier == "thorough"
    dim = 2 if rng.random() < 0.55 else 3
    gs = {}
    r = rng.random()
    cfg = "split" if r < 0.2 else ("partial" if r < 0.35 else "full")
    if cfg != "full" and rng.random() < 0.7:
        # sub-problems / active sub-grids are proper sub-grids only if the grid is long enough for the two-layer overlap
        kind = "cart"
        n = rng.choice([[4, 1], [5, 1], [6, 1], [4, 3], [5, 3]] + ([[8, 1], [6, 4]] if big else [])) if dim == 2 else \
            rng.choice([[4, 1, 1], [5, 1, 1], [6, 1, 1]] + ([[8, 1, 1], [5, 3, 1]] if big else []))
        if rng.random() < 0.5:
            n = n[::-1]
    elif dim == 2:
        kind = rng.choice(["cart", "cart", "tri", "deltri", "mixed"])
        n = [rng.choice([1, 2, 2, 3, 3, 4] + ([5, 6] if big else [])), rng.choice([1, 2, 2, 3] + ([4, 5] if big else []))]
        if kind == "tri":
            n = [min(n[0], 3 if not big else 4), min(n[1], 2 if not big else 3)]
    else:
        kind = rng.choice(["cart", "cart", "cart", "tet", "tet", "prism"])
        n = [rng.choice([1, 2, 2, 3]), rng.choice([1, 2, 2]), rng.choice([1, 2, 3 if big else 2])]
        if kind == "tet":
            n = [rng.choice([1, 1, 2]), 1, rng.choice([1, 1, 2]) if big else 1]
        if kind == "prism":
            n = [rng.choice([1, 2, 2 if not big else 3]), rng.choice([1, 1, 2]), rng.choice([1, 2])]
    phys = [str(Fraction(n[k]) * rng.choice([Fraction(1), Fraction(1), Fraction(1, 2), Fraction(2), Fraction(3, 4)])) for k in range(dim)]
    gs = {"kind": kind, "n": n, "phys": phys, "pseed": rng.randrange(10**6)}
    if kind == "deltri":
        gs["npts"] = rng.randint(0, 5 if not big else 12)
        gs["n"] = [1, 1]
    elif kind == "mixed":
        ncart = n[0] * n[1]
        gs["split"] = sorted(rng.sample(range(ncart), rng.randint(1, max(1, (ncart + 1) // 2))))
        gs["pert"] = str(rng.choice([Fraction(0), Fraction(1, 8), Fraction(1, 4)]))
    elif dim == 3 and kind == "cart":
        var = rng.choice(["plain", "plain", "shear", "shear", "pert"])
        if var == "shear":
            s = [rng.choice([Fraction(0), Fraction(1, 4), Fraction(-1, 2), Fraction(1, 2), Fraction(1)]) for _ in range(3)]
            gs["shear"] = [["1", str(s[0]), str(s[1])], ["0", "1", str(s[2])], ["0", "0", "1"]]
        elif var == "pert":
            gs["pert"] = str(rng.choice([Fraction(1, 8), Fraction(1, 4)]))
    else:
        gs["pert"] = str(rng.choice([Fraction(0), Fraction(1, 8), Fraction(1, 4)]))
    g = _valid_grid(gs, rng)
    ft = rng.choice(["general", "general", "general", "symmetric", "skew", "tracefree", "zero"])
    A = [[Fraction(0)] * dim for _ in range(dim)]
    if ft in ("general", "symmetric", "tracefree"):
        A = [[_dy(rng, -4, 4, 8) for _ in range(dim)] for _ in range(dim)]
        if ft == "symmetric":
            A = [[A[min(i, j)][max(i, j)] for j in range(dim)] for i in range(dim)]
        if ft == "tracefree":
            A[dim - 1][dim - 1] = -sum(A[i][i] for i in range(dim - 1))
    elif ft == "skew":
        for i in range(dim):
            for j in range(i + 1, dim):
                A[i][j] = _dy(rng, -4, 4, 8) or Fraction(1)
                A[j][i] = -A[i][j]
    b = [_dy(rng, -4, 4, 4) for _ in range(dim)]
    p = rng.choice([_dy(rng, -4, 4, 4) or Fraction(-3, 2), _dy(rng, 1, 4, 4), _dy(rng, 1, 4, 4)])
    if rng.random() < 0.05:
        p = Fraction(0)
    keys = [_gen_key(rng, "k0", dim)]
    if rng.random() < 0.5:
        keys.append(_gen_key(rng, "k1", dim))
    case = {"grid": gs, "A": [[str(x) for x in r] for r in A], "b": [str(x) for x in b], "p": str(p), "field": ft, "keys": keys,
            "mu": str(rng.choice([Fraction(1), Fraction(1, 2), Fraction(4)])), "lam": str(rng.choice([Fraction(0), Fraction(1), Fraction(8)])),
            "eta": rng.choice([None, None, None, None, "0", "1/4", "1/2"]), "inverter": rng.choice(["python", "python", "numba"]),
            "nsub": None, "spec_cells": None}
    if cfg == "split" and g.num_cells >= 4:
        case["nsub"] = rng.choice([2, 3])
    elif cfg == "partial" and g.num_cells >= 4:
        case["spec_cells"] = sorted(rng.sample(range(g.num_cells), rng.choice([1, 1, 2])))
    if rng.random() < 0.2:
        # stratum: >= 2 coupling keywords given as plain numbers with DIFFERENT values (a shared work array scaled in place
        # by each coefficient in turn would give the later keys the product of the preceding coefficients)
        vs = rng.sample([Fraction(1, 2), Fraction(3, 4), Fraction(2), Fraction(3), Fraction(5, 4), Fraction(1, 4), Fraction(3, 2)], 3)
        case["keys"] = [{"name": f"k{i}", "mode": "scalar", "a": str(v), "as_int": bool(v.denominator == 1 and rng.random() < 0.5)}
                        for i, v in enumerate(vs[:rng.choice([2, 2, 3])])]
    elif (case["nsub"] or case["spec_cells"] is not None) and rng.random() < 0.6:
        # cell-wise coefficients exercise the restriction of the coupling tensors to subproblems / active cells
        vals = rng.sample([Fraction(1, 4), Fraction(1, 2), Fraction(1), Fraction(3, 2), Fraction(2), Fraction(4)], rng.randint(3, 5))
        case["keys"][0] = {"name": "k0", "mode": "hetero", "vals": [str(v) for v in vals], "mul": rng.choice([1, 1, 2, 3])}
    if dim == 2 and case["spec_cells"] is None and g.num_cells <= (6 if not big else 10) and rng.random() < 0.5:
        case["tie2d"] = True  # entry-wise comparison of the four coupling matrices with the assembled Lean model (C13.GridS)
    return case


# ----------------------------------------------------------------------------- real code
def _alpha_input(key, g):
    """(what is handed to porepy, per-cell d x d Fractions, uniform?)"""
    import porepy as pp

    d, nc = g.dim, g.num_cells
    if key["mode"] == "scalar":
        a = _F(key["a"])
        val = int(a) if key.get("as_int") else float(a)
        M = [[a if i == j else Fraction(0) for j in range(d)] for i in range(d)]
        return val, [M] * nc, True
    if key["mode"] == "tensor":
        dg = [_F(x) for x in key["diag"]]
        off = [_F(x) for x in key["off"]]
        one = np.ones(nc)
        if d == 2:
            T = pp.SecondOrderTensor(kxx=float(dg[0]) * one, kyy=float(dg[1]) * one, kxy=float(off[0]) * one)
            M = [[dg[0], off[0]], [off[0], dg[1]]]
        else:
            T = pp.SecondOrderTensor(kxx=float(dg[0]) * one, kyy=float(dg[1]) * one, kzz=float(dg[2]) * one,
                                     kxy=float(off[0]) * one, kxz=float(off[1]) * one, kyz=float(off[2]) * one)
            M = [[dg[0], off[0], off[1]], [off[0], dg[1], off[2]], [off[1], off[2], dg[2]]]
        return T, [M] * nc, True
    vals = [_F(x) for x in key["vals"]]
    per = [vals[(c * key["mul"]) % len(vals)] for c in range(nc)]
    T = pp.SecondOrderTensor(np.array([float(x) for x in per]))
    Ms = [[[a if i == j else Fraction(0) for j in range(d)] for i in range(d)] for a in per]
    return T, Ms, len(set(per)) == 1


def _real(case):
    """Run the real code once per case: grid, the Biot matrices' action on the affine field / constant pressure, and the
    two matrices returned by Biot._create_rhs_scalar_gradient. Everything returned is small (vectors)."""
    ck = json.dumps(case, sort_keys=True)
    if ck in _CACHE:
        return _CACHE[ck]
    import porepy as pp
    from porepy.numerics.fv import _fvutils

    g = build_grid(case["grid"])
    d, nc, nf = g.dim, g.num_cells, g.num_faces
    A = np.array([[float(_F(x)) for x in r] for r in case["A"]])
    b = np.array([float(_F(x)) for x in case["b"]])
    p = float(_F(case["p"]))
    mu, lam = float(_F(case["mu"])), float(_F(case["lam"]))
    bf = g.get_all_boundary_faces()
    bc = pp.BoundaryConditionVectorial(g, bf, ["dir"] * bf.size)
    C = pp.FourthOrderTensor(mu * np.ones(nc), lam * np.ones(nc))
    alphas = {k["name"]: _alpha_input(k, g) for k in case["keys"]}
    par = {"fourth_order_tensor": C, "bc": bc, "inverter": case.get("inverter", "python"),
           "scalar_vector_mappings": {name: a[0] for name, a in alphas.items()}}
    if case.get("eta") is not None:
        par["mpsa_eta"] = float(_F(case["eta"]))
    if case.get("nsub"):
        par["partition_arguments"] = {"num_subproblems": int(case["nsub"])}
    if case.get("spec_cells") is not None:
        par["specified_cells"] = np.array(case["spec_cells"], dtype=int)
    data = pp.initialize_data({}, "mechanics", par)
    discr = pp.Biot("mechanics")
    # Unique solvability of the MPSA local systems is a hypothesis of the property (C13: `Unisolvent`): observe it on the
    # matrices the real code is about to invert (condition number of every interaction-region block).
    conds = []
    orig_inv = pp.matrix_operations.invert_diagonal_blocks

    def spy(mat, s, method=None):
        m = mat.tocsr()
        off = np.concatenate([[0], np.cumsum(s)])
        for k in range(len(s)):
            sv = np.linalg.svd(m[off[k]:off[k + 1], off[k]:off[k + 1]].toarray(), compute_uv=False)
            conds.append(float(sv[0] / max(sv[-1], 1e-300)) if sv.size else 1.0)
        return orig_inv(mat, s, method=method)

    pp.matrix_operations.invert_diagonal_blocks = spy
    try:
        with warnings.catch_warnings():
            warnings.simplefilter("ignore")
            discr.discretize(g, data)
    except Exception as e:
        if conds and max(conds) > COND_MAX:
            out = {"g": g, "d": d, "degenerate": True, "cond": max(conds), "raised": type(e).__name__}
            _CACHE[ck] = out
            return out
        raise
    finally:
        pp.matrix_operations.invert_diagonal_blocks = orig_inv
    if conds and max(conds) > COND_MAX:
        out = {"g": g, "d": d, "degenerate": True, "cond": max(conds), "raised": None}
        _CACHE[ck] = out
        return out
    M = data[pp.DISCRETIZATION_MATRICES]["mechanics"]
    uc = (A @ g.cell_centers[:d] + b[:, None]).ravel("F")
    ub = np.zeros((d, nf))
    ub[:, bf] = A @ g.face_centers[:d][:, bf] + b[:, None]
    ub = ub.ravel("F")
    pvec = p * np.ones(nc)
    out = {"g": g, "d": d, "degenerate": False, "cond": max(conds) if conds else 1.0, "A": A, "b": b, "p": p, "alphas": {n_: (a[1], a[2]) for n_, a in alphas.items()}, "keys": {}}
    partial = case.get("spec_cells") is not None
    # the internals of the scalar-gradient construction, called as _local_discretization calls them (whole grid)
    eta = float(_F(case["eta"])) if case.get("eta") is not None else _fvutils.determine_eta(g)
    sd, _ = discr._reduce_grid_constit_2d(g, C) if d == 2 else (g, C)
    st = _fvutils.SubcellTopology(sd)
    bsub = _fvutils.boundary_to_sub_boundary(bc, st)
    be = _fvutils.ExcludeBoundaries(st, bsub, d)
    hf2f = _fvutils.map_hf_2_f(st.fno_unique, st.subfno_unique, d)
    first_cell = np.full(nf, -1)
    first_cell[st.fno_unique] = st.cno_unique
    out["first_cell"] = [int(c) for c in first_cell]
    out["eta"] = eta
    for name in alphas:
        Dm = M[discr.displacement_divergence_matrix_key][name]
        Bm = M[discr.bound_displacement_divergence_matrix_key][name]
        Gm = M[discr.scalar_gradient_matrix_key][name]
        Sm = M[discr.consistency_matrix_key][name]
        shapes_ok = Dm.shape == (nc, nc * d) and Bm.shape == (nc, nf * d) and Gm.shape == (nf * d, nc) and Sm.shape == (nc, nc)
        res = {"shapes_ok": bool(shapes_ok), "shapes": [list(Dm.shape), list(Bm.shape), list(Gm.shape), list(Sm.shape)]}
        if shapes_ok:
            res["div"] = Dm @ uc + Bm @ ub
            res["force"] = (Gm @ pvec).reshape((d, nf), order="F")
            Dc, Bc, Gc = Dm.tocsr().copy(), Bm.tocsr().copy(), Gm.tocsr().copy()
            for X_ in (Dc, Bc, Gc):  # rows removed by a partial discretisation keep explicitly stored zeros
                X_.eliminate_zeros()
            res["cell_written"] = (np.diff(Dc.indptr) + np.diff(Bc.indptr)) > 0
            res["face_written"] = np.diff(Gc.indptr).reshape((nf, d)).sum(axis=1) > 0
            res["div_absmax"] = max(float(abs(Dm).max()) if Dm.nnz else 0.0, float(abs(Bm).max()) if Bm.nnz else 0.0)
            stab = Sm @ np.ones(nc)
            res["stab_rel"] = float(np.abs(stab).max() / max(float(abs(Sm).max()) if Sm.nnz else 0.0, 1e-300))
        if case.get("tie2d") and shapes_ok and name == case["keys"][0]["name"]:
            res["dense"] = [Dm.toarray(), Bm.toarray(), Gm.toarray(), Sm.toarray()]
        aT = alphas[name][0]
        if not isinstance(aT, pp.SecondOrderTensor):
            aT = pp.SecondOrderTensor(aT * np.ones(nc))
        rhs_jumps, sgf = discr._create_rhs_scalar_gradient(sd, st, aT, be)
        res["face_term"] = (hf2f @ (sgf @ pvec)).reshape((d, nf), order="F")
        res["jump"] = np.sort(np.asarray(rhs_jumps @ pvec).ravel())
        res["n_int_rows"] = int(d * (st.num_subfno_unique - np.isin(st.fno_unique, bf).sum()))
        out["keys"][name] = res
    out["partial"] = partial
    _CACHE[ck] = out
    return out


def _scales(R, Ms):
    g, d = R["g"], R["d"]
    amax = max(float(abs(x)) for M in Ms for row in M for x in row)
    diam = float(np.linalg.norm(g.nodes.max(axis=1) - g.nodes.min(axis=1)))
    umax = float(np.abs(R["A"]).max()) * diam + float(np.abs(R["b"]).max())
    area = float(g.face_areas.max())
    sdiv = max(amax * umax * area * 2 * d, 1e-300)
    sforce = max(amax * abs(R["p"]) * area, 1e-300)
    return sdiv, sforce


def _cls(case):
    gs = case["grid"]
    var = "sheared" if gs.get("shear") else ("perturbed" if gs.get("pert", "0") != "0" else "plain")
    cfg = "partial" if case.get("spec_cells") is not None else ("split" if case.get("nsub") else "full")
    return f"{len(gs['n'])}d-{gs['kind']}-{var}-{cfg}"


def oracle(case):
    """The property on the real matrices, with porepy's own geometry:
    (div_u u_cells + bound_div_u u_bc)[c] = (alpha_c : A) V_c   and   (grad_p p)[f] = -p alpha n_f."""
    cls = _cls(case)
    try:
        R = _real(case)
    except Exception as e:
        return {"what": f"Biot.discretize (or grid / parameter set-up) raised {type(e).__name__}: {e} on {cls}", "key": f"discretize-raises-{type(e).__name__}"}
    g, d = R["g"], R["d"]
    if R["degenerate"]:
        return None  # a local MPSA system is singular on this geometry (hypothesis Unisolvent fails): no claim
    A = R["A"]
    for key in case["keys"]:
        name, mode = key["name"], key["mode"]
        res = R["keys"][name]
        Ms, uniform = R["alphas"][name]
        if not res["shapes_ok"]:
            return {"what": f"coupling matrices for key {name} have shapes {res['shapes']} on a grid with {g.num_cells} cells, {g.num_faces} faces, nd={d}",
                    "key": f"shape-{cls}"}
        sdiv, sforce = _scales(R, Ms)
        aM = np.array([[[float(x) for x in row] for row in M] for M in Ms])  # nc x d x d
        want = np.einsum("cij,ij->c", aM, A) * g.cell_volumes
        got = res["div"]
        if not np.all(np.isfinite(got)) or not np.all(np.isfinite(res["force"])):
            return {"what": f"non-finite coupling term for key {name} on {cls}", "key": f"nonfinite-{cls}"}
        written = res["cell_written"] if R["partial"] else np.ones(g.num_cells, bool)
        if R["partial"]:
            # a partial discretisation must at least write the rows of the cells it was asked to discretise ...
            nonzero_alpha = all(any(x != 0 for row in M_ for x in row) for M_ in Ms)
            cfc = g.cell_faces.tocsc()
            for c in (case["spec_cells"] if nonzero_alpha else []):
                fs = cfc.indices[cfc.indptr[c]:cfc.indptr[c + 1]]
                if not all(res["face_written"][f] for f in fs):
                    return {"what": f"partial discretisation of cells {case['spec_cells']} left scalar_gradient rows of a face of cell {c} empty ({cls}, {mode})",
                            "key": f"partial-face-rows-missing-{mode}"}
            # ... and every row it writes has to be exact; rows it does not write must be zero
            if np.abs(got[~written]).max(initial=0.0) != 0.0:
                return {"what": f"unwritten displacement_divergence rows are non-zero ({cls})", "key": f"partial-unwritten-nonzero-{mode}"}
        err = np.abs(got - want) / sdiv
        err[~written] = 0.0
        if err.max(initial=0.0) > TOL:
            c = int(np.argmax(err))
            return {"what": f"(div_u u + bound_div_u u_bc)[cell {c}] = {float(got[c])!r} but (alpha:A) V = {float(want[c])!r} (relative error {err[c]:.3g}; key {name} "
                            f"{mode}, A={case['A']}, b={case['b']}, V={float(g.cell_volumes[c])!r}, {cls}, eta={case.get('eta')}, inverter={case.get('inverter')})",
                    "key": f"div_u-{d}d-{case['grid']['kind']}-{mode}" + ("-partial" if R["partial"] else "")}
        if uniform:
            al = aM[0]
            wantf = -R["p"] * (al.T @ g.face_normals[:d])  # (n^T alpha)^T, nd components per face
            gotf = res["force"]
            fw = res["face_written"] if R["partial"] else np.ones(g.num_faces, bool)
            errf = np.abs(gotf - wantf).max(axis=0) / sforce
            errf[~fw] = 0.0
            if errf.max(initial=0.0) > TOL:
                f = int(np.argmax(errf))
                where = "boundary" if f in set(int(x) for x in g.get_all_boundary_faces()) else "interior"
                return {"what": f"(grad_p p)[{where} face {f}] = {gotf[:, f].tolist()} but -p alpha n_f = {wantf[:, f].tolist()} (relative error {errf[f]:.3g}; "
                                f"key {name} {mode}, p={case['p']}, n_f={g.face_normals[:d, f].tolist()}, {cls})",
                        "key": f"grad_p-{d}d-{case['grid']['kind']}-{mode}" + ("-partial" if R["partial"] else "")}
    return None


# ----------------------------------------------------------------------------- correspondence
def _geom(case):
    ck = "G" + json.dumps(case["grid"], sort_keys=True)
    if ck not in _CACHE:
        g = build_grid(case["grid"])
        ex = exact_geometry(g)
        _CACHE[ck] = (ex if ex is not None else float_geometry(g), ex is not None,
                      [int(x) for x in np.diff(g.face_nodes.tocsc().indptr)], [int(x) for x in g.num_cell_nodes()],
                      [[int(c) for c in g.cell_faces.tocsr()[f].indices] for f in range(g.num_faces)],
                      [[int(s) for s in g.cell_faces.tocsr()[f].data] for f in range(g.num_faces)])
    return _CACHE[ck]


def _key_matrices(key, d, nc):
    if key["mode"] == "scalar":
        a = _F(key["a"])
        return [[[a if i == j else Fraction(0) for j in range(d)] for i in range(d)]] * nc
    if key["mode"] == "tensor":
        dg = [_F(x) for x in key["diag"]]
        off = [_F(x) for x in key["off"]]
        if d == 2:
            return [[[dg[0], off[0]], [off[0], dg[1]]]] * nc
        return [[[dg[0], off[0], off[1]], [off[0], dg[1], off[2]], [off[1], off[2], dg[2]]]] * nc
    vals = [_F(x) for x in key["vals"]]
    return [[[vals[(c * key["mul"]) % len(vals)] if i == j else Fraction(0) for j in range(d)] for i in range(d)] for c in range(nc)]


def _fm(M):
    return [[frac(x) for x in row] for row in M]


def model_ops(case):
    try:
        G, exact, nn, ncn, fcells, fsgn = _geom(case)
        R = _real(case)
    except Exception:
        return []
    if R["degenerate"]:
        return []
    d = len(case["grid"]["n"])
    nc = len(G["V"])
    ops = []
    for key in case["keys"]:
        Ms = _key_matrices(key, d, nc)
        cells = []
        for c in range(nc):
            cells.append({"V": frac(G["V"][c]), "alpha": _fm(Ms[c]), "ncn": ncn[c],
                          "n": [[frac(s * x) for x in G["n"][f]] for f, s in zip(G["faces"][c], G["sgn"][c])],
                          "x": [[frac(x) for x in G["x"][f]] for f in G["faces"][c]]})
        faces = []
        for f in range(len(G["n"])):
            fc = R["first_cell"][f]
            fo = {"n": [frac(x) for x in G["n"][f]], "k": nn[f], "alpha": _fm(Ms[fc])}
            if len(fcells[f]) == 2:
                plus = fcells[f][fsgn[f].index(1)]
                minus = fcells[f][fsgn[f].index(-1)]
                fo["alphaP"], fo["alphaM"] = _fm(Ms[plus]), _fm(Ms[minus])
            faces.append(fo)
        ops.append({"op": "grid", "d": d, "A": case["A"], "b": case["b"], "p": case["p"], "cells": cells, "faces": faces})
    if _tie2d(case, R):
        ops.append(_biot2d_op(case, R))
    return ops


def _tie2d(case, R):
    return bool(case.get("tie2d")) and R["d"] == 2 and not R["degenerate"] and case.get("spec_cells") is None \
        and "dense" in R["keys"][case["keys"][0]["name"]]


def _fl(v):
    return [frac(float(x)) for x in v]


def _biot2d_op(case, R):
    """The whole 2-D grid as the code sees it (format of C13's op "grid") plus the first key's coupling tensor per cell."""
    g = R["g"]
    fn = g.face_nodes.tocsc()
    cf = g.cell_faces.tocsr()
    fcs = []
    for f in range(g.num_faces):
        row = cf.getrow(f)
        order = np.argsort(row.indices)
        fcs.append([[int(row.indices[k]), frac(float(row.data[k]))] for k in order])
    bf = set(int(f) for f in g.get_all_boundary_faces())
    Ms = _key_matrices(case["keys"][0], 2, g.num_cells)
    return {"op": "biot2d", "nodes": [_fl(g.nodes[:2, v]) for v in range(g.num_nodes)],
            "face_nodes": [[int(x) for x in fn.indices[fn.indptr[f]:fn.indptr[f + 1]]] for f in range(g.num_faces)],
            "face_cells": fcs, "cell_centers": [_fl(g.cell_centers[:2, c]) for c in range(g.num_cells)],
            "face_centers": [_fl(g.face_centers[:2, f]) for f in range(g.num_faces)],
            "face_normals": [_fl(g.face_normals[:2, f]) for f in range(g.num_faces)],
            "vol_share": _fl(g.cell_volumes / g.num_cell_nodes()),
            "is_dir": [f in bf for f in range(g.num_faces)],
            "eta": frac(R["eta"]), "lam": case["lam"], "mu": case["mu"], "alpha": [_fm(M) for M in Ms]}


def _r(x):
    return float(x)


def impl_run(case):
    """What the real code says, normalised to O(1) numbers (see `_scales`)."""
    R = _real(case)
    g, d = R["g"], R["d"]
    if R["degenerate"]:
        return {"degenerate": True}
    cf = g.cell_faces.tocsc()
    out = {"geom": {"V": [_r(v) for v in g.cell_volumes],
                    "n": [[_r(x) for x in g.face_normals[:d, f]] for f in range(g.num_faces)],
                    "x": [[_r(x) for x in g.face_centers[:d, f]] for f in range(g.num_faces)],
                    "sgn": [[int(s) for s in cf.data[cf.indptr[c]:cf.indptr[c + 1]]] for c in range(g.num_cells)]},
           "keys": {}}
    _, exact, *_ = _geom(case)
    out["closed"] = [True] * g.num_cells if exact else None
    for key in case["keys"]:
        name = key["name"]
        res = R["keys"][name]
        Ms, uniform = R["alphas"][name]
        sdiv, sforce = _scales(R, Ms)
        if not res["shapes_ok"]:
            out["keys"][name] = {"shapes": res["shapes"]}
            continue
        cw = res["cell_written"] if R["partial"] else np.ones(g.num_cells, bool)
        fw = res["face_written"] if R["partial"] else np.ones(g.num_faces, bool)
        o = {"div": [_r(res["div"][c] / sdiv) if cw[c] else None for c in range(g.num_cells)],
             "face_term": [[_r(x / sforce) for x in res["face_term"][:, f]] for f in range(g.num_faces)],
             "jump": [_r(x / sforce) for x in res["jump"]]}
        if uniform:
            o["force"] = [[_r(x / sforce) for x in res["force"][:, f]] if fw[f] else None for f in range(g.num_faces)]
            if not R["partial"]:
                o["stab"] = res["stab_rel"]
        out["keys"][name] = o
    if _tie2d(case, R):
        Dd, Bd, Gd, Sd = R["keys"][case["keys"][0]["name"]]["dense"]
        out["tie2d"] = {"hyp": {"wf": True, "alldir": True, "certified": True}, "vol": [_r(v) for v in g.cell_volumes],
                        "div": Dd.tolist(), "bdiv": Bd.tolist(), "gradp": Gd.tolist(), "stab": Sd.tolist()}
    return out


def model_decode(outs, case):
    try:
        G, exact, nn, ncn, fcells, fsgn = _geom(case)
        R = _real(case)
    except Exception as e:
        return {"prepare_failed": f"{type(e).__name__}: {e}"}
    g, d = R["g"], R["d"]
    if R["degenerate"]:
        return {"degenerate": True}
    out = {"geom": {"V": [_r(v) for v in G["V"]], "n": [[_r(x) for x in v] for v in G["n"]], "x": [[_r(x) for x in v] for v in G["x"]],
                    "sgn": G["sgn"]}, "keys": {}}
    closed = None
    for key, o in zip(case["keys"], outs):
        if "err" in o:
            return {"driver_error": o}
        name = key["name"]
        res = R["keys"][name]
        Ms, uniform = R["alphas"][name]
        sdiv, sforce = _scales(R, Ms)
        cl = [c["closed"] for c in o["cells"]]
        closed = cl if closed is None else [a and b_ for a, b_ in zip(closed, cl)]
        for ci, c in enumerate(o["cells"]):
            # theorems div_u_exact_tensor / div_u_subcell_exact: on a closed cell all three forms coincide
            if c["closed"] and not (Fraction(c["flux"]) == Fraction(c["div"]) == Fraction(c["coded"])):
                return {"model_inconsistent": f"cell {ci}: flux {c['flux']}, div {c['div']}, coded {c['coded']}"}
            if Fraction(c["div"]) != Fraction(c["coded"]):
                return {"model_inconsistent": f"cell {ci}: div {c['div']} vs coded {c['coded']}"}
        if not res["shapes_ok"]:
            out["keys"][name] = {"shapes": [[g.num_cells, g.num_cells * d], [g.num_cells, g.num_faces * d], [g.num_faces * d, g.num_cells], [g.num_cells, g.num_cells]]}
            continue
        cw = res["cell_written"] if R["partial"] else np.ones(g.num_cells, bool)
        fw = res["face_written"] if R["partial"] else np.ones(g.num_faces, bool)
        force = [[float(Fraction(x)) / sforce for x in f["force"]] for f in o["faces"]]
        jump = sorted([float(Fraction(x)) / sforce for f, k in zip(o["faces"], nn) for x in f["jump"] for _ in range(k)])
        # rows of the local systems that carry no pressure imbalance (displacement continuity, Dirichlet) are zero rows of rhs_jumps
        nz = len(res["jump"]) - len(jump)
        jump = sorted(jump + [0.0] * max(nz, 0))
        m = {"div": [float(Fraction(c["div"])) / sdiv if cw[ci] else None for ci, c in enumerate(o["cells"])],
             "face_term": force, "jump": jump}
        if uniform:
            m["force"] = [force[f] if fw[f] else None for f in range(g.num_faces)]
            if not R["partial"]:
                m["stab"] = 0.0
        out["keys"][name] = m
    out["closed"] = closed if exact else None
    if _tie2d(case, R):
        o = outs[len(case["keys"])]
        if "err" in o:
            return {"driver_error": o}
        t = {"hyp": {"wf": o["wf"], "alldir": o["alldir"], "certified": o["certified"]}, "vol": [float(Fraction(x)) for x in o["vol"]]}
        if o["certified"]:
            nc, nf = g.num_cells, g.num_faces
            fl = lambda rows: np.array([[float(Fraction(x)) for x in r] for r in rows])
            t["div"] = fl(o["div_cols"]).T.reshape(nc, 2 * nc).tolist()      # columns 2c+i
            t["bdiv"] = fl(o["bdiv_cols"]).T.reshape(nc, 2 * nf).tolist()    # columns 2f+i
            gp = np.array([[[float(Fraction(x)) for x in fa] for fa in col] for col in o["gradp_cols"]])  # cell, face, comp
            t["gradp"] = gp.transpose(1, 2, 0).reshape(2 * nf, nc).tolist()  # rows 2f+a
            t["stab"] = fl(o["stab_cols"]).T.reshape(nc, nc).tolist()
        out["tie2d"] = t
    return out


def compare(impl, model, case):
    if "harness_exc" in impl:
        return "real code raised: " + impl["harness_exc"]
    impl, model = dict(impl), dict(model)
    ti, tm = impl.pop("tie2d", None), model.pop("tie2d", None)
    if (ti is None) != (tm is None):
        return "tie2d: present on one side only"
    if ti is not None:
        r = deep_compare({"hyp": ti["hyp"], "vol": ti["vol"]}, {"hyp": tm["hyp"], "vol": tm["vol"]}, "tie2d", tol=TOL)
        if r:
            return r
        for k in ("div", "bdiv", "gradp", "stab"):
            a, b = np.array(ti[k]), np.array(tm.get(k, []))
            if a.shape != b.shape:
                return f"tie2d.{k}: shape {a.shape} vs {b.shape}"
            sc = max(float(np.abs(b).max(initial=0.0)), 1e-300)
            err = np.abs(a - b) / sc
            if err.size and err.max() > TOL:
                i, j = np.unravel_index(int(np.argmax(err)), err.shape)
                return f"tie2d.{k}[{i}][{j}]: real matrix entry {float(a[i, j])!r} vs assembled Lean model {float(b[i, j])!r} (relative to the largest entry {sc:.3g})"
    return deep_compare(impl, model, tol=TOL)


# ----------------------------------------------------------------------------- bookkeeping
def _ncells(gs):
    if gs["kind"] == "deltri":
        return 2 + 2 * gs.get("npts", 0)
    if gs["kind"] == "mixed":
        return int(np.prod(gs["n"])) + len(gs.get("split", []))
    return int(np.prod(gs["n"])) * {"cart": 1, "tri": 2, "tet": 6, "prism": 2}[gs["kind"]]


def case_degenerate(case):
    r = _CACHE.get(json.dumps(case, sort_keys=True))
    return bool(r and r.get("degenerate"))


def nontrivial(case):
    if case_degenerate(case):
        return False
    return _ncells(case["grid"]) >= 2 and any(_F(x) != 0 for r in case["A"] for x in r) and _F(case["p"]) != 0


def shrink_candidates(case):
    gs = case["grid"]
    if case.get("tie2d"):
        yield {k: v for k, v in case.items() if k != "tie2d"}
    if len(case["keys"]) > 1:
        for k in case["keys"]:
            yield dict(case, keys=[k])
    if case.get("nsub"):
        yield dict(case, nsub=None)
    if case.get("spec_cells") is not None:
        yield dict(case, spec_cells=None)
        if len(case["spec_cells"]) > 1:
            for c in case["spec_cells"]:
                yield dict(case, spec_cells=[c])
    if gs.get("pert", "0") != "0":
        yield dict(case, grid=dict(gs, pert="0"))
    if gs.get("shear"):
        g2 = dict(gs)
        g2.pop("shear")
        yield dict(case, grid=g2)
    if case.get("eta") is not None:
        yield dict(case, eta=None)
    if case.get("inverter") != "python":
        yield dict(case, inverter="python")
    if case.get("spec_cells") is None:
        for k in range(len(gs["n"])):
            if gs["n"][k] > 1 and gs["kind"] not in ("deltri", "mixed"):
                n2 = list(gs["n"])
                n2[k] -= 1
                yield dict(case, nsub=None, grid=dict(gs, n=n2, phys=[str(_F(p_) * n2[j] / gs["n"][j]) for j, p_ in enumerate(gs["phys"])]))
        if gs["kind"] == "deltri" and gs.get("npts", 0) > 0:
            yield dict(case, nsub=None, grid=dict(gs, npts=gs["npts"] - 1))
        if gs["kind"] == "mixed" and len(gs.get("split", [])) > 1:
            for q in gs["split"]:
                yield dict(case, nsub=None, grid=dict(gs, split=[x for x in gs["split"] if x != q]))
    for key_i, key in enumerate(case["keys"]):
        if key["mode"] != "scalar":
            ks = list(case["keys"])
            ks[key_i] = {"name": key["name"], "mode": "scalar", "a": "1", "as_int": False}
            yield dict(case, keys=ks)
    d = len(case["b"])
    for i in range(d):
        for j in range(d):
            if _F(case["A"][i][j]) not in (0, 1):
                for val in ("0", "1"):
                    A2 = [list(r) for r in case["A"]]
                    A2[i][j] = val
                    yield dict(case, A=A2, field="general")
        if _F(case["b"][i]) != 0:
            b2 = list(case["b"])
            b2[i] = "0"
            yield dict(case, b=b2)
    if _F(case["p"]) not in (0, 1):
        yield dict(case, p="1")


def stats(cases, impl_outs):
    from collections import Counter

    return {"grids": dict(Counter(_cls(c) for c in cases)),
            "fields": dict(Counter(c.get("field", "general") for c in cases)),
            "coupling_modes": dict(Counter(k["mode"] for c in cases for k in c["keys"])),
            "int_coefficients": sum(1 for c in cases for k in c["keys"] if k.get("as_int")),
            "entrywise_2d_ties": sum(1 for o in impl_outs if isinstance(o, dict) and "tie2d" in o),
            "scalar_keys_distinct_values": sum(1 for c in cases if len({k["a"] for k in c["keys"] if k["mode"] == "scalar"}) >= 2),
            "two_keys": sum(1 for c in cases if len(c["keys"]) == 2),
            "zero_pressure": sum(1 for c in cases if _F(c["p"]) == 0),
            "eta_nondefault": sum(1 for c in cases if c.get("eta") is not None),
            "numba_inverter": sum(1 for c in cases if c.get("inverter") == "numba"),
            "degenerate_no_claim": sum(1 for o in impl_outs if isinstance(o, dict) and o.get("degenerate")),
            "exact_rational_geometry": sum(1 for o in impl_outs if isinstance(o, dict) and o.get("closed")),
            "cells_total": sum(len(o["geom"]["V"]) for o in impl_outs if isinstance(o, dict) and "geom" in o),
            "faces_total": sum(len(o["geom"]["n"]) for o in impl_outs if isinstance(o, dict) and "geom" in o)}
