"""C08 Stored time-step and iterate histories behave as sliding windows.

Real code: porepy.numerics.ad.ad_utils.{set,get,shift}_solution_values and the EquationSystem wrappers
set_variable_values / get_variable_values / shift_time_step_values / shift_iterate_values.
"""
import ast
import os
from fractions import Fraction

import numpy as np

from harness.common import REPO, deep_compare, err_kind, frac

PID = "C08"
THEOREMS = [
    "PorepyVerif.C08.set_refines",
    "PorepyVerif.C08.add_refines",
    "PorepyVerif.C08.shift_refines",
    "PorepyVerif.C08.shift_refines_deque",
    "PorepyVerif.C08.step_refines",
    "PorepyVerif.C08.store_refines_window",
    "PorepyVerif.C08.store_refines_window_from_empty",
    "PorepyVerif.C08.window_ith_varying",
    "PorepyVerif.C08.window_ith",
    "PorepyVerif.C08.window_additive",
    "PorepyVerif.C08.add_empty_rejected",
    "PorepyVerif.C08.add_present",
    "PorepyVerif.C08.get_does_not_modify",
    "PorepyVerif.C08.get_set_independent",
    "PorepyVerif.C08.get_empty_errors",
    "PorepyVerif.C08.shift_keyError_iff",
    "PorepyVerif.C08.shift_keeps_index_zero",
    "PorepyVerif.C08.noncontiguous_shift_errors",
    "PorepyVerif.C08.dget_dput",
    "PorepyVerif.C08.data_set_is_store_step",
    "PorepyVerif.C08.data_get_is_store_step",
    "PorepyVerif.C08.data_shift_is_store_step",
    "PorepyVerif.C08.window_any_sequence",
    "PorepyVerif.C08.window_any_sequence_depth",
    "PorepyVerif.C08.unshift_spec",
    "PorepyVerif.C08.unshift_refines",
    "PorepyVerif.C08.unshift_after_shift_any",
    "PorepyVerif.C08.unshift_after_shift",
    "PorepyVerif.C08.es_set_get_roundtrip",
    "PorepyVerif.C08.es_set_blocks",
    "PorepyVerif.C08.es_set_wrong_size",
    "PorepyVerif.C08.es_shift_simultaneous",
    "PorepyVerif.C08.es_shift_windows",
    "PorepyVerif.C08.es_set_get_roundtrip_c05",
    "PorepyVerif.C08.sep_step",
    "PorepyVerif.C08.sep_reachable",
    "PorepyVerif.C08.heap_step_refines",
    "PorepyVerif.C08.heap_run_refines",
    "PorepyVerif.C08.held_stable_step",
    "PorepyVerif.C08.held_stable",
    "PorepyVerif.C08.get_returns_stable_copy",
]
LEAN_MODULES = ["PorepyVerif.C08.Props"]
LEAN_DIRS = ["C05"]  # Model.lean imports PorepyVerif.C05.Model (layout of the equation system)
AUDIT = "PorepyVerif/C08/Audit.lean"
DRIVER = "PorepyVerif/C08/Driver.lean"
N = {"quick": 600, "thorough": 20000}
TS, IT = "time_step_solutions", "iterate_solutions"
RULE = ("histories of 3-40 calls; two layers: 'utils' = ad_utils.set/get/shift_solution_values on a plain data dict with 1-2 names "
        "(arrays of length 2-4), 'es' = EquationSystem.set/get_variable_values, shift_time_step_values, shift_iterate_values on a "
        "1x(2|3) Cartesian grid with 1-2 variables (1-2 dofs per cell) selected by None / name / Variable / md-variable lists "
        "(duplicates, any order, empty list), mixed with direct ad_utils calls on the same data dict; both locations; depth 1-4, fixed per "
        "case (70%) or varying; 30% of the cases are the model pattern (shift(depth); write index 0)* with overwrite or additive "
        "writes; the rest are free interleavings incl. writes at indices > 0 (holes), max_index None / 0 / negative, unsupported "
        "location, both / no / negative indices, reads of empty slots, additive writes to empty slots; values are small dyadic "
        "rationals (binary64 exact). Strata (counted in input_distribution): free / model-pattern / bc-time-loop (40% of the es cases also "
        "carry 1-2 quantities on the boundary grid: BoundaryConditionMixin.update_boundary_condition with depth 0-4, "
        "SolutionStrategy._revert_time_dependent_boundary_values, direct helper calls on the boundary data) / wrong-size vectors. non-trivial = at least two shifts, one read at an index >= 1 and one additive write; "
        "distinct = distinct op sequences")
TRUSTED = [
    "modelled, not verified: numpy ndarray.copy / in-place += / slicing / concatenate; Python dict semantics of data[loc][name] "
    "(model: association list with replace-or-append insertion, len = number of keys)",
    "aliasing: proved on a model WITH sharing (heap of arrays, slots hold references, caller holds references and may overwrite them; "
    "theorems sep_reachable, heap_run_refines, held_stable, get_returns_stable_copy) whose copy decisions (codePolicy: set copies, get "
    "copies, every pass of the shift loop copies, += is in place) are read off the source of ad_utils.py by an ast check on every run "
    "(translate()); that numpy's .copy() yields disjoint memory and that nothing else in the three helpers shares arrays is TESTED by the "
    "oracle: it overwrites or keeps every array it passed in or got back, checks np.shares_memory between all stored slots and all arrays "
    "it ever held, pokes every stored slot additively at the end and re-reads the whole store",
    "EquationSystem wrappers: modelled (esSet / esGet / esShift over the list of blocks of _variable_numbers in global order); the "
    "harness supplies that list (creation order on one grid; C05 proves the layout in general, layoutOf ties the two models) and resolves "
    "_parse_variable_type (None / str / Variable / md-variable -> names)",
    "boundary values: update_boundary_condition / _revert_time_dependent_boundary_values are modelled on ONE boundary data dictionary "
    "(bcUpdate, bcRevert; the loop over mdg.boundaries() is not); they are called on the real classes with a stub `self` (mdg, "
    "time_step_indices); the revert moves arrays by reference and deletes the last slot - that this leaves no sharing is checked by the "
    "oracle (np.shares_memory), not by the heap model; the Lean un-shift is the REPAIRED one (dict rebuilt, total on stores with holes; "
    "fixes/C08-revert-unshift-with-holes.diff) - until that fix is applied the entry-by-entry loop raises KeyError on stores with holes "
    "(known finding revert-unshift-with-holes; model-vs-code comparison is skipped on exactly those cases)",
]
EXPLANATION = (
    "FULL for the storage logic: the model is the dict index->array with set/add/get/shift exactly as branched in shift_solution_values "
    "(num_stored vs max_index, KeyError with partial writes on stores with holes) plus the data-dictionary layer (absent name vs empty "
    "dict, _validate_indices) plus the EquationSystem wrappers (dissection of the global vector, final size assertion, shift of every parsed "
    "variable). Theorems: refinement of every hole-free history to a plain list window (shift m: take m (w0::w) ++ drop m w), "
    "window_ith for the (shift m; set 0 v)* pattern incl. varying depths, the additive Newton pattern, rejection of additive writes to empty "
    "slots, exact characterisation of KeyError on stores with holes, frame/focus lemmas for the data dictionary, set-then-get round trip of "
    "the wrappers block by block, wrapper shift = store-level shift on every variable. Aliasing: a heap model with references in which the "
    "separation invariant (no two slots share an array, no slot shares one with the caller) is proved for all histories, the value-level model "
    "is proved to be its faithful abstraction, and the seeded no-copy variants are refuted by concrete histories. Correspondence compares every "
    "output, error kind and the final store contents exactly; the oracle checks the sliding-window statement and the separation invariant "
    "(np.shares_memory) directly on the real code. Clause map: 'any sequence of writes (overwrite or additive) and shifts with a maximum depth: "
    "index i = i-th most recent value written at index 0, i < depth' = window_any_sequence (+ window_any_sequence_depth, window_ith, "
    "window_additive, store_refines_window); 'reads return copies that later writes do not alter' = get_returns_stable_copy, held_stable, "
    "heap_run_refines on the heap model (numpy .copy() itself: oracle); 'additive writes to an empty slot are rejected' = add_empty_rejected; "
    "'through both the data-dictionary helpers and the equation-system wrappers' = data_*_is_store_step, es_set_get_roundtrip, es_set_blocks, "
    "es_shift_simultaneous; neighbouring entry point un-shift = unshift_refines, unshift_after_shift.")
ASSUMPTIONS = [
    "values are exact in binary64 (dyadic generator, <= 40 additions) so that the rational model and the float implementation agree exactly",
    "arrays written to one name always have the same length (numpy broadcasting of += on mismatching shapes is not modelled)",
    "index i holds the i-th most recent value only if the depth was > i - j at the j-th most recent shift (j < i); after the depth was reduced "
    "and raised again the slots beyond the reduced depth hold stale values (the code's own TODO) - these are compared with the model but "
    "not judged by the oracle",
]

SENT = 7777.0


# ----------------------------------------------------------------------------- generator
def _vec(rng, n):
    return [frac(Fraction(rng.randint(-64, 64), rng.choice([1, 1, 2, 4, 8]))) for _ in range(n)]


def _pick_idx(rng):
    """(ts, it) for a write/read at index 0 mostly."""
    r = rng.random()
    i = 0
    if r < 0.5:
        return i, None
    if r < 0.9:
        return None, i
    return 0, 0


def _gen_selector(rng, names):
    r = rng.random()
    if r < 0.4:
        return None
    if r < 0.44:
        return []
    k = rng.choice([1, 1, 2, 2, 3])
    return [[rng.choice(["str", "var", "md"]), rng.choice(names)] for _ in range(k)]


def _sel_names(sel, names):
    """distinct selected names in global (creation) order"""
    if sel is None:
        return list(names)
    chosen = {s[1] for s in sel}
    return [n for n in names if n in chosen]


def _sel_seq(sel, names):
    """selected names in argument order with duplicates (what _parse_variable_type returns on one grid)"""
    if sel is None:
        return list(names)
    return [s[1] for s in sel]


def _finish(rng, case, names, sizes):
    """3% of the equation-system cases end with a vector of the wrong size (final assertion of set_variable_values, after the writes)"""
    if case["mode"] == "es" and rng.random() < 0.03:
        sel = _gen_selector(rng, names)
        tot = sum(sizes[n] for n in _sel_names(sel, names))
        wrong = max(0, tot + rng.choice([-2, -1, 1, 2]))
        if wrong != tot:
            case["ops"].append({"op": "es_set", "vars": sel, "values": _vec(rng, wrong), "ts": 0, "it": None, "additive": False,
                                "keep": False, "wrong_size": True})
    return case


def gen_case(rng, tier):
    mode = "utils" if rng.random() < 0.5 else "es"
    if mode == "utils":
        names = ["x"] if rng.random() < 0.5 else ["x", "y"]
        sizes = {n: rng.randint(2, 4) for n in names}
        case = {"mode": mode, "sizes": sizes}
    else:
        nx = rng.choice([2, 3])
        vars_ = [["a", rng.choice([1, 2])]] + ([["b", rng.choice([1, 2])]] if rng.random() < 0.6 else [])
        names = [v[0] for v in vars_]
        sizes = {v[0]: nx * v[1] for v in vars_}
        case = {"mode": mode, "nx": nx, "vars": vars_, "sizes": sizes}
        if rng.random() < 0.4:  # stratum: time-dependent boundary values on the boundary grid (update / revert)
            case["bc"] = ["u"] if rng.random() < 0.7 else ["u", "w"]
            for b in case["bc"]:
                sizes[b] = 2 * nx + 2
    depth = rng.randint(1, 4)
    fixed_depth = rng.random() < 0.7
    nmax = 40
    ops = []

    def cur_depth():
        return depth if fixed_depth else rng.randint(1, 4)

    def keep():
        return rng.random() < 0.5

    def raw_set(name, ts, it, additive):
        return {"op": "set", "name": name, "values": _vec(rng, sizes[name]), "ts": ts, "it": it, "additive": additive, "keep": keep()}

    bc = case.get("bc", [])

    def bc_op():
        b = rng.choice(bc)
        q = rng.random()
        if q < 0.55:
            return {"op": "bc_update", "name": b, "values": _vec(rng, sizes[b]), "depth": cur_depth() if rng.random() < 0.95 else 0, "keep": keep()}
        if q < 0.75:
            return {"op": "bc_revert"}
        j = rng.choice([0, 0, 1, 1, 2, 3])
        ts, it = (j, None) if rng.random() < 0.6 else (None, j)
        if q < 0.90:
            return {"op": "get", "name": b, "ts": ts, "it": it, "keep": keep(), "bd": True}
        if q < 0.96:
            return dict(raw_set(b, ts, it, rng.random() < 0.5), bd=True)
        return {"op": "shift", "name": b, "loc": rng.choice([TS, IT]), "max": rng.choice([None, 1, 2, 3]), "bd": True}

    if bc and rng.random() < 0.35:
        # stratum: the time loop on boundary values: update per time step, a rejected step = revert followed by update
        for k in range(rng.randint(2, 10)):
            b = rng.choice(bc)
            m = cur_depth()
            ops.append({"op": "bc_update", "name": b, "values": _vec(rng, sizes[b]), "depth": m, "keep": keep()})
            if rng.random() < 0.35:
                ops.append({"op": "bc_revert"})
                if rng.random() < 0.8:
                    ops.append({"op": "bc_update", "name": b, "values": _vec(rng, sizes[b]), "depth": m, "keep": keep()})
            for _ in range(rng.choice([0, 1, 2])):
                j = rng.randint(0, 3)
                ts, it = (j, None) if rng.random() < 0.7 else (None, 0)
                ops.append({"op": "get", "name": b, "ts": ts, "it": it, "keep": keep(), "bd": True})
        return _finish(rng, dict(case, ops=ops[:40], stratum="bc-time-loop"), names, sizes)

    pattern = rng.random() < 0.3
    if pattern:
        # the usage pattern of the models: (shift(depth); write index 0)*, reads sprinkled in
        loc = rng.choice([TS, IT])
        additive_rounds = rng.random() < 0.5
        rounds = rng.randint(2, 12)
        for k in range(rounds):
            m = cur_depth()
            idx = (0, None) if loc == TS else (None, 0)
            if mode == "es" and rng.random() < 0.8:
                sel = None if rng.random() < 0.6 else _gen_selector(rng, names)
                ops.append({"op": "es_shift", "vars": sel, "loc": loc, "max": m})
                tot = sum(sizes[n] for n in _sel_names(sel, names))
                ops.append({"op": "es_set", "vars": sel, "values": _vec(rng, tot), "ts": idx[0], "it": idx[1],
                            "additive": additive_rounds and k > 0 and rng.random() < 0.9, "keep": keep()})
            else:
                for n in names:
                    ops.append({"op": "shift", "name": n, "loc": loc, "max": m})
                    ops.append(raw_set(n, idx[0], idx[1], additive_rounds and k > 0 and rng.random() < 0.9))
            for _ in range(rng.choice([0, 1, 1, 2])):
                i = rng.randint(0, 4)
                idx2 = (i, None) if loc == TS else (None, i)
                if mode == "es" and rng.random() < 0.6:
                    ops.append({"op": "es_get", "vars": _gen_selector(rng, names), "ts": idx2[0], "it": idx2[1], "keep": keep()})
                else:
                    ops.append({"op": "get", "name": rng.choice(names), "ts": idx2[0], "it": idx2[1], "keep": keep()})
        return _finish(rng, dict(case, ops=ops[:40], stratum="model-pattern"), names, sizes)

    nops = rng.randint(3, nmax)
    for k in range(nops):
        r = rng.random()
        es_level = mode == "es" and rng.random() < 0.75
        name = rng.choice(names)
        if bc and rng.random() < 0.3:
            ops.append(bc_op())
            continue
        if k < 2 and r > 0.15:
            r = 0.5  # start with writes at index 0
        if r < 0.30:  # shift
            q = rng.random()
            m = cur_depth() if q < 0.85 else (None if q < 0.93 else (rng.randint(0, 5) if q < 0.98 else -rng.randint(1, 2)))
            loc = rng.choice([TS, IT])
            if es_level:
                ops.append({"op": "es_shift", "vars": _gen_selector(rng, names), "loc": loc, "max": m})
            else:
                if rng.random() < 0.02:
                    loc = "parameters"
                ops.append({"op": "shift", "name": name, "loc": loc, "max": m})
        elif r < 0.70:  # write
            ts, it = _pick_idx(rng)
            q = rng.random()
            if q < 0.10:  # other index (may create holes)
                j = rng.randint(1, 4)
                ts, it = (j if ts is not None else None), (j if it is not None else None)
            elif q < 0.12:
                ts, it = None, None
            elif q < 0.14:
                ts, it = rng.choice([(-1, None), (None, -1), (0, -2)])
            additive = rng.random() < 0.4
            if es_level:
                sel = _gen_selector(rng, names)
                tot = sum(sizes[n] for n in _sel_names(sel, names))
                ops.append({"op": "es_set", "vars": sel, "values": _vec(rng, tot), "ts": ts, "it": it, "additive": additive, "keep": keep()})
            else:
                ops.append(raw_set(name, ts, it, additive))
        else:  # read
            j = rng.choice([0, 0, 0, 1, 1, 1, 2, 2, 3, 4, 5])
            if rng.random() < 0.5:
                ts, it = j, None
            else:
                ts, it = None, j
            q = rng.random()
            if q < 0.03:
                ts, it = 0, 0
            elif q < 0.05:
                ts, it = None, None
            elif q < 0.07:
                ts, it = rng.choice([(-1, None), (None, -1)])
            if es_level:
                ops.append({"op": "es_get", "vars": _gen_selector(rng, names), "ts": ts, "it": it, "keep": keep()})
            else:
                ops.append({"op": "get", "name": name, "ts": ts, "it": it, "keep": keep()})
    return _finish(rng, dict(case, ops=ops, stratum="free"), names, sizes)


# ----------------------------------------------------------------------------- dissection of equation-system calls
def _names(case):
    return [v[0] for v in case["vars"]] if case["mode"] == "es" else list(case["sizes"])


def _dissect(case, op):
    """helper-level calls an equation-system call amounts to (global order = creation order on the single grid)."""
    names, sizes = _names(case), case["sizes"]
    if op["op"] == "es_set":
        out, pos = [], 0
        for n in _sel_names(op["vars"], names):
            out.append({"op": "set", "name": n, "values": op["values"][pos:pos + sizes[n]], "ts": op["ts"], "it": op["it"], "additive": op["additive"]})
            pos += sizes[n]
        return out
    if op["op"] == "es_get":
        return [{"op": "get", "name": n, "ts": op["ts"], "it": op["it"]} for n in _sel_names(op["vars"], names)]
    if op["op"] == "es_shift":
        return [{"op": "shift", "name": n, "loc": op["loc"], "max": op["max"]} for n in _sel_seq(op["vars"], names)]
    raise ValueError(op["op"])


# ----------------------------------------------------------------------------- real code
class _Impl:
    """Executes the ops of a case on the real code. Every array handed to / received from porepy is either overwritten with a
    sentinel right after the call (keep=False) or kept with a snapshot (keep=True)."""

    def __init__(self, case):
        import porepy as pp

        self.pp = pp
        self.case = case
        self.kept = []  # (array, snapshot, description)
        self.handled = []  # every array passed to / returned by porepy
        if case["mode"] == "utils":
            self.data = {}
            self.es = None
        else:
            mdg = pp.meshing.cart_grid([], [case["nx"], 1])
            self.es = pp.ad.EquationSystem(mdg)
            self.md = {}
            for name, k in case["vars"]:
                self.md[name] = self.es.create_variables(name, {"cells": k}, subdomains=mdg.subdomains())
            self.data = mdg.subdomain_data(mdg.subdomains()[0])
            self.mdg = mdg
            self.bdata = [d for _, d in mdg.boundaries(return_data=True)][0]

    def _sel(self, sel):
        if sel is None:
            return None
        out = []
        for kind, name in sel:
            if kind == "str":
                out.append(name)
            elif kind == "md":
                out.append(self.md[name])
            else:
                out.append([v for v in self.es.variables if v.name == name][0])
        return out

    def _after(self, arr, op, k, what):
        self.handled.append((arr, f"{what} of op {k} ({op['op']})"))
        if op.get("keep"):
            self.kept.append((arr, arr.copy(), f"{what} of op {k} ({op['op']})"))
        else:
            arr[...] = SENT + k

    def call(self, k, op):
        """returns "ok" | ("val", ndarray copy) | {"err": kind}"""
        pp = self.pp
        o = op["op"]
        data = self.bdata if op.get("bd") else self.data
        try:
            if o == "bc_update":
                from types import SimpleNamespace

                arr = np.array([float(Fraction(v)) for v in op["values"]])
                stub = SimpleNamespace(mdg=self.mdg, time_step_indices=np.arange(op["depth"]))
                try:
                    pp.BoundaryConditionMixin.update_boundary_condition(stub, op["name"], lambda bg: arr)
                finally:
                    self._after(arr, op, k, "array returned by the boundary value function")
                return "ok"
            if o == "bc_revert":
                from types import SimpleNamespace

                pp.SolutionStrategy._revert_time_dependent_boundary_values(SimpleNamespace(mdg=self.mdg))
                return "ok"
            if o == "set":
                arr = np.array([float(Fraction(v)) for v in op["values"]])
                try:
                    pp.set_solution_values(op["name"], arr, data, time_step_index=op["ts"], iterate_index=op["it"], additive=op["additive"])
                finally:
                    self._after(arr, op, k, "array passed to set_solution_values")
                return "ok"
            if o == "get":
                r = pp.get_solution_values(op["name"], data, time_step_index=op["ts"], iterate_index=op["it"])
                res = ("val", np.array(r, dtype=float, copy=True))
                self._after(r, op, k, "array returned by get_solution_values")
                return res
            if o == "shift":
                pp.shift_solution_values(op["name"], data, op["loc"], op["max"])
                return "ok"
            if o == "es_set":
                arr = np.array([float(Fraction(v)) for v in op["values"]])
                try:
                    self.es.set_variable_values(arr, self._sel(op["vars"]), time_step_index=op["ts"], iterate_index=op["it"], additive=op["additive"])
                finally:
                    self._after(arr, op, k, "array passed to set_variable_values")
                return "ok"
            if o == "es_get":
                r = self.es.get_variable_values(self._sel(op["vars"]), time_step_index=op["ts"], iterate_index=op["it"])
                res = ("val", np.array(r, dtype=float, copy=True))
                self._after(r, op, k, "array returned by get_variable_values")
                return res
            if o == "es_shift":
                f = self.es.shift_time_step_values if op["loc"] == TS else self.es.shift_iterate_values
                f(self._sel(op["vars"]), op["max"])
                return "ok"
        except Exception as e:  # noqa: BLE001 - error kinds are part of the compared behaviour
            return err_kind(e)
        raise ValueError(o)

    def datas(self):
        return [self.data] + ([self.bdata] if self.es is not None else [])

    def data_of(self, name):
        return self.bdata if name in self.case.get("bc", []) else self.data

    def dump(self):
        out = []
        for data in self.datas():
            for loc in (TS, IT):
                for name, dct in data.get(loc, {}).items():
                    out.append([loc, name, [[int(i), [frac(x) for x in np.asarray(dct[i], dtype=float).ravel()]] for i in sorted(dct)]])
        return sorted(out)


def _canon(res):
    if isinstance(res, tuple):
        return {"val": [frac(x) for x in res[1]]}
    return res


def impl_run(case):
    im = _Impl(case)
    out = [_canon(im.call(k, op)) for k, op in enumerate(case["ops"])]
    out.append(im.dump())
    return out


# ----------------------------------------------------------------------------- model side
def _wire(op):
    return {k: v for k, v in op.items() if k not in ("keep", "wrong_size")}


def model_ops(case):
    ops = []
    names = _names(case)
    if case["mode"] == "es":
        ops.append({"op": "layout", "blocks": [[n, case["sizes"][n]] for n in names]})
    for op in case["ops"]:
        if op["op"].startswith("es_"):
            w = _wire(op)
            w["sel"] = _sel_seq(w.pop("vars"), names)  # _parse_variable_type: names in argument order, duplicates kept
            ops.append(w)
        else:
            ops.append(_wire(op))
    ops.append({"op": "dump"})
    return ops


def model_decode(outs, case):
    outs = outs[1:] if case["mode"] == "es" else outs
    res = list(outs[:-1])
    res.append(sorted([d["loc"], d["name"], sorted(d["entries"], key=lambda e: e[0])] for d in outs[-1]["main"] + outs[-1]["bd"]))
    return res


def compare(impl, model, case):
    return deep_compare(impl, model)


# ----------------------------------------------------------------------------- oracle: deque-style reference
STALE = "stale"


class _RefStore:
    """What the property says about one history data[loc][name]: `w[i]` = i-th most recent value written at index 0
    (a Fraction vector), or STALE = a slot that physically exists but lies beyond the depth of some shift since it was
    written (content not specified by the property). `irregular` = a write beyond the end created a hole; then only
    the slots in `known` are specified (until the next shift)."""

    def __init__(self):
        self.w = []
        self.irregular = False
        self.known = {}

    def lose(self):
        self.irregular = True
        self.known = {}

    def demote(self):
        """an unspecified slot turned out to be empty: from now on only the individually known slots are specified"""
        if not self.irregular:
            self.known = {j: x for j, x in enumerate(self.w) if x is not STALE}
            self.irregular = True

    def set(self, i, v):
        if self.irregular:
            self.known[i] = v
        elif i < len(self.w):
            self.w[i] = v
        elif i == len(self.w):
            self.w.append(v)
        else:
            self.irregular = True
            self.known = {j: x for j, x in enumerate(self.w) if x is not STALE}
            self.known[i] = v
        return ("ok",)

    def add(self, i, v):
        if self.irregular:
            if i in self.known:
                self.known[i] = [a + b for a, b in zip(self.known[i], v)]
                return ("ok",)
            return ("unknown",)
        if i < len(self.w):
            if self.w[i] is STALE:
                return ("unknown",)  # a slot beyond the depth: whether it still exists is not specified
            self.w[i] = [a + b for a, b in zip(self.w[i], v)]
            return ("ok",)
        return ("err", "ValueError")

    def get(self, i):
        if self.irregular:
            return ("val", self.known[i]) if i in self.known else ("unknown",)
        if i < len(self.w):
            return ("val", self.w[i]) if self.w[i] is not STALE else ("unknown",)
        return ("err", "KeyError")

    def shift(self, m):
        if m is not None and m < 0:
            return ("nochange",)  # ValueError, or nothing at all if the name was never touched: not part of the property
        if self.irregular:
            self.known = {0: self.known[0]} if 0 in self.known else {}
            return ("unknown",)
        if self.w:
            new = [self.w[0]] + self.w  # deque.appendleft(current)
            if m is not None and len(self.w) >= m:
                new = new[:m] + [STALE] * (len(self.w) - m)  # maxlen = m; slots beyond the depth are unspecified
            self.w = new
        return ("ok",)

    def slots(self):
        if self.irregular:
            return dict(self.known)
        return {i: x for i, x in enumerate(self.w) if x is not STALE}


def _valid_idx(ts, it):
    """_validate_indices as a specification: list of (loc, index) or None for invalid arguments"""
    if ts is None and it is None:
        return None
    if (ts is not None and ts < 0) or (it is not None and it < 0):
        return None
    return ([(IT, it)] if it is not None else []) + ([(TS, ts)] if ts is not None else [])


class _Ref:
    def __init__(self):
        self.stores = {}

    def st(self, loc, name):
        return self.stores.setdefault((loc, name), _RefStore())

    def apply(self, op, is_err):
        """expectation for one helper-level call: list of per-location expectations or ("invalid",).
        `is_err`: the real call raised (only used to decide how far a two-location write got when that is unspecified)"""
        o = op["op"]
        if o == "shift":
            if op["loc"] not in (TS, IT):
                return [("invalid",)]
            return [self.st(op["loc"], op["name"]).shift(op["max"])]
        li = _valid_idx(op["ts"], op["it"])
        if li is None:
            return [("invalid",)]
        if o == "get":
            if len(li) != 1:
                return [("invalid",)]
            return [self.st(li[0][0], op["name"]).get(li[0][1])]
        v = [Fraction(x) for x in op["values"]]
        exps = []
        for n, (loc, i) in enumerate(li):
            s = self.st(loc, op["name"])
            e = s.add(i, v) if op["additive"] else s.set(i, v)
            exps.append(e)
            if e[0] == "err":
                break
            if e[0] == "unknown" and is_err:
                # this write or a later one raised: nothing is specified for the remaining locations
                for loc2, _ in li[n + 1:]:
                    self.st(loc2, op["name"]).lose()
                break
        return exps


def _ref_bc_update(ref, op, is_err):
    """update_boundary_condition in window terms: time-step window := (current iterate value) pushed with depth m; iterate := new values"""
    s_it, s_ts = ref.st(IT, op["name"]), ref.st(TS, op["name"])
    vals = [Fraction(x) for x in op["values"]]
    e = s_it.get(0)
    if e[0] == "unknown":
        s_it.lose(); s_ts.lose()
        if not is_err:
            s_it.set(0, vals)
        return None
    if e[0] == "err":
        if is_err:
            return None  # the name was registered with nothing stored (KeyError of the read): no state change
        cur = vals  # nothing stored yet: initialisation with the new values
    else:
        cur = e[1]
    if is_err:
        if s_ts.irregular:
            s_it.lose(); s_ts.lose()
            return None
        return _fail(f"update_boundary_condition({op['name']}, depth={op['depth']}) raised on a hole-free history", "bc-update-raises")
    s_ts.shift(op["depth"])
    s_ts.set(0, cur)
    s_it.set(0, vals)
    return None


def _ref_bc_revert(ref, names, is_err):
    """_revert_time_dependent_boundary_values in window terms: iterate := head of the time-step window, window := its tail"""
    odd = [n for n in names if ref.st(TS, n).irregular or ref.st(IT, n).irregular or (ref.st(TS, n).w and not ref.st(IT, n).w)]
    if is_err:
        if not odd:
            return _fail("_revert_time_dependent_boundary_values raised on hole-free histories", "bc-revert-raises")
        # the un-shift must work on any index set (set_solution_values can create holes): index i -> i - 1, nothing raises,
        # nothing is shared.  The entry-by-entry loop raises KeyError half-way and can leave two slots referring to one array.
        return _fail("_revert_time_dependent_boundary_values raised on a time-step store with a hole "
                     f"(quantities {odd}); slots already moved stay shared with their source", "revert-unshift-with-holes")
    for n in names:
        s_it, s_ts = ref.st(IT, n), ref.st(TS, n)
        if n in odd:
            s_it.lose(); s_ts.lose()
            continue
        if not s_ts.w:
            continue
        s_it.w[0] = s_ts.w[0]
        s_ts.w = s_ts.w[1:]
    return None


def _fail(what, key):
    return {"what": what, "key": key}


def oracle(case):
    im = _Impl(case)
    ref = _Ref()
    sizes = case["sizes"]

    def desc(k, op):
        return f"op {k} {op['op']}({op.get('name', op.get('vars'))}, ts={op.get('ts')}, it={op.get('it')}, max={op.get('max')}, additive={op.get('additive')})"

    for k, op in enumerate(case["ops"]):
        outcome = im.call(k, op)
        is_err = isinstance(outcome, dict)
        if op["op"] == "bc_update":
            r = _ref_bc_update(ref, op, is_err)
            if r:
                return r
            continue
        if op["op"] == "bc_revert":
            r = _ref_bc_revert(ref, case.get("bc", []), is_err)
            if r:
                return r
            continue
        if op.get("wrong_size"):
            # outside the property (arrays of the wrong length get stored before the assertion fails): compared with the model only
            for n in _sel_names(op["vars"], _names(case)):
                for loc in (TS, IT):
                    ref.st(loc, n).lose()
            continue
        subs = _dissect(case, op) if op["op"].startswith("es_") else [op]
        kind = op["op"].replace("es_", "")
        exp_err, uncertain, segs = None, False, []
        for j, sub in enumerate(subs):
            exps = ref.apply(sub, is_err)
            bad = [e for e in exps if e[0] in ("unknown", "invalid", "nochange")]
            errs = [e for e in exps if e[0] == "err"]
            if bad:
                uncertain = True
                if is_err and any(e[0] == "unknown" for e in bad):
                    # (invalid arguments / negative max_index change nothing; only "unknown" may hide a state change)
                    for loc in (TS, IT):
                        ref.st(loc, sub["name"]).demote()
                    # we cannot tell which helper call raised: nothing is specified any more for the remaining stores
                    for later in subs[j + 1:]:
                        for loc in (TS, IT):
                            ref.st(loc, later["name"]).lose()
                if is_err:
                    break
                continue
            if errs:
                exp_err = errs[0][1]
                break
            segs.append((sub, exps[0]))
        if uncertain:
            # outcome not specified by the property (invalid arguments, stores with holes); only the error kind is sanity checked
            if is_err and outcome["err"] not in ("KeyError", "ValueError"):
                return _fail(f"{desc(k, op)} raised {outcome['err']}", f"{kind}-unexpected-exception")
            continue
        if exp_err is not None:
            if not is_err:
                if kind == "set":
                    return _fail(f"{desc(k, op)}: additive write to an empty slot was not rejected", "add-empty-not-rejected")
                return _fail(f"{desc(k, op)}: read of an empty slot did not raise", "get-empty-no-error")
            if outcome["err"] != exp_err:
                return _fail(f"{desc(k, op)} raised {outcome['err']}, expected {exp_err}", f"{kind}-wrong-error-kind")
            continue
        if is_err:
            return _fail(f"{desc(k, op)} raised {outcome['err']} on a hole-free history", f"{kind}-raises")
        if kind == "get":
            got = [Fraction(float(x)) for x in outcome[1]]
            pos = 0
            for sub, e in segs:
                n = sizes[sub["name"]]
                part = got[pos:pos + n]
                pos += n
                if len(part) != n:
                    return _fail(f"{desc(k, op)} returned {len(got)} values", "get-wrong-size")
                if e[0] == "val" and part != e[1]:
                    idx = sub["ts"] if sub["ts"] is not None else sub["it"]
                    return _fail(f"{desc(k, op)}: {sub['name']}[{idx}] is {[str(x) for x in part]} but the {idx}-th most recent value written at index 0 is {[str(x) for x in e[1]]}",
                                 "window-get-mismatch")
            if pos != len(got):
                return _fail(f"{desc(k, op)} returned {len(got)} values, expected {pos}", "get-wrong-size")

    # ---- end of history: aliasing and full re-read -------------------------------------------------
    def reread(tag, key):
        for (loc, name), s in sorted(ref.stores.items()):
            for i, want in sorted(s.slots().items()):
                kw = {"time_step_index": i} if loc == TS else {"iterate_index": i}
                try:
                    got = [Fraction(float(x)) for x in im.pp.get_solution_values(name, im.data_of(name), **kw)]
                except Exception as e:  # noqa: BLE001
                    return _fail(f"{tag}: {loc}[{name}][{i}] raised {type(e).__name__}", key)
                if got != want:
                    return _fail(f"{tag}: {loc}[{name}][{i}] is {[str(x) for x in got]}, expected {[str(x) for x in want]}", key)
        return None

    def kept_ok(tag):
        for arr, snap, what in im.kept:
            if not np.array_equal(arr, snap):
                return _fail(f"{tag}: the {what} was altered by later calls ({snap.tolist()} -> {arr.tolist()})", "alias-kept-array-altered")
        return None

    def separated():
        """the separation invariant of the heap model on the real objects: no two slots share memory, no slot shares memory
        with an array the caller passed in or got back"""
        slots = []
        for data in im.datas():
            for loc in (TS, IT):
                for name, dct in data.get(loc, {}).items():
                    for i, a in dct.items():
                        if isinstance(a, np.ndarray):
                            slots.append((f"{loc}[{name}][{i}]", a))
        for x in range(len(slots)):
            for y in range(x + 1, len(slots)):
                if np.shares_memory(slots[x][1], slots[y][1]):
                    return _fail(f"slots {slots[x][0]} and {slots[y][0]} share memory", "sep-slots-share-memory")
            for arr, what in im.handled:
                if np.shares_memory(slots[x][1], arr):
                    return _fail(f"slot {slots[x][0]} shares memory with the {what}", "sep-slot-shares-memory-with-caller")
        return None

    r = kept_ok("end of history") or reread("end of history", "final-reread-mismatch") or separated()
    if r:
        return r
    # poke every specified slot additively: no other slot and no array held by the caller may change
    for (loc, name), s in sorted(ref.stores.items()):
        for i in sorted(s.slots()):
            one = np.ones(sizes[name])
            kw = {"time_step_index": i} if loc == TS else {"iterate_index": i}
            im.pp.set_solution_values(name, one, im.data_of(name), additive=True, **kw)
            s.add(i, [Fraction(1)] * sizes[name])
            r = kept_ok(f"after += 1 on {loc}[{name}][{i}]") or reread(f"after += 1 on {loc}[{name}][{i}]", "poke-altered-other-slot")
            if r:
                return r
    # overwrite every array the caller still holds: the store must not change
    for arr, _, _ in im.kept:
        arr[...] = SENT
    return reread("after overwriting all arrays passed in / returned earlier", "alias-store-altered")


# ----------------------------------------------------------------------------- tie of the heap model's copy decisions to the source
CODE_POLICY = {"copySet": True, "copyGet": True, "copyShift": True, "additiveInPlace": True}  # = codePolicy in Model.lean


def _is_copy(e):
    return isinstance(e, ast.Call) and isinstance(e.func, ast.Attribute) and e.func.attr == "copy" and not e.args and not e.keywords


def _depth3(t):
    return isinstance(t, ast.Subscript) and isinstance(t.value, ast.Subscript) and isinstance(t.value.value, ast.Subscript)


def read_policy(path):
    """copy decisions of set/get/shift_solution_values, read off the source"""
    fns = {n.name: n for n in ast.parse(open(path).read()).body if isinstance(n, ast.FunctionDef)}
    f_set, f_get, f_shift = (fns[k] for k in ("set_solution_values", "get_solution_values", "shift_solution_values"))
    set_writes = [n for n in ast.walk(f_set) if isinstance(n, ast.Assign) and any(_depth3(t) for t in n.targets)]
    set_aug = [n for n in ast.walk(f_set) if isinstance(n, ast.AugAssign) and _depth3(n.target)]
    shift_writes = [n for n in ast.walk(f_shift) if isinstance(n, ast.Assign) and any(_depth3(t) for t in n.targets)]
    rets = [n for n in ast.walk(f_get) if isinstance(n, ast.Return) and n.value is not None]
    if not set_writes or not shift_writes or not rets or len(set_aug) != 1:
        raise RuntimeError("cannot locate the storage writes / the return of the helpers in ad_utils.py")
    def ret_is_copy(r):
        if _is_copy(r.value):
            return True
        if isinstance(r.value, ast.Name):
            asg = [n for n in ast.walk(f_get) if isinstance(n, ast.Assign) and any(isinstance(t, ast.Name) and t.id == r.value.id for t in n.targets)]
            return bool(asg) and all(_is_copy(n.value) for n in asg)
        return False
    return {
        "copySet": all(_is_copy(n.value) for n in set_writes),
        "copyGet": all(ret_is_copy(r) for r in rets),
        "copyShift": all(_is_copy(n.value) for n in shift_writes),
        "additiveInPlace": isinstance(set_aug[0].op, ast.Add),
    }


def translate():
    pol = read_policy(os.path.join(REPO, "src", "porepy", "numerics", "ad", "ad_utils.py"))
    if pol != CODE_POLICY:
        raise RuntimeError(f"copy decisions in ad_utils.py {pol} differ from codePolicy of the heap model {CODE_POLICY}")
    return {"obligations": 0, "what": "copy decisions of set/get/shift_solution_values read off the source (ast) = codePolicy", "policy": pol}


# ----------------------------------------------------------------------------- evidence helpers
def _flat(case):
    for op in case["ops"]:
        if op["op"].startswith("es_"):
            yield from _dissect(case, op)
        else:
            yield op


def nontrivial(case):
    subs = list(_flat(case))
    shifts = sum(1 for o in subs if o["op"] == "shift")
    deep = any(o["op"] == "get" and max(o["ts"] or 0, o["it"] or 0) >= 1 for o in subs)
    additive = any(o["op"] == "set" and o["additive"] for o in subs)
    return shifts >= 2 and deep and additive


def shrink_candidates(case):
    ops = case["ops"]
    for i in range(len(ops)):
        yield dict(case, ops=ops[:i] + ops[i + 1:])
    for i, op in enumerate(ops):
        if op.get("vars"):
            for j in range(len(op["vars"])):
                sel = op["vars"][:j] + op["vars"][j + 1:]
                op2 = dict(op, vars=sel)
                if op["op"] == "es_set":
                    tot = sum(case["sizes"][n] for n in _sel_names(sel, _names(case)))
                    op2["values"] = op["values"][:tot]
                yield dict(case, ops=ops[:i] + [op2] + ops[i + 1:])
        if op.get("keep"):
            yield dict(case, ops=ops[:i] + [dict(op, keep=False)] + ops[i + 1:])


def stats(cases, impl_outs):
    from collections import Counter

    c = Counter()
    for case, out in zip(cases, impl_outs):
        c["mode:" + case["mode"]] += 1
        c["stratum:" + case.get("stratum", "corpus")] += 1
        if case.get("bc"):
            c["cases_with_boundary_values"] += 1
        for op in case["ops"]:
            c["op:" + op["op"]] += 1
            if op["op"] in ("shift", "es_shift"):
                c["max_index:" + str(op["max"])] += 1
            if op.get("additive"):
                c["additive_writes"] += 1
            if op.get("wrong_size"):
                c["wrong_size_vectors"] += 1
            if op.get("bd"):
                c["direct_calls_on_boundary_data"] += 1
            if op["op"] == "bc_update" and op["depth"] == 0:
                c["bc_update_depth_0"] += 1
            if op["op"] in ("set", "es_set") and op["ts"] is not None and op["it"] is not None:
                c["writes_both_locations"] += 1
        if isinstance(out, list):
            for o in out[:-1]:
                if isinstance(o, dict) and "err" in o:
                    c["err:" + o["err"]] += 1
            c["final_nonempty_stores"] += sum(1 for s in out[-1] if s[2])
            c["final_stores_with_holes"] += sum(1 for s in out[-1] if s[2] and [e[0] for e in s[2]] != list(range(len(s[2]))))
            c["final_max_len"] = max(c["final_max_len"], max([len(s[2]) for s in out[-1]] + [0]))
    return dict(sorted(c.items()))
